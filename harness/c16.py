"""C16 -- CML molecules load faithfully."""
import contextlib
import io
import json
import os
import shutil
import sys
import tempfile
from fractions import Fraction

import numpy as np

from common import Run, corpus, gal, N, Some, GEN

SC = 10 ** 6     # coordinates are decimals with <= 6 digits; model uses integers scaled by 1e6


def dec(z, sc=SC):
    """exact decimal text of z / sc (sc a power of ten)"""
    s = "-" if z < 0 else ""
    z = abs(z)
    digits = len(str(sc)) - 1
    return "%s%d.%0*d" % (s, z // sc, digits, z % sc) if z % sc else "%s%d" % (s, z // sc)


def enot(z, sc):
    """the same rational number written with an exponent: <integer>e-<digits>"""
    return "%de-%d" % (z, len(str(sc)) - 1) if z % 7 else "%d.0E-%d" % (z, len(str(sc)) - 1)


def xml_of(doc, rng, style):
    lines = ['<?xml version="1.0" encoding="UTF-8"?>'] if style % 2 else []
    lines.append("<molecule>")
    lines.append("  <atomArray>")
    for (i, e, p) in doc["atoms"]:
        fmt = (lambda z: enot(z, doc.get("sc", SC))) if doc.get("enot") else (lambda z: dec(z, doc.get("sc", SC)))
        lines.append('    <atom id="%s" elementType="%s" x3="%s" y3="%s" z3="%s" />' % (i, e, fmt(p[0]), fmt(p[1]), fmt(p[2])))
    lines.append("  </atomArray>")
    if doc["bonds"] or style % 3 != 0:
        lines.append("  <bondArray>")
        for (a, b) in doc["bonds"]:
            sep = " " if rng.random() < 0.8 else "  "
            lines.append('    <bond atomRefs2="%s%s%s" order="%s" />' % (a, sep, b, rng.choice(["1", "2", "1.5"])))
        lines.append("  </bondArray>")
    lines.append("</molecule>")
    return "\n".join(lines) + "\n"


def gen_doc(rng, k):
    n = [1, 1, 2, 3, 5, 8, 12, 30][k % 8] if k % 5 else rng.randint(1, 30)
    scheme = ["sequential", "shuffled", "strings", "gaps", "case", "digits"][k % 6]
    if scheme == "sequential":
        ids = ["a%d" % (i + 1) for i in range(n)]
    elif scheme == "shuffled":
        ids = ["a%d" % (i + 1) for i in range(n)]
        rng.shuffle(ids)
    elif scheme == "strings":
        ids = []
        while len(ids) < n:
            s = "".join(rng.choice("abcXYZ_-.019") for _ in range(rng.randint(1, 6)))
            if s not in ids:
                ids.append(s)
    elif scheme == "gaps":
        ids = ["a%d" % v for v in rng.sample(range(1, 500), n)]
    elif scheme == "digits":
        # ids that are numbers, but not the atoms' 1-based positions: shuffled, zero-based, multiples of ten
        ids = [str(v) for v in rng.choice([rng.sample(range(1, n + 1), n), list(range(n)), [10 * (i + 1) for i in range(n)], rng.sample(range(0, 3 * n + 3), n)])]
    else:    # ids that differ only in letter case
        base = ["CA", "Ca", "ca", "cA", "N1", "n1", "X", "x"]
        ids = (base + ["b%d" % i for i in range(n)])[:n]
        rng.shuffle(ids)
    els = [rng.choice(["C", "H", "O", "N", "Zr", "Cu", "Cl", "Ca"]) for _ in range(n)]
    mag = [1, 10, 1000, 10 ** 6][k % 4]
    sc = SC
    if k % 6 == 5:
        # coordinates with nine decimals, some of them tiny but not zero (1e-9 .. 3e-8)
        sc = 10 ** 9
        atoms = [(ids[i], els[i], tuple(rng.choice([rng.randrange(-30, 31), rng.randrange(-3 * sc, 3 * sc), 0]) for _ in range(3))) for i in range(n)]
    else:
        atoms = [(ids[i], els[i], tuple(rng.randrange(-mag * SC, mag * SC) for _ in range(3))) for i in range(n)]
    nb = 0 if (n == 1 or k % 4 == 0) else rng.randint(1, 2 * n)
    bonds = [tuple(rng.sample(ids, 2)) for _ in range(nb)]
    return {"atoms": atoms, "bonds": bonds, "scheme": scheme, "sc": sc, "enot": (k % 7 == 3)}


def run_impl(text, via):
    from mofun import Atoms
    with contextlib.redirect_stderr(io.StringIO()), contextlib.redirect_stdout(io.StringIO()):
        try:
            if via == "path":
                d = os.path.join(GEN, "cml-%d" % os.getpid())
                os.makedirs(d, exist_ok=True)
                p = os.path.join(d, "m.cml")
                with open(p, "w") as f:
                    f.write(text)
                a = Atoms.load(p)
                os.remove(p)
            elif via == "file":
                a = Atoms.load(io.StringIO(text), filetype="cml")
            else:
                a = Atoms.load_cml(io.StringIO(text))
        except Exception as e:    # noqa
            return ("error", "%s: %s" % (type(e).__name__, e))
    return dict(elements=[str(e) for e in a.elements], pos=[tuple(float(x) for x in p) for p in np.array(a.positions).reshape(-1, 3)],
                bonds=[(int(i), int(j)) for i, j in np.array(a.bonds).reshape(-1, 2)])


def oracle(doc, obs):
    if isinstance(obs, tuple):
        return ["raised " + obs[1]]
    bad = []
    if obs["elements"] != [e for _, e, _ in doc["atoms"]]:
        bad.append("elements %s, document says %s" % (obs["elements"][:6], [e for _, e, _ in doc["atoms"]][:6]))
    for i, ((_, _, p), q) in enumerate(zip(doc["atoms"], obs["pos"])):
        if any(float(Fraction(p[d], doc.get("sc", SC))) != q[d] for d in range(3)):
            bad.append("atom %d at %s, document says %s" % (i, q, [dec(v, doc.get("sc", SC)) for v in p]))
            break
    if len(obs["pos"]) != len(doc["atoms"]):
        bad.append("%d atoms for %d atom entries" % (len(obs["pos"]), len(doc["atoms"])))
    idx = {}
    for i, (a, _, _) in enumerate(doc["atoms"]):
        idx[a] = i
    exp = [(idx[a], idx[b]) for a, b in doc["bonds"]]
    if obs["bonds"] != exp:
        bad.append("bonds %s, document says %s" % (obs["bonds"][:6], exp[:6]))
    return bad


def main(tier, seed, replay=None):
    run = Run("C16", tier, seed)
    ok_static = run.build_static()
    run.grep_gate()
    found_input = False
    if ok_static:
        run.compile_property("theories/Properties/C16.v")
        docs = []
        if replay:
            r = json.load(open(replay))
            if "input" in r:
                d = r["input"]
                docs.append({"atoms": [(a, e, tuple(p)) for a, e, p in d["atoms"]], "bonds": [tuple(b) for b in d["bonds"]], "scheme": "replay", "sc": d.get("sc", SC), "enot": d.get("enot", False)})
        for name, cj in corpus("C16"):
            docs.append({"atoms": [(a, e, tuple(p)) for a, e, p in cj["atoms"]], "bonds": [tuple(b) for b in cj["bonds"]], "scheme": "corpus:" + name})
        if not replay:
            n = 300 if tier == "quick" else 5000
            docs += [gen_doc(run.rng, k) for k in range(n)]
        ids = {}

        def I(s):
            return ids.setdefault(s, len(ids) + 1)
        lits = []
        for k, doc in enumerate(docs):
            text = xml_of(doc, run.rng, k)
            o1 = run_impl(text, "path")
            o2 = run_impl(text, "file")
            run.cov["evaluations"] += 2
            run.count("ids=" + doc["scheme"].split(":")[0])
            run.count("atoms=%s" % ("1" if len(doc["atoms"]) == 1 else "2-5" if len(doc["atoms"]) <= 5 else ">5"))
            run.count("bonds=%s" % ("0" if not doc["bonds"] else ">0"))
            bad = oracle(doc, o1)
            if o1 != o2:
                bad.append("loading from a path and from an open file differ")
            if bad:
                found_input = True
                run.violation("failing-input", {"input": {"atoms": doc["atoms"], "bonds": doc["bonds"], "sc": doc.get("sc", SC), "enot": doc.get("enot", False), "xml": text}, "observed": bad[:5],
                                                "expected": "one atom per entry in document order with its element and coordinates; one bond per bond entry between the referenced atoms",
                                                "case_kind": doc["scheme"]})
            if len(doc["atoms"]) >= 2 and len(set(e for _, e, _ in doc["atoms"])) >= 2 and doc["bonds"]:
                run.nontrivial((doc["atoms"], doc["bonds"]))
            obs = "None" if isinstance(o1, tuple) else "(Some (mk_loaded %s %s %s))" % (
                gal([I("el:" + e) for e in o1["elements"]]), gal([tuple(int(round(v * doc.get("sc", SC))) for v in p) for p in o1["pos"]]), gal([(N(i), N(j)) for i, j in o1["bonds"]]))
            lits.append("mk_case (mk_cml %s %s) %s" % (gal([(I("id:" + a), I("el:" + e), tuple(p)) for a, e, p in doc["atoms"]]),
                                                      gal([(I("id:" + a), I("id:" + b)) for a, b in doc["bonds"]]), obs))
            if doc["scheme"] in ("strings", "case"):
                run.sample({"ids": [a for a, _, _ in doc["atoms"]][:8], "bonds": doc["bonds"][:5], "n_atoms": len(doc["atoms"])})
        header = "From Coq Require Import ZArith List.\nFrom Mofun Require Import Model.Atoms Model.Cml Corr.CorrLib Corr.C16.\nImport ListNotations.\nOpen Scope Z_scope.\n"
        failing = run.correspond("c16", header, lits, shard=150)
        for f in failing:
            if f[0] == "case":
                run.notes.append("model/implementation disagreement on document %d (%s)" % (f[1], docs[f[1]]["scheme"]))
    shutil.rmtree(os.path.join(GEN, "cml-%d" % os.getpid()), ignore_errors=True)
    run.settle_broken(found_input)
    return run.finish(
        rule="generated Avogadro-flavour CML documents: 1-30 atoms; id schemes sequential, shuffled, arbitrary strings, numbers with gaps, ids differing "
             "only in letter case; bond lists empty (with and without a bondArray element) or random (either reference order, one or two spaces); "
             "coordinates of any sign up to 1e6 with six decimals; loaded by path and by open file.  Compared with the Coq model of the parsed document "
             "and with the statement directly.  Non-trivial = >= 2 atoms, >= 2 elements, >= 1 bond.",
        assumptions=["xml.etree.ElementTree and float() are trusted glue (exercised on every document, not modelled)"])


if __name__ == "__main__":
    sys.exit(main("quick", 1))
