"""C03 -- search results do not depend on how crystal or pattern are represented (metamorphic runs, each also run on the model)."""
import itertools
import json
import os
import sys

import numpy as np

import findgen as FG
from findgen import G
from common import Run, corpus, REPO


def wrap_exact(pos, cell):
    """wrap grid positions into the cell by subtracting integer lattice combinations (exact on the grid)"""
    inv = np.linalg.inv(cell)
    out = []
    for p in pos:
        f = np.floor(p @ inv + 1e-12)
        q = p - f @ cell
        ff = q @ inv
        for _ in range(2):
            f2 = np.floor(ff + 1e-12)
            q = q - f2 @ cell
            ff = q @ inv
        out.append(FG.grid(q))
    return np.array(out)


def variants(c, rng, tier):
    """list of (name, transformed case) -- each with its own expected groups"""
    out = [("identity", c)]
    n = len(c["els"])
    cell = c["cell"]
    inv = np.linalg.inv(cell)
    # 1. shift by a grid vector and wrap back
    for _ in range(2):
        v = FG.grid(np.array([rng.uniform(-1, 1) for _ in range(3)]) @ cell)
        pos = wrap_exact(np.array(c["pos"]) + v, cell)
        ff = pos @ inv
        if ff.min() > 1e-9 and ff.max() < 1 - 1e-9:
            out.append(("shift+wrap", dict(c, pos=pos)))
    # 2. permutation of the atoms
    perm = list(range(n))
    rng.shuffle(perm)
    newidx = {old: new for new, old in enumerate(perm)}
    out.append(("permute", dict(c, pos=np.array(c["pos"])[perm], els=[c["els"][i] for i in perm], planted_offs=None,
                                planted=[tuple(newidx[i] for i in g) for g in c["planted"]])))
    # 3. rigid motion of the pattern (exact rational rotation, re-gridded) and translation
    if len(c["pel"]) > 1:
        q = FG.rand_quat(rng, rng.choice(["random", "axis"]))
        pp = FG.grid(np.array(c["pp"]) @ FG.qrot(q).T + FG.grid([rng.uniform(-5, 5) for _ in range(3)]))
        out.append(("pattern-motion", dict(c, pp=pp)))
    else:
        out.append(("pattern-motion", dict(c, pp=FG.grid(np.array(c["pp"]) + FG.grid([rng.uniform(-5, 5) for _ in range(3)])))))
    # 3b. the pattern with its coordinates cyclically permuted (exact proper rotations: every axis direction x, y, z occurs)
    for sft in (1, 2):
        out.append(("pattern-axis-roll", dict(c, pp=np.roll(np.array(c["pp"]), sft, axis=1))))
    # 4. hint triples (orientation point off the axis), index 0 included
    pn = len(c["pel"])
    if pn >= 3 and not c.get("noisy"):      # hinted searches only on exact copies (see findgen.make_case)
        trip = []
        for a1, a2, o in itertools.permutations(range(pn), 3):
            ax = c["pp"][a2] - c["pp"][a1]
            if np.linalg.norm(np.cross(ax, c["pp"][o] - c["pp"][a1])) > 0.3 * np.linalg.norm(ax):
                trip.append((a1, a2, o))
        with0 = [t for t in trip if 0 in t]
        pick = (rng.sample(with0, min(4, len(with0))) + rng.sample(trip, min(2 if tier == "quick" else 6, len(trip))))
        for t in pick:
            out.append(("hints", dict(c, hints=t)))
    # 5. supercells: every occurrence once per image
    for r in ([(1, 1, 2), (2, 1, 1)] if tier == "quick" else [(1, 1, 2), (2, 1, 3), (2, 2, 2)]):
        if n * r[0] * r[1] * r[2] <= 36:
            from mofun import Atoms
            S, _ = FG.atoms_of(c)
            with FG.quiet():
                R = S.replicate(r)
            # image (i,j,k) of the unit cell is the block number k*ra*rb + i*rb + j of the replicated structure; an occurrence whose
            # atom a sits in unit-cell image n_a (as planted) re-appears, for every block t, with atom a in block (t + n_a) mod r
            def block(t):
                return (t[2] % r[2]) * r[0] * r[1] + (t[0] % r[0]) * r[1] + (t[1] % r[1])
            planted = []
            for g, offs in zip(c["planted"], c["planted_offs"]):
                for t in itertools.product(range(r[0]), range(r[1]), range(r[2])):
                    planted.append(tuple(i + n * block((t[0] + o[0], t[1] + o[1], t[2] + o[2])) for i, o in zip(g, offs)))
            out.append(("supercell%s" % (r,), dict(c, pos=np.array(R.positions), els=list(R.elements), cell=np.array(R.cell), planted=planted)))
    return out


def mof_metamorphic(run):
    """thorough tier: the repository's MOF files, implementation against itself (a test, no model)"""
    from mofun import Atoms, find_pattern_in_structure
    import random
    bad = []
    files = [("tests/uio66/uio66.cif", "tests/uio66/uio66-linker.cml"), ("tests/hkust-1/hkust-1-with-bonds.cif", "tests/hkust-1/hkust-1-benzene.cml")]
    for sf, pf in files:
        sp, ppth = os.path.join(REPO, sf), os.path.join(REPO, pf)
        if not (os.path.exists(sp) and os.path.exists(ppth)):
            run.notes.append("MOF file missing: %s" % sf)
            continue
        with FG.quiet():
            S = Atoms.load(sp)
            P = Atoms.load(ppth)
            base = sorted(tuple(sorted(m)) for m in find_pattern_in_structure(S, P))
            run.count("mof-file")
            # shift + wrap (fractional)
            S2 = S.copy()
            inv = np.linalg.inv(S.cell)
            S2.positions = (((S.positions + np.array([1.234, -2.5, 0.77])) @ inv) % 1.0) @ S.cell
            r2 = sorted(tuple(sorted(m)) for m in find_pattern_in_structure(S2, P))
            if r2 != base:
                bad.append("%s: shift+wrap changes the matched groups (%d vs %d)" % (sf, len(r2), len(base)))
            for seed in (1, 2, 3):
                random.seed(seed)
                np.random.seed(seed)
                r3 = sorted(tuple(sorted(m)) for m in find_pattern_in_structure(S, P))
                if r3 != base:
                    bad.append("%s: seed %d changes the matched groups" % (sf, seed))
        run.cov["evaluations"] += 5
    return bad


def main(tier, seed, replay=None):
    run = Run("C03", tier, seed)
    ok_static = run.build_static()
    run.grep_gate()
    found_input = False
    if ok_static:
        run.compile_property("theories/Properties/C03.v")
        base = []
        if replay:
            r = json.load(open(replay))
            if "input" in r:
                base.append((FG.case_from_json(r["input"]["case"]), r["input"].get("seed", 0), r["input"].get("variant", "replay")))
        for name, cj in corpus("C03"):
            base.append((FG.case_from_json(cj["case"]), cj.get("seed", 0), "corpus:" + name))
        cases = []
        if replay or base:
            cases += base
        if not replay:
            nbase = 16 if tier == "quick" else 90
            k = 0
            made = 0
            while made < nbase and k < 40 * nbase:
                c = FG.make_case(run.rng, k, flavor=["mixed", "corners", "antiparallel"][k % 3])
                k += 1
                if c is None or c["planted"] is None or not c["planted"]:
                    continue
                made += 1
                for vname, vc in variants(c, run.rng, tier):
                    for s in ([run.rng.randrange(1 << 30)] if vname != "identity" else [run.rng.randrange(1 << 30) for _ in range(3 if tier == "quick" else 20)]):
                        cases.append((vc, s, vname))
        E = FG.ElemIds()
        lits, results = [], []
        for c, s, kind in cases:
            res = FG.run_find(c, s)
            results.append(res)
            run.cov["evaluations"] += 1
            run.count("variant=" + kind.split("(")[0].split(":")[0])
            run.count("pattern=" + c["name"])
            run.count("cell=" + c["cellkind"])
            if res[0] and kind != "identity":
                run.nontrivial(FG.case_json(c))
            lits.append(FG.find_case_literal(c, res, E, expect="planted"))
            if kind.startswith("supercell") or kind == "hints":
                run.sample(dict(FG.describe(c), variant=kind))
        failing = run.correspond("c03", FG.FIND_HEADER, lits, shard=10, spec=True, timeout=1500)
        for gi in sorted(set(run.spec_failing)):
            c, s, kind = cases[gi]
            idx = results[gi][0]
            got = sorted(tuple(sorted(m)) for m in idx)
            exp = sorted(tuple(sorted(g)) for g in c["planted"])
            found_input = True
            run.violation("failing-input", {"input": {"case": FG.case_json(c), "seed": s, "variant": kind},
                                            "observed": {"groups": got}, "expected": {"groups": exp, "why": "the planted occurrences after the obvious renaming for this representation (%s)" % kind},
                                            "case_kind": kind})
        for f in failing:
            if f[0] == "case" and f[1] not in run.spec_failing:
                run.notes.append("model/implementation disagreement on case %d (%s)" % (f[1], cases[f[1]][2]))
        if tier == "thorough" and not replay:
            for b in mof_metamorphic(run):
                found_input = True
                run.violation("failing-input", {"input": {"mof": b}, "observed": b, "expected": "same matched groups"})
    run.settle_broken(found_input)
    return run.finish(
        rule="base planted problems (mixed / corner / antiparallel flavors) each re-run under: common shift by a grid vector + wrap, atom "
             "permutation, rigid motion of the pattern (exact rational rotation, re-gridded) + translation, valid hint triples incl. index 0, "
             "3 (thorough: 20) RNG seeds, supercells (1,1,2), (2,1,1) (thorough also (2,1,3), (2,2,2)).  Every run is a FindCorr case whose expected "
             "groups are the planted ones after the obvious renaming, so invariance = `reported = expected` for every representation; each is "
             "also run on the Coq model.  Thorough adds implementation-vs-implementation runs on the repository's MOF files (a test).  "
             "Non-trivial = a transformed representation with >= 1 match.",
        assumptions=["invariance is proved only for the random choice (C03_rng_independent); shift/permutation/motion/hints/supercell invariance is validated per run, it inherits the unproved completeness of C02",
                     "grid inputs"])


if __name__ == "__main__":
    sys.exit(main("quick", 1))
