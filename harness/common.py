"""Shared machinery of the /verif checks: environment, Coq build, property-file compilation,
correspondence evaluation (cases_*.v under vm_compute), known findings, replays, evidence."""
import fcntl
import glob
import hashlib
import json
import os
import random
import re
import shutil
import subprocess
import sys
import time

VERIF = os.path.dirname(os.path.dirname(os.path.abspath(__file__)))
REPO = os.environ.get("VERIF_REPO", "/repo")
# where evidence/ and replays/ are written (the seeded-change campaign redirects them so that it never touches the real evidence)
OUT = os.environ.get("VERIF_OUT", VERIF)
COQ = os.path.join(VERIF, "coq")
GEN = os.path.join(COQ, "gen")
NPROC = int(os.environ.get("VERIF_NPROC", "16"))

FORBIDDEN = re.compile(
    r"\b(Admitted|admit|Axiom|Axioms|Parameter|Parameters|Conjecture|Admit Obligations|bypass_check|"
    r"Unset Guard Checking|Unset Positivity Checking|Unset Universe Checking|type-in-type|impredicative-set)\b")


def ensure_env():
    """Re-exec once so that the implementation is always /repo's working tree, with fixed hashing."""
    want = {"PYTHONPATH": REPO, "PYTHONHASHSEED": "0", "PYTHONDONTWRITEBYTECODE": "1"}
    if any(os.environ.get(k) != v for k, v in want.items()):
        env = dict(os.environ)
        env.update(want)
        os.execve(sys.executable, [sys.executable] + sys.argv, env)


# ----------------------------------------------------------------------------- Gallina literals

class N(int):
    """a nat literal"""


class Raw(str):
    """raw Gallina text"""


class Some:
    def __init__(self, v):
        self.v = v


def gal(v):
    """Python value -> Gallina literal (Z_scope, string_scope open; nat literals carry %nat)."""
    if isinstance(v, Raw):
        return str(v)
    if isinstance(v, bool):
        return "true" if v else "false"
    if isinstance(v, N):
        return "%d%%nat" % int(v)
    if isinstance(v, int):
        return "(%d)" % v if v < 0 else "%d" % v
    if isinstance(v, str):
        assert '"' not in v and v.isascii(), v
        return '"%s"%%string' % v
    if v is None:
        return "None"
    if isinstance(v, Some):
        return "(Some %s)" % gal(v.v)
    if isinstance(v, tuple):
        return "(%s)" % ", ".join(gal(x) for x in v)
    if isinstance(v, list):
        return "[%s]" % "; ".join(gal(x) for x in v)
    raise TypeError("gal: %r" % (v,))


# ----------------------------------------------------------------------------- the run object

class Run:
    def __init__(self, pid, tier, seed):
        self.pid = pid
        self.tier = tier
        self.seed = seed
        self.t0 = time.time()
        self.rng = random.Random(seed * 1000003 + int(hashlib.sha1(pid.encode()).hexdigest()[:6], 16))
        self.rundir = os.path.join(GEN, "run-%s-%d" % (pid, os.getpid()))
        shutil.rmtree(self.rundir, ignore_errors=True)
        os.makedirs(self.rundir)
        self.obligations = []       # (name, ok, detail)
        self.assumptions = {}       # theorem -> text
        self.violations = []        # (replay path, no_input)
        self.known_printed = []
        self.cov = {"evaluations": 0, "distinct_nontrivial": 0, "samples": [], "exhaustive": False}
        self.hist = {}
        self.distinct = set()
        self.notes = []
        self.broken = []            # names of broken obligations (proof / correspondence)
        self.known = load_known(pid)

    # -- bookkeeping
    def count(self, key, n=1):
        self.hist[key] = self.hist.get(key, 0) + n

    def nontrivial(self, canon):
        self.distinct.add(hashlib.sha1(json.dumps(canon, sort_keys=True, default=str).encode()).hexdigest())

    def sample(self, s):
        if len(self.cov["samples"]) < 3:
            self.cov["samples"].append(s)

    def oblige(self, name, ok, detail=""):
        if os.environ.get("VERIF_DEBUG"):
            print("[%.1fs] %s %s" % (time.time() - self.t0, "ok " if ok else "BAD", name), flush=True)
        self.obligations.append((name, bool(ok), detail))
        if not ok:
            self.broken.append(name)

    # -- static library
    def build_static(self):
        os.makedirs(GEN, exist_ok=True)
        lock = open(os.path.join(GEN, ".lock"), "w")
        fcntl.flock(lock, fcntl.LOCK_EX)
        try:
            mk = os.path.join(COQ, "Makefile")
            cp = os.path.join(COQ, "_CoqProject")
            if not os.path.exists(mk) or os.path.getmtime(mk) < os.path.getmtime(cp):
                subprocess.run(["coq_makefile", "-f", "_CoqProject", "-o", "Makefile"], cwd=COQ, check=True,
                               stdout=subprocess.DEVNULL, stderr=subprocess.DEVNULL)
            p = subprocess.run(["timeout", "1500", "make", "-j%d" % NPROC], cwd=COQ, stdout=subprocess.PIPE,
                               stderr=subprocess.STDOUT, text=True)
        finally:
            fcntl.flock(lock, fcntl.LOCK_UN)
            lock.close()
        ok = p.returncode == 0
        self.oblige("static-library-build (make, full .vo)", ok, "" if ok else p.stdout[-3000:])
        return ok

    def gen_tables(self):
        p = subprocess.run([sys.executable, os.path.join(VERIF, "tools", "gen_tables.py"), REPO, self.rundir],
                           stdout=subprocess.PIPE, stderr=subprocess.STDOUT, text=True)
        ok = p.returncode == 0
        detail = p.stdout.strip()
        if ok:
            for f in ("Tables.v", "TablesR.v"):
                q = self.coqc(os.path.join(self.rundir, f), timeout=300)
                if q.returncode != 0:
                    ok = False
                    detail += "\n" + q.stdout[-2000:]
        self.oblige("table-translation (tools/gen_tables.py, fail-closed)", ok, detail)
        return ok

    def coqc(self, path, timeout=600, out=None):
        """compile one file against the static library and this run's generated directory"""
        if out is None:
            out = os.path.join(self.rundir, os.path.basename(path)[:-2] + ".vo")
        cmd = ["timeout", str(timeout), "coqc", "-Q", os.path.join(COQ, "theories"), "Mofun", "-Q", self.rundir, "MofunGen",
               "-o", out, path]
        return subprocess.run(cmd, cwd=self.rundir, stdout=subprocess.PIPE, stderr=subprocess.STDOUT, text=True)

    def compile_property(self, relpath, timeout=900):
        """Compile a property file; every `Print Assumptions` under a theorem is an obligation."""
        path = os.path.join(COQ, relpath)
        src = open(path).read()
        names = re.findall(r"^Print Assumptions\s+([A-Za-z0-9_'.]+)\s*\.", src, re.M)
        p = self.coqc(path, timeout=timeout)
        if p.returncode != 0:
            self.oblige("compile %s" % relpath, False, p.stdout[-3000:])
            for n in names:
                self.oblige("theorem %s" % n, False, "file did not compile")
            return False
        blocks = split_assumptions(p.stdout)
        if len(blocks) != len(names):
            self.oblige("compile %s" % relpath, False,
                        "expected %d Print Assumptions blocks, got %d" % (len(names), len(blocks)))
            return False
        for n, b in zip(names, blocks):
            self.assumptions[n] = b
            self.oblige("theorem %s" % n, True)
        return True

    def grep_gate(self):
        bad = []
        files = glob.glob(os.path.join(COQ, "theories", "**", "*.v"), recursive=True) + \
            glob.glob(os.path.join(COQ, "pertree", "*.v"))
        for f in files:
            txt = strip_comments(open(f).read())
            for m in FORBIDDEN.finditer(txt):
                bad.append("%s: %s" % (os.path.relpath(f, COQ), m.group(0)))
        self.oblige("grep-gate (no Admitted/admit/Axiom/Parameter/Conjecture/unset checks in %d files)" % len(files),
                    not bad, "; ".join(bad[:10]))
        return not bad

    # -- correspondence
    def correspond(self, name, header, cases, shard=300, timeout=900, explain=True, spec=False):
        """cases: list of Gallina case literals (strings).  header must Require the Corr module, which
        defines `failing : list case -> list nat` and `explain_failing : list case -> ...`.
        Returns the list of failing global indices (empty list = agreement)."""
        shards = [cases[i:i + shard] for i in range(0, len(cases), shard)] or [[]]
        paths = []
        for k, sh in enumerate(shards):
            path = os.path.join(self.rundir, "cases_%s_%d.v" % (name, k))
            with open(path, "w") as f:
                f.write(header + "\n")
                f.write("Definition cases : list case := [\n" + ";\n".join(sh) + "\n].\n")
                f.write("Eval vm_compute in (failing cases).\n")
                if spec:
                    f.write("Eval vm_compute in (spec_failing cases).\n")
                if explain:
                    f.write("Eval vm_compute in (explain_failing cases).\n")
            paths.append(path)
        procs = []
        results = [None] * len(paths)
        idx = 0
        running = []
        while idx < len(paths) or running:
            while idx < len(paths) and len(running) < NPROC:
                cmd = ["timeout", str(timeout), "coqc", "-Q", os.path.join(COQ, "theories"), "Mofun", "-Q", self.rundir,
                       "MofunGen", paths[idx]]
                outf = open(paths[idx] + ".out", "w")
                running.append((idx, subprocess.Popen(cmd, cwd=self.rundir, stdout=outf, stderr=subprocess.STDOUT)))
                outf.close()
                idx += 1
            still = []
            for i, pr in running:
                if pr.poll() is None:
                    still.append((i, pr))
                else:
                    results[i] = (pr.returncode, open(paths[i] + ".out").read())
            running = still
            if running:
                time.sleep(0.05)
        failing = []
        self.spec_failing = []
        for k, (rc, out) in enumerate(results):
            ok = rc == 0
            detail = ""
            local = []
            if ok:
                ms = re.findall(r"=\s*(\[.*?\])\s*:\s*list nat", out, re.S)
                m = re.search(r"=\s*(\[.*?\])\s*:\s*list nat", out, re.S)
                if spec and len(ms) >= 2:
                    self.spec_failing += [k * shard + int(x) for x in re.findall(r"(\d+)%nat", ms[1])]
                if not m:
                    ok = False
                    detail = "could not parse coqc output: " + out[-1500:]
                else:
                    local = [int(x) for x in re.findall(r"(\d+)%nat|\b(\d+)\b", m.group(1)) for x in x if x != ""]
                    if local:
                        ok = False
                        detail = out[-4000:]
            else:
                detail = out[-3000:]
            self.oblige("correspondence %s shard %d (%d cases)" % (name, k, len(shards[k])), ok, detail)
            if rc != 0 or (not ok and not local):
                failing.append(("shard", k, detail))
            for j in local:
                failing.append(("case", k * shard + j, detail))
        return failing

    # -- violations / known findings
    def violation(self, kind, body, no_input=False):
        os.makedirs(os.path.join(OUT, "replays"), exist_ok=True)
        n = len(self.violations)
        if n >= 5 and not no_input:
            # enough replays written for this run; further violations are only counted
            self.violations.append((None, no_input))
            return
        path = os.path.join(OUT, "replays", "%s-%d-%d.json" % (self.pid, self.seed, n))
        body = dict(body)
        body.update({"property": self.pid, "kind": kind, "seed": self.seed, "tier": self.tier,
                     "replay_cmd": "./check %s --replay %s" % (self.pid, path)})
        with open(path, "w") as f:
            json.dump(body, f, indent=1, default=str)
        self.violations.append((path, no_input))
        print("VIOLATION property=%s replay=%s%s" % (self.pid, path, " no-failing-input-found" if no_input else ""), flush=True)

    def known_finding(self, entry, still_fails, what=None):
        if still_fails:
            line = "KNOWN-FINDING: property=%s %s" % (self.pid, what or entry["what"])
            print(line, flush=True)
            self.known_printed.append(line)
        else:
            self.notes.append("known finding %s no longer reproduces" % entry.get("id"))

    # -- evidence
    def finish(self, rule, trusted_extra=(), assumptions=(), exhaustive=False, extra=None):
        shutil.rmtree(self.rundir, ignore_errors=True)
        nob = len(self.obligations)
        ndis = sum(1 for _, ok, _ in self.obligations if ok)
        axioms = sorted(set(l.strip() for t in self.assumptions.values() for l in t.splitlines()
                            if l.strip() and not l.startswith(" ") and ":" in l))
        trusted = ["Coq 8.16.1 kernel (coqc), vm_compute for reflection and for evaluating the model on the cases",
                   "hand-written Gallina models under coq/theories/Model tied to /repo by the correspondence run of this check",
                   "harness/%s.py (generators, implementation driver, canonicalisation) and harness/common.py" % self.pid.lower()]
        trusted += list(trusted_extra)
        if all("Closed under the global context" in t for t in self.assumptions.values()) and self.assumptions:
            trusted.append("Print Assumptions: every property theorem is closed under the global context (no axioms)")
        else:
            for name, t in sorted(self.assumptions.items()):
                if "Closed under the global context" not in t:
                    trusted.append("Print Assumptions %s: %s" % (name, " | ".join(x.strip() for x in t.splitlines() if x.strip() and not x.startswith("  "))[:1500]))
        cov = dict(self.cov)
        cov["distinct_nontrivial"] = len(self.distinct)
        cov["rule"] = rule
        cov["exhaustive"] = bool(exhaustive)
        cov["obligations"] = nob
        cov["discharged"] = ndis
        cov["checker_cmd"] = "cd /verif/coq && make (full .vo build) ; coqc -Q theories Mofun <property file> ; coqc cases_*.v  -- all driven by ./check %s --tier %s" % (self.pid, self.tier)
        cov["trusted_base"] = trusted
        cov["obligation_list"] = [{"name": n, "ok": ok} for n, ok, _ in self.obligations]
        cov["theorem_assumptions"] = {k: v.strip()[:600] for k, v in self.assumptions.items()}
        cov["input_distribution"] = self.hist
        cov["known_findings_printed"] = self.known_printed
        if self.notes:
            cov["notes"] = self.notes
        if extra:
            cov.update(extra)
        ev = {"property_id": self.pid, "tier": self.tier, "seed": self.seed, "level": "proof", "coverage": cov,
              "assumptions": list(assumptions), "wall_s": round(time.time() - self.t0, 2),
              "violations": len(self.violations)}
        os.makedirs(os.path.join(OUT, "evidence"), exist_ok=True)
        tmp = os.path.join(OUT, "evidence", ".%s.json.tmp" % self.pid)
        with open(tmp, "w") as f:
            json.dump(ev, f, indent=1, default=str)
        os.replace(tmp, os.path.join(OUT, "evidence", "%s.json" % self.pid))
        print("%s tier=%s seed=%d obligations=%d discharged=%d evaluations=%d nontrivial=%d violations=%d wall=%.1fs" %
              (self.pid, self.tier, self.seed, nob, ndis, cov["evaluations"], cov["distinct_nontrivial"],
               len(self.violations), time.time() - self.t0), flush=True)
        return 1 if self.violations else 0

    def settle_broken(self, found_input):
        """Called at the end: if an obligation broke and no concrete failing input was reported for it,
        the property is no longer shown to hold."""
        if self.broken and not found_input:
            details = {n: d[-2500:] for n, ok, d in self.obligations if not ok}
            self.violation("broken-proof-or-correspondence",
                           {"theorem_or_case": self.broken, "coq_output": details,
                            "note": "no concrete input was found on which the implementation violates the property; "
                                    "the named obligations no longer check, so the property is no longer shown to hold"},
                           no_input=True)


def split_assumptions(out):
    blocks = []
    cur = None
    for line in out.splitlines():
        if line.startswith("Closed under the global context"):
            if cur is not None:
                blocks.append(cur)
                cur = None
            blocks.append("Closed under the global context")
        elif line.startswith("Axioms:"):
            if cur is not None:
                blocks.append(cur)
            cur = ""
        elif cur is not None:
            if line.startswith("     =") or line.startswith("File "):
                blocks.append(cur)
                cur = None
            else:
                cur += line + "\n"
    if cur is not None:
        blocks.append(cur)
    return blocks


def strip_comments(txt):
    out = []
    depth = 0
    i = 0
    while i < len(txt):
        if txt.startswith("(*", i):
            depth += 1
            i += 2
        elif txt.startswith("*)", i) and depth > 0:
            depth -= 1
            i += 2
        else:
            if depth == 0:
                out.append(txt[i])
            i += 1
    return "".join(out)


def load_known(pid):
    path = os.path.join(VERIF, "known_findings.jsonl")
    out = []
    if os.path.exists(path):
        for line in open(path):
            line = line.strip()
            if line:
                e = json.loads(line)
                if e.get("property") == pid and e.get("status") == "known":
                    out.append(e)
    return out


def corpus(pid):
    out = []
    for p in sorted(glob.glob(os.path.join(VERIF, "corpus", pid, "*.json"))):
        out.append((os.path.basename(p), json.load(open(p))))
    return out


def parse_args(argv):
    import argparse
    ap = argparse.ArgumentParser()
    ap.add_argument("property")
    ap.add_argument("--tier", default=os.environ.get("VERIF_TIER", "quick"), choices=["quick", "thorough"])
    ap.add_argument("--replay", default=None)
    a = ap.parse_args(argv)
    seed = int(os.environ.get("VERIF_SEED", "20260930"))
    return a.property.upper(), a.tier, seed, a.replay
