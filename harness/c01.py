"""C01 -- every reported match is a genuine rigid-motion image of the pattern."""
import sys
from findcheck import run_find_property


def main(tier, seed, replay=None):
    n = 170 if tier == "quick" else 720
    return run_find_property(
        "C01", tier, seed, replay, ["theories/Properties/C01.v"], ["decoys", "mixed", "antiparallel", "distractors", "corners", "stretched", "shuffled"], n,
        rule="planted search problems on the 1/4096 A grid: 15 pattern classes (asymmetric, chiral, weakly chiral, mirror-symmetric, "
             "collinear, planar, single atom), orthorhombic / triclinic (+, -, mixed tilt) / large cells, 1-4 copies in random and "
             "axis-aligned poses near faces, edges and corners, positional noise <= atol/8, mirror-image and near-miss decoys, "
             "same-element distractors, atol in {1/20, 1/10, 1/50}, hint triples, one RNG seed per case.  For every returned "
             "(indices, positions, quaternion) the statement of C01 is evaluated in exact integer arithmetic inside Coq "
             "(Corr.FindCorr.out_ok) and the set of matched groups is compared with the model's.  Non-trivial = >= 1 match and "
             "(a copy spans several periodic images or a decoy/distractor is present).",
        expect_mode=False,
        assumptions=["the code's own float rounding inside np.allclose is absorbed by a 1e-9 relative slack",
                     "grid inputs: all coordinates are multiples of 1/4096 A, so squared distances are exact in binary64"])


if __name__ == "__main__":
    sys.exit(main("quick", 1))
