"""C14 -- elements inferred from masses.  Exhaustive boundary sweep over the repository's mass table."""
import io
import json
import os
import sys
import contextlib
from fractions import Fraction

from common import Run, gal, N, Some, REPO, VERIF, corpus

SCALE = 10 ** 9


def dec(z):
    """exact decimal text of z / 1e9"""
    s = "-" if z < 0 else ""
    z = abs(z)
    return "%s%d.%09d" % (s, z // SCALE, z % SCALE)


def run_impl(delta_z, masses_z):
    from mofun.helpers import guess_elements_from_masses
    from mofun import Atoms
    delta = float(Fraction(delta_z, SCALE))
    ms = [float(Fraction(m, SCALE)) for m in masses_z]
    try:
        with contextlib.redirect_stderr(io.StringIO()):
            g = list(guess_elements_from_masses(ms, max_delta=delta))
    except Exception:
        g = None
    # a LAMMPS data file that supplies only masses (no label comments)
    lines = ["generated (masses only)", "", "%d atoms" % len(ms), "", "%d atom types" % len(ms), "",
             " 0.0 10.0 xlo xhi", " 0.0 10.0 ylo yhi", " 0.0 10.0 zlo zhi", "", "Masses", ""]
    for i, m in enumerate(masses_z):
        lines.append(" %d %s" % (i + 1, dec(m)))
    lines += ["", "Atoms", ""]
    for i in range(len(ms)):
        lines.append(" %d 1 %d 0.0 %d.0 0.0 0.0" % (i + 1, i + 1, i))
    text = "\n".join(lines) + "\n"
    with contextlib.redirect_stderr(io.StringIO()):
        a = Atoms.load_lmpdat(io.StringIO(text), atom_format="full", guess_atol=delta)
    return g, [str(e) for e in a.atom_type_elements]


def roundtrip_impl(delta_z, elements):
    """write/read cycle through save_lmpdat / load_lmpdat; returns elements read back"""
    from mofun import Atoms
    with contextlib.redirect_stderr(io.StringIO()):
        a = Atoms(elements=elements, positions=[[float(i), 0., 0.] for i in range(len(elements))],
                  cell=[[30., 0, 0], [0, 30., 0], [0, 0, 30.]])
        buf = io.StringIO()
        a.save_lmpdat(buf)
        buf.seek(0)
        # strip the label comments so that only masses are supplied
        text = "\n".join(l.split("#")[0].rstrip() for l in buf.read().splitlines()) + "\n"
        b = Atoms.load_lmpdat(io.StringIO(text), guess_atol=float(Fraction(delta_z, SCALE)))
    return [str(e) for e in b.atom_type_elements]


PRELUDE = [("Atoms", dict(elements=["C", "X", "O"], positions=[[0., 0, 0], [1., 0, 0], [2., 0, 0]])),
           ("Atoms", dict(elements=["Q"], positions=[[0., 0, 0]])),
           ("Atoms", dict(elements=["D", "H"], positions=[[0., 0, 0], [1., 0, 0]])),
           ("Atoms", dict(elements=["1", "2"], positions=[[0., 0, 0], [1., 0, 0]])),
           ("guess", dict(masses=[0.0], max_delta=0.1)),
           ("guess", dict(masses=[400.0], max_delta=0.1))]


def prelude():
    """earlier activity in the same process: callers that use placeholder symbols or masses nothing matches.  Whatever these calls
    do (most raise), the shared mass table that later guesses search must not change."""
    from mofun import Atoms
    from mofun.helpers import guess_elements_from_masses
    outcome = []
    for kind, kw in PRELUDE:
        try:
            with contextlib.redirect_stderr(io.StringIO()):
                if kind == "Atoms":
                    Atoms(**kw)
                else:
                    guess_elements_from_masses(kw["masses"], max_delta=kw["max_delta"])
            outcome.append("ok")
        except Exception as e:       # noqa
            outcome.append(type(e).__name__)
    return outcome


def py_spec(table, delta_z, masses_z, g, load):
    """the property itself, on the implementation's output (mirror of Corr.C14.spec_ok)"""
    def none_within(m):
        return all(abs(m - me) >= delta_z for _, me in table)
    if any(none_within(m) for m in masses_z):
        return load == [str(i + 1) for i in range(len(masses_z))] and g is None
    if len(load) != len(masses_z) or g != load:
        return False
    for m, e in zip(masses_z, load):
        cands = [me for el, me in table if el == e]
        if not cands:
            return False
        me = cands[0]
        if not (abs(m - me) < delta_z and all(abs(m - me) <= abs(m - x) for _, x in table)):
            return False
    return True


def read_table(run):
    import re
    txt = open(os.path.join(run.rundir, "Tables.v")).read()
    body = txt.split("Definition atomic_masses")[1].split("].")[0]
    return [(k, int(v)) for k, v in re.findall(r'\("([^"]+)", \(?(-?\d+)\)?\)', body)]


def gen_cases(run, table):
    cases = []
    U = SCALE // 10 ** 6          # 1e-6
    by_mass = sorted(table, key=lambda t: t[1])
    deltas = [SCALE // 10, SCALE // 100]
    for delta in deltas:
        for idx, (e, me) in enumerate(by_mass):
            offs = [0, U, -U, delta - U, -(delta - U), delta + U, -(delta + U)]
            ms = [me + o for o in offs]
            if idx + 1 < len(by_mass):
                mid = (me + by_mass[idx + 1][1]) // 2
                ms += [mid - U, mid + U]
            for m in ms:
                if m > 0:
                    cases.append((delta, [m], "boundary:" + e))
        # non-atomic masses below, between and above everything
        lo, hi = by_mass[0][1], by_mass[-1][1]
        for m in [lo // 2, lo - delta - U, hi + delta + U, hi * 2, 2 * SCALE, 500 * SCALE]:
            cases.append((delta, [m], "non-atomic"))
        for m in [U, delta // 2, delta - U, delta + U, 3 * delta]:
            cases.append((delta, [m], "near-zero"))
            cases.append((delta, [dict(table)["C"], m], "near-zero"))
        # multi-type files: all within / one outside (all-or-nothing), out-of-order neighbours
        names = dict(table)
        groups = [["C", "H", "O", "N"], ["Ar", "K"], ["Co", "Ni"], ["Te", "I"], ["Th", "Pa"], ["U", "Np"], ["Zr", "O", "C", "H"]]
        for g in groups:
            if all(x in names for x in g):
                cases.append((delta, [names[x] for x in g], "multi-all-within"))
                cases.append((delta, [names[x] for x in g] + [names[g[0]] + 5 * delta], "multi-one-outside"))
                cases.append((delta, [names[g[0]] + 5 * delta] + [names[x] for x in g], "multi-one-outside"))
        # ten and more types in one file (type ids with two digits), in table order and shuffled
        many = [e for e in ["H", "C", "N", "O", "F", "Si", "P", "S", "Cl", "Zn", "Zr", "Cu", "Br", "Ag"] if e in names]
        if len(many) >= 12:
            cases.append((delta, [names[x] for x in many], "multi-12-types"))
            sh = list(many)
            run.rng.shuffle(sh)
            cases.append((delta, [names[x] for x in sh], "multi-12-types"))
            cases.append((delta, [names[x] for x in sh[:11]] + [names[sh[11]] + 5 * delta], "multi-12-types-one-outside"))
        n = 40 if run.tier == "quick" else 400
        for _ in range(n):
            k = run.rng.randint(2, 6)
            ms = []
            for _ in range(k):
                e, me = run.rng.choice(table)
                r = run.rng.random()
                if r < 0.7:
                    ms.append(me + run.rng.randint(-delta + U, delta - U))
                elif r < 0.85:
                    ms.append(me + run.rng.choice([-1, 1]) * (delta + run.rng.randint(U, 20 * delta)))
                else:
                    ms.append(run.rng.randint(SCALE // 2, 300 * SCALE))
            cases.append((delta, ms, "random-multi"))
    return cases


def near_boundary(table, delta, m):
    """float and exact comparison may differ only when a decisive quantity is within 1e-9 of its threshold"""
    eps = 2
    ds = sorted(abs(m - me) for _, me in table)
    if abs(ds[0] - delta) <= eps:
        return True
    if len(ds) > 1 and ds[1] - ds[0] <= eps and ds[0] != ds[1]:
        return True
    return False


def main(tier, seed, replay=None):
    run = Run("C14", tier, seed)
    ok_tables = run.gen_tables()
    ok_static = run.build_static()
    run.grep_gate()
    found_input = False
    if ok_tables and ok_static:
        run.compile_property("theories/Properties/C14.v")
        run.compile_property("pertree/C14_tables.v")
        table = read_table(run)
        cases = []
        if replay:
            r = json.load(open(replay))
            if "input" in r:
                cases.append((r["input"]["delta"], r["input"]["masses"], "replay"))
        for name, c in corpus("C14"):
            cases.append((c["delta"], c["masses"], "corpus:" + name))
        if not replay:
            cases += gen_cases(run, table)
        run.cov["prelude_outcomes"] = prelude()
        from mofun.atomic_masses import ATOMIC_MASSES
        live = {k: int(round(Fraction(repr(float(v))) * SCALE)) for k, v in ATOMIC_MASSES.items()}
        if live != dict(table):
            odd = sorted(set(live.items()) ^ set(table))[:6]
            run.notes.append("the mass table in memory differs from the table in the source after the prelude: %s" % odd)
        lits = []
        kept = []
        skipped = 0
        for delta, ms, kind in cases:
            if any(near_boundary(table, delta, m) for m in ms):
                skipped += 1
                continue
            g, load = run_impl(delta, ms)
            run.cov["evaluations"] += 1
            run.count(kind.split(":")[0])
            run.count("delta=%s" % Fraction(delta, SCALE))
            run.count("outcome=" + ("elements" if g is not None else "type-numbers"))
            if any(abs(m - me) < 2 * delta for m in ms for _, me in table):
                run.nontrivial((delta, ms))
            lits.append("Build_case %s %s %s %s" % (gal(delta), gal(ms), gal(Some(g) if g is not None else None), gal(load)))
            kept.append((delta, ms, kind, g, load))
            if not py_spec(table, delta, ms, g, load):
                found_input = True
                run.violation("failing-input", {"input": {"delta": delta, "masses": ms, "scale": SCALE},
                                                "earlier_calls_in_the_same_process": [[k, kw] for k, kw in PRELUDE],
                                                "observed": {"guess": g, "load_lmpdat_elements": load},
                                                "expected": "nearest table element within delta for every mass, or type numbers for all",
                                                "case_kind": kind})
        # write/read cycle of every table element (distinguishable ones must survive)
        rt_fail = []
        indist = set()
        for i, (e, me) in enumerate(table):
            for j, (e2, me2) in enumerate(table):
                if i != j and abs(me - me2) <= SCALE // 10 ** 6:
                    indist.add(e)
        for delta in (SCALE // 10, SCALE // 100):
            for e, me in table:
                got = roundtrip_impl(delta, [e, "C"] if e != "C" else ["C", "H"])
                run.cov["evaluations"] += 1
                run.count("write-read-cycle")
                if e not in indist and got[0] != e:
                    rt_fail.append((e, got))
                    found_input = True
                    run.violation("failing-input", {"input": {"roundtrip_elements": [e], "delta": delta, "scale": SCALE},
                                                    "observed": got, "expected": [e]})
        run.sample({"delta": str(Fraction(kept[0][0], SCALE)), "masses": [dec(m) for m in kept[0][1]], "guess": kept[0][3], "load_lmpdat": kept[0][4]})
        if len(kept) > 700:
            run.sample({"delta": str(Fraction(kept[700][0], SCALE)), "masses": [dec(m) for m in kept[700][1]], "guess": kept[700][3], "load_lmpdat": kept[700][4]})
        run.sample({"delta": str(Fraction(kept[-1][0], SCALE)), "masses": [dec(m) for m in kept[-1][1]], "guess": kept[-1][3], "load_lmpdat": kept[-1][4]})
        header = ("From Coq Require Import ZArith List String.\nFrom Mofun Require Import Corr.CorrLib Corr.C14.\n"
                  "From MofunGen Require Import Tables.\nImport ListNotations.\nOpen Scope Z_scope.\n"
                  "Definition failing := Corr.C14.failing atomic_masses.\n"
                  "Definition explain_failing := Corr.C14.explain_failing atomic_masses.\n")
        failing = run.correspond("c14", header, lits, shard=400)
        for f in failing:
            if f[0] == "case":
                delta, ms, kind, g, load = kept[f[1]]
                run.notes.append("model/implementation disagreement on case %d (%s)" % (f[1], kind))
        run.cov["near_boundary_skipped"] = skipped
        run.cov["indistinguishable_elements"] = sorted(indist)
    run.settle_broken(found_input)
    return run.finish(
        rule="for every table element and delta in {0.1, 0.01}: masses at 0, +-1e-6, +-(delta-1e-6), +-(delta+1e-6) from its mass and "
             "1e-6 either side of the midpoint to the next element in mass order; non-atomic masses; multi-type files; plus a "
             "save_lmpdat/load_lmpdat cycle per element.  Each case runs guess_elements_from_masses and load_lmpdat on a masses-only "
             "file.  Non-trivial = some mass within 2*delta of a table entry; distinct = distinct (delta, masses).",
        exhaustive=True,
        assumptions=["float comparisons agree with exact decimal comparisons when the decisive quantities are >= 2e-9 apart "
                     "(cases closer than that are counted in near_boundary_skipped and not compared)",
                     "str.split/float() of LAMMPS text (glue) is exercised, not modelled"],
        trusted_extra=["tools/gen_tables.py (fail-closed ast translator, numeric literals copied as exact decimals)"])


if __name__ == "__main__":
    sys.exit(main("quick", 1))
