"""C04 -- replacement changes exactly the matched atoms and nothing else."""
import sys
from fractions import Fraction

import replgen as RG
from replcheck import run_replace_property

FRACS = [Fraction(1), Fraction(0), Fraction(1, 10), Fraction(34, 100), Fraction(1, 2), Fraction(9, 10), Fraction(1)]
MODES = ["empty", "identical", "subset", "substitute", "larger", "disjoint"]


def make_runs(run):
    n = 60 if run.tier == "quick" else 420
    runs = []
    k = 0
    while len(runs) < n and k < 30 * n:
        mode = MODES[k % len(MODES)]
        p = RG.make_problem(run.rng, k, repl_mode=mode, flavor=["mixed", "corners", "antiparallel", "stretched"][(k // 6) % 4], with_terms=(k % 2 == 0), cellkind=({2: "rot-ortho", 5: "upper", 9: "mono-xz", 11: "upper"}.get(k % 13)))
        k += 1
        if p is None:
            continue
        f = FRACS[(k // 3) % len(FRACS)]
        runs.append(dict(p=p, frac=f, replace_all=(k % 5 == 0), ignore=False, seed=run.rng.randrange(1 << 30), parts=("atoms", "count", "outcome"), kind="planted"))
    for j in range(1 if run.tier == "quick" else 6):
        # a structure with a few hundred further atoms (size-dependent code paths)
        p = RG.make_problem(run.rng, 7000 + j, repl_mode=["substitute", "larger", "subset"][j % 3], flavor="crowded", with_terms=False, pattern="asym4", big=True)
        if p is not None:
            runs.append(dict(p=p, frac=Fraction(1), replace_all=False, ignore=False, seed=run.rng.randrange(1 << 30), parts=("atoms", "count", "outcome"), kind="crowded"))
    return runs


def main(tier, seed, replay=None):
    return run_replace_property(
        "C04", tier, seed, replay, ["theories/Properties/C04.v"], make_runs,
        rule="planted structures (copies in any pose across any boundary, bystander atoms with their own charges, groups, labels, masses and extra "
             "columns, optional pre-existing terms) x replacement pattern {empty, identical, subset, element substitution, larger, no shared atom} x "
             "fraction {0, .1, .34, .5, .9, 1} x replace_all on/off, one RNG state per run.  The selected matches are recovered by re-seeding and "
             "calling the search first.  Compared: the full result state with the Coq model of the bookkeeping; the C04 statement (atoms, counts, "
             "nearest-integer fraction, inputs unmodified) evaluated directly.  Non-trivial = >= 1 match replaced and atoms inserted/removed or a "
             "pre-existing term touched.",
        assumptions=["the match list and the random sub-selection are inputs of the model (recovered through the public API by re-seeding)",
                     "inputs-unmodified is Python mutation: tested, not modelled"])


if __name__ == "__main__":
    sys.exit(main("quick", 1))
