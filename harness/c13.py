"""C13 -- LAMMPS data files round-trip and mean what the structure says."""
import contextlib
import io
import json
import sys

import numpy as np

import atoms_io as AIO
from atoms_io import KINDS
from common import Run, corpus, gal, N, Some

D = 4096
MICRO = 10 ** 6
SECTIONS = ["Masses", "Pair Coeffs", "Bond Coeffs", "Angle Coeffs", "Dihedral Coeffs", "Improper Coeffs", "Atoms", "Bonds", "Angles", "Dihedrals", "Impropers"]


def quiet():
    return contextlib.redirect_stderr(io.StringIO())


def coef_norm(c):
    body, sep, comment = c.partition("#")
    return (tuple(body.split()), comment.strip() if sep else None)


def micro(tok):
    """exact value of a decimal token in units of 1e-6 (the writer prints six decimals)"""
    neg = tok.startswith("-")
    t = tok.lstrip("+-")
    ip, _, fp = t.partition(".")
    if len(fp) > 6 or not (ip + fp).isdigit():
        raise ValueError("not a six-decimal number: %r" % tok)
    v = int(ip or "0") * MICRO + int((fp + "000000")[:6])
    return -v if neg else v


def tokenise(text, style):
    """independent reader of the text written by the implementation -> dict mirroring Model.Lmpdat.lfile"""
    f = dict(counts={}, ntypes={}, box=[None, None, None], tilt=None, sections={s: [] for s in SECTIONS})
    cur = None
    for ln in text.splitlines()[1:]:
        body, sep, comment = ln.partition("#")
        body = body.strip()
        if body in SECTIONS:
            cur = body
            continue
        if not body:
            continue
        toks = body.split()
        if cur is None:
            if len(toks) == 2 and toks[1] in ("atoms", "bonds", "angles", "dihedrals", "impropers"):
                f["counts"][toks[1]] = int(toks[0])
            elif len(toks) == 3 and toks[2] == "types":
                f["ntypes"][toks[1]] = int(toks[0])
            elif len(toks) == 4 and toks[2:] in (["xlo", "xhi"], ["ylo", "yhi"], ["zlo", "zhi"]):
                if micro(toks[0]) != 0:
                    raise ValueError("box does not start at 0")
                f["box"]["xyz".index(toks[2][0])] = micro(toks[1])
            elif len(toks) == 6 and toks[3:] == ["xy", "xz", "yz"]:
                f["tilt"] = tuple(micro(t) for t in toks[:3])
            else:
                raise ValueError("unrecognised header line %r" % ln)
        else:
            f["sections"][cur].append((toks, comment.strip() if sep else None))
    return f


def lfile_literal(f, style, I):
    c = f["counts"]
    counts = tuple(N(c.get(k, 0)) for k in ("atoms", "bonds", "angles", "dihedrals", "impropers"))
    nt = [(Some(N(f["ntypes"][k])) if k in f["ntypes"] else None) for k in ("atom", "bond", "angle", "dihedral", "improper")]
    if f["box"][0] is None:
        box = None
    else:
        box = Some((tuple(f["box"]), Some(tuple(f["tilt"])) if f["tilt"] is not None else None))
    masses = [(N(int(t[0])), micro(t[1]), I(("lab", cm))) for t, cm in f["sections"]["Masses"]]

    def coefs(sec):
        return [(N(int(t[0])), I(("coef", (tuple(t[1:]), cm)))) for t, cm in f["sections"][sec]]
    atoms = []
    for t, cm in f["sections"]["Atoms"]:
        if style == "full":
            atoms.append("(mk_aline %d%%nat %s %d%%nat %s %s)" % (int(t[0]), gal(int(t[1])), int(t[2]), gal(micro(t[3])), gal(tuple(micro(x) for x in t[4:7]))))
        else:
            atoms.append("(mk_aline %d%%nat 0 %d%%nat 0 %s)" % (int(t[0]), int(t[1]), gal(tuple(micro(x) for x in t[2:5]))))

    def terms(sec):
        return "[%s]" % "; ".join("(mk_tline %d%%nat %d%%nat %s)" % (int(t[0]), int(t[1]), gal([N(int(x)) for x in t[2:]])) for t, cm in f["sections"][sec])
    return "(mk_lfile %s %s %s %s %s %s %s %s %s [%s] %s %s %s %s)" % (
        gal(counts), gal(nt), gal(box), gal(masses), gal(coefs("Pair Coeffs")), gal(coefs("Bond Coeffs")), gal(coefs("Angle Coeffs")),
        gal(coefs("Dihedral Coeffs")), gal(coefs("Improper Coeffs")), "; ".join(atoms), terms("Bonds"), terms("Angles"), terms("Dihedrals"), terms("Impropers"))


def atoms_literal(st, I):
    """Model.Atoms.atoms literal of a dict state whose labels / coefficients are interned by normal form"""
    def kind(kk):
        return "(mk_kind %s %s %s %s %s)" % (gal([[N(v) for v in t] for t in kk["tup"]]), gal([N(t) for t in kk["typ"]]),
                                             gal([[I(("xf", x)) for x in r] for r in kk["xf"]]), gal([I(("xl", x)) for x in kk["xl"]]),
                                             gal([I(("coef", coef_norm(c))) for c in kk["coef"]]))
    cell = "None" if st.get("cell") is None else "(Some %s)" % gal(tuple(tuple(r) for r in st["cell"]))
    return "(mk_atoms %s %s %s %s %s %s %s %s %s %s %s %s %s %s %s)" % (
        gal([tuple(p) for p in st["pos"]]), gal([N(t) for t in st["typ"]]), gal(list(st["chg"])), gal(list(st["grp"])),
        gal([[I(("xf", x)) for x in r] for r in st["xf"]]), gal([I(("xl", x)) for x in st["xl"]]),
        gal([I(("el", x)) for x in st["t_el"]]), gal(list(st["t_mass"])), gal([I(("lab", x)) for x in st["t_lab"]]),
        gal([I(("coef", coef_norm(c))) for c in st["t_pair"]]),
        kind(st["bonds"]), kind(st["angles"]), kind(st["dihedrals"]), kind(st["impropers"]), cell)


def to_atoms(st):
    from mofun import Atoms
    kw = {}
    for k, t_, c_, x_, l_, ar in KINDS:
        kk = st[k]
        kw[k] = [tuple(t) for t in kk["tup"]]
        kw[t_] = list(kk["typ"])
        kw[c_] = list(kk["coef"])
    cell = None if st["cell"] is None else np.array(st["cell"], float) / D
    with quiet():
        return Atoms(atom_types=list(st["typ"]), positions=[[c / D for c in p] for p in st["pos"]], charges=[c / D for c in st["chg"]], groups=list(st["grp"]),
                     atom_type_elements=list(st["t_el"]), atom_type_masses=[m / D for m in st["t_mass"]], atom_type_labels=list(st["t_lab"]),
                     pair_coeffs=list(st["t_pair"]), cell=cell, **kw)


def dump_micro(a):
    def mi(x):
        v = float(x) * MICRO
        r = round(v)
        if abs(v - r) > 1e-4:
            raise ValueError("value %r read from a file is not a six-decimal number" % x)
        return int(r)
    n = len(a.positions)
    st = dict(pos=[tuple(mi(x) for x in p) for p in np.array(a.positions).reshape(-1, 3)], typ=[int(x) for x in a.atom_types],
              chg=[mi(x) for x in a.charges], grp=[int(x) for x in a.groups], xl=[str(x) for x in a.extra_atom_labels],
              xf=[[str(x) for x in r] for r in np.array(a.extra_atom_fields).reshape(n, -1).tolist()] if n else [],
              t_el=[str(x) for x in a.atom_type_elements], t_mass=[mi(x) for x in a.atom_type_masses], t_lab=[str(x) for x in a.atom_type_labels],
              t_pair=[str(x) for x in a.pair_coeffs])
    for k, t_, c_, x_, l_, ar in KINDS:
        tup = [tuple(int(v) for v in t) for t in np.array(getattr(a, k)).reshape(-1, ar).tolist()]
        xf = np.array(getattr(a, x_))
        st[k] = dict(tup=tup, typ=[int(x) for x in getattr(a, t_)], coef=[str(x) for x in getattr(a, c_)], xl=[str(x) for x in getattr(a, l_)],
                     xf=[[str(x) for x in r] for r in xf.reshape(len(tup), -1).tolist()] if len(tup) else [])
    st["cell"] = None if a.cell is None else [tuple(mi(x) for x in row) for row in np.array(a.cell)]
    return st


COEF_POOL = ["harmonic 350.0 1.09", "  12.5   3.4 ", "cosine/periodic  72.500283  -1  1   # C_R O_1 H_", "0.105 3.431 # C_3", "fourier 1.0 0.5 -0.25 2   #  odd   spacing ",
             "-1.5e-3 2", "harmonic 1 2#tight", "3",
             "class2 " + " ".join("%d.%06d" % (i + 1, 123457 * (i + 3) % 1000000) for i in range(14)) + "   # a long hybrid style line, " + "x" * 30,
             "table " + " ".join("p%02d=%d" % (i, i * i) for i in range(16)) + " # " + "-".join("seg%d" % i for i in range(8))]


def gen_struct(rng, k, n=None):
    n = n or rng.randint(1, 10)
    nt = rng.randint(1, 4)
    many = (k % 10 == 3)          # ten and more types of every kind: type ids with two digits
    if many:
        n = max(n, 14)
        nt = rng.randint(10, 13)
    ckind = ["ortho", "tilted", "tilted-neg", "none", "ortho", "yz-only", "xy-only", "xz-only", "tiny-tilt", "two-tilts"][k % 10]
    L = [rng.randrange(8 * D, 40 * D) for _ in range(3)]
    if ckind == "tiny-tilt":
        L = [rng.randrange(30 * D, 60 * D) for _ in range(3)]
    cell = None
    if ckind != "none":
        xy = xz = yz = 0
        if ckind == "tilted":
            xy, xz, yz = [rng.randrange(1, 5 * D) for _ in range(3)]
        elif ckind == "tilted-neg":
            xy, xz, yz = [rng.choice([-1, 1]) * rng.randrange(1, 5 * D) for _ in range(3)]
        elif ckind == "yz-only":
            yz = rng.choice([-1, 1]) * rng.randrange(1, 5 * D)
        elif ckind == "xy-only":
            xy = rng.choice([-1, 1]) * rng.randrange(1, 5 * D)
        elif ckind == "xz-only":
            xz = rng.choice([-1, 1]) * rng.randrange(1, 5 * D)
        elif ckind == "two-tilts":
            xy, xz, yz = [rng.choice([-1, 1]) * rng.randrange(1, 5 * D) for _ in range(3)]
            which = rng.randrange(3)
            xy, xz, yz = (0 if which == 0 else xy), (0 if which == 1 else xz), (0 if which == 2 else yz)
        elif ckind == "tiny-tilt":
            # cell angles within a thousandth of a degree of 90: still a tilted box, the tilt shows at the printed precision
            t = [rng.choice([-2, -1, 1, 2]) if rng.random() < 0.6 else 0 for _ in range(3)]
            if not any(t):
                t[rng.randrange(3)] = rng.choice([-1, 1])
            xy, xz, yz = t
        cell = [(L[0], 0, 0), (xy, L[1], 0), (xz, yz, L[2])]
    masses = [rng.choice([int(12.0107 * D), int(1.00794 * D), int(15.9994 * D), int(91.224 * D), rng.randrange(D, 200 * D)]) for _ in range(nt)]
    st = dict(pos=[tuple(rng.randrange(-20 * D, 60 * D) for _ in range(3)) for _ in range(n)], typ=[rng.randrange(nt) for _ in range(n)],
              chg=[rng.randrange(-3 * D, 3 * D) for _ in range(n)], grp=[rng.randrange(1 if k % 4 == 2 else 0, 4) for _ in range(n)], xl=[], xf=[[] for _ in range(n)],
              t_el=["E%d" % i for i in range(nt)], t_mass=masses, t_lab=[rng.choice(["C_R", "H_", "O_3", "Zr3+4", "lab%d" % i, "x", "a_rather_long_force_field_type_label_"]) + str(i) for i in range(nt)],
              t_pair=([rng.choice(COEF_POOL) for _ in range(nt)] if rng.random() < 0.6 else []), cell=cell)
    for kname, t_, c_, x_, l_, ar in KINDS:
        m = (rng.randint(0, 4) if n < 50 else rng.randint(n // 4, n // 2)) if n >= ar else 0
        tups = [tuple(rng.sample(range(n), ar)) for _ in range(m)]
        ntyp = rng.randint(1, 4)
        # coefficient tables: none, exactly the types in use, or more than the highest type in use
        mode = rng.choice(["none", "exact", "more"])
        typ = [rng.randrange(ntyp) for _ in tups]
        if many and n >= ar:
            ntyp = rng.randint(10, 13)
            tups = [tuple(rng.sample(range(n), ar)) for _ in range(ntyp + 2)]
            typ = list(range(ntyp)) + [rng.randrange(ntyp) for _ in range(2)]
            mode = "exact"
        if mode == "none":
            coef = []
        elif mode == "exact":
            coef = [rng.choice(COEF_POOL) for _ in range((max(typ) + 1) if typ else 0)]
        else:
            coef = [rng.choice(COEF_POOL) for _ in range(((max(typ) + 1) if typ else 0) + rng.randint(1, 2))]
        st[kname] = dict(tup=tups, typ=typ, coef=coef, xl=[], xf=[[] for _ in tups])
    return st, ckind


def main(tier, seed, replay=None):
    run = Run("C13", tier, seed)
    ok_static = run.build_static()
    run.grep_gate()
    found_input = False
    if ok_static:
        run.compile_property("theories/Properties/C13.v")
        cases = []
        if replay:
            r = json.load(open(replay))
            if "input" in r:
                cases.append((r["input"]["state"], r["input"]["style"], "replay"))
        for name, cj in corpus("C13"):
            cases.append((cj["state"], cj["style"], "corpus:" + name))
        if not replay:
            n = 150 if tier == "quick" else 2500
            for k in range(n):
                st, ck = gen_struct(run.rng, k)
                cases.append((st, ["full", "atomic"][k % 2], ck))
            for k in range(2 if tier == "quick" else 8):      # a few hundred atoms and terms: size-dependent code paths
                st, ck = gen_struct(run.rng, 1 + 5 * k, n=run.rng.randint(250, 500))
                cases.append((st, ["full", "atomic"][k % 2], ck + "-large"))
        ids = {}

        def I(key):
            return ids.setdefault(key, len(ids) + 1)
        lits = []
        from mofun import Atoms
        for st, style, kind in cases:
            for kname, *_ in KINDS:
                st[kname]["tup"] = [tuple(t) for t in st[kname]["tup"]]
            st["pos"] = [tuple(p) for p in st["pos"]]
            if st["cell"] is not None:
                st["cell"] = [tuple(r) for r in st["cell"]]
            run.cov["evaluations"] += 1
            run.count("style=" + style)
            run.count("cell=" + kind.split(":")[0])
            bad = []
            A = to_atoms(st)
            written = None
            read = None
            els = []
            try:
                buf = io.StringIO()
                with quiet():
                    A.save_lmpdat(buf, atom_format=style)
                t1 = buf.getvalue()
                written = tokenise(t1, style)
                with quiet():
                    B = Atoms.load_lmpdat(io.StringIO(t1), atom_format=style)
                read = dump_micro(B)
                els = read["t_el"]
                # generations: re-writing the re-read structure is byte-identical after at most one normalising pass
                b2 = io.StringIO()
                with quiet():
                    B.save_lmpdat(b2, atom_format=style)
                    C = Atoms.load_lmpdat(io.StringIO(b2.getvalue()), atom_format=style)
                    b3 = io.StringIO()
                    C.save_lmpdat(b3, atom_format=style)
                if b2.getvalue() != b3.getvalue():
                    bad.append("writing the re-read structure again does not give byte-identical output after one normalising pass")
                # declared counts and type counts against the sections (independent tokenizer)
                for sec, key in (("Atoms", "atoms"), ("Bonds", "bonds"), ("Angles", "angles"), ("Dihedrals", "dihedrals"), ("Impropers", "impropers")):
                    if written["counts"].get(key, 0) != len(written["sections"][sec]):
                        bad.append("header declares %d %s, section has %d lines" % (written["counts"].get(key, 0), key, len(written["sections"][sec])))
                for sec, key in (("Masses", "atom"), ("Pair Coeffs", "atom"), ("Bond Coeffs", "bond"), ("Angle Coeffs", "angle"), ("Dihedral Coeffs", "dihedral"), ("Improper Coeffs", "improper")):
                    if written["sections"][sec] and written["ntypes"].get(key, 0) != len(written["sections"][sec]):
                        bad.append("header declares %d %s types, %s has %d entries" % (written["ntypes"].get(key, 0), key, sec, len(written["sections"][sec])))
                for sec, key, col in (("Atoms", "atom", 2 if style == "full" else 1), ("Bonds", "bond", 1), ("Angles", "angle", 1), ("Dihedrals", "dihedral", 1), ("Impropers", "improper", 1)):
                    for toks, _ in written["sections"][sec]:
                        if int(toks[col]) > written["ntypes"].get(key, 0):
                            bad.append("%s uses type %s, only %d %s types declared" % (sec, toks[col], written["ntypes"].get(key, 0), key))
                            break
                # coefficient entries token for token
                for kname, t_, c_, x_, l_, ar in KINDS:
                    if [coef_norm(c) for c in read[kname]["coef"]] != [coef_norm(c) for c in st[kname]["coef"]]:
                        bad.append("%s coefficients are not reproduced token for token" % kname)
                if [coef_norm(c) for c in read["t_pair"]] != [coef_norm(c) for c in st["t_pair"]]:
                    bad.append("pair coefficients are not reproduced token for token")
            except Exception as e:     # noqa
                if st["cell"] is not None and (st["cell"][0][1] or st["cell"][0][2] or st["cell"][1][2]):
                    pass    # the writer refuses cells that are not LAMMPS-oriented (outside the domain)
                else:
                    bad.append("raised %s: %s" % (type(e).__name__, e))
            if bad:
                found_input = True
                run.violation("failing-input", {"input": {"state": st, "style": style}, "observed": bad[:6],
                                                "expected": "header counts and sections state the structure; reading back reproduces it to the printed precision; second and third generation text identical",
                                                "case_kind": kind})
            if any(st[k]["tup"] for k, *_ in KINDS) and len(st["t_el"]) >= 2:
                run.nontrivial((st, style))
            wl = "None" if written is None else "(Some %s)" % lfile_literal(written, style, I)
            rl = "None" if read is None else "(Some %s)" % atoms_literal(read, I)
            lits.append("mk_case %d %s %s %s %s %s" % (D, "Full" if style == "full" else "Atomic", atoms_literal(st, I), wl, gal([I(("el", e)) for e in els]), rl))
            if kind in ("tilted-neg", "yz-only"):
                run.sample({"style": style, "cell": st["cell"], "n_atoms": len(st["pos"]), "bond_coeffs": st["bonds"]["coef"], "bond_types": st["bonds"]["typ"]})
        header = "From Coq Require Import ZArith List.\nFrom Mofun Require Import Model.Atoms Model.Lmpdat Corr.CorrLib Corr.C13.\nImport ListNotations.\nOpen Scope Z_scope.\n"
        failing = run.correspond("c13", header, lits, shard=40, spec=True)
        for gi in sorted(set(run.spec_failing)):
            st, style, kind = cases[gi]
            found_input = True
            run.violation("failing-input", {"input": {"state": st, "style": style},
                                            "observed": "what load_lmpdat returns for the text save_lmpdat wrote is not the structure rounded to six decimals (atom order, type ids, groups, charges, positions, masses, labels, terms with types, coefficients, cell), or declared counts differ from section lengths -- decided in Coq (Corr.C13.spec_ok)",
                                            "case_kind": kind})
        for f in failing:
            if f[0] == "case" and f[1] not in run.spec_failing:
                run.notes.append("model/implementation disagreement on case %d (%s)" % (f[1], cases[f[1]][2]))
    run.settle_broken(found_input)
    return run.finish(
        rule="generated structures: 1-10 atoms, 1-4 atom types, 0-4 terms of every kind with 1-4 types, coefficient tables absent / exactly covering / "
             "longer than the types in use, coefficient strings with odd spacing and at most one trailing comment, negative charges and coordinates, "
             "cells orthorhombic / tilted (both signs) / yz-only / xy-only tilt / none; both atom styles.  The written text is tokenised by an "
             "independent reader and compared with the Coq model of the writer; the text is read back by the implementation and compared with the Coq "
             "model of the reader and with the statement (structure rounded to six decimals); second and third generation text compared byte for byte.  "
             "Non-trivial = >= 1 term and >= 2 atom types.",
        assumptions=["text layout (formatting, blank-line section detection, split, float) is exercised, not modelled", "elements assigned on reading are C14's subject and are passed through"])


if __name__ == "__main__":
    sys.exit(main("quick", 1))
