"""Shared driver of the pattern-search checks C01 and C02."""
import json

import numpy as np

import findgen as FG
from common import Run, corpus


TARGETED = [("shallow3", "decoys", None), ("weakchiral4", "decoys", True), ("chiral5", "decoys", True), ("metal4", "decoys", None),
            ("mirrorsym5", "shuffled", None), ("tri_sym3", "shuffled", None), ("planar_sym4", "shuffled", None), ("ch2f2", "shuffled", None),
            ("axis_asym4", "antiparallel", None), ("pair_y", "antiparallel", None), ("asym4", "corners", None), ("bent3_y", "stretched", None),
            ("collinear3", "corners", None), ("single", "mixed", None),
            ("pair", "stretched-axis", None), ("axis_asym4", "stretched-axis", None), ("shallow3", "stretched-axis", None), ("asym4", "stretched-axis", None),
            ("asym4", "crowded", True), ("faintchiral5", "decoys", True), ("faintchiral5", "decoys", None),
            ("asym4", "corners", "ortho"), ("bent3_y", "corners", "ortho"), ("axis_asym4", "mixed", "ortho"), ("asym4", "corners", "rot-ortho")]


def py_out_problem(c, idx, mpos, q):
    """cheap float re-statement of C01 on one reported match (used to word the replay); exact decision is Coq's"""
    S = np.array(c["pos"], float)
    P = np.array(c["pp"], float)
    msgs = []
    if len(set(idx)) != len(idx):
        msgs.append("the same atom is listed twice: %s" % (idx,))
    if [c["els"][i] for i in idx] != list(c["pel"]):
        msgs.append("elements %s differ from the pattern's %s" % ([c["els"][i] for i in idx], c["pel"]))
    inv = np.linalg.inv(np.array(c["cell"], float))
    for i, x in zip(idx, mpos):
        d = (np.array(x) - S[i]) @ inv
        if np.abs(d - np.round(d)).max() > 1e-9 or np.abs(np.round(d)).max() > 1:
            msgs.append("returned position of atom %d is not its stored position plus one of the 27 lattice offsets" % i)
    R = q.as_matrix()
    # best translation given the returned rotation
    X = np.array(mpos, float)
    t = (X - P @ R.T).mean(axis=0)
    dev = np.abs(X - (P @ R.T + t)).max()
    if dev > 2 * float(c["atol"]):
        msgs.append("returned rotation leaves an atom %.3f A from the returned positions (atol %.3f)" % (dev, float(c["atol"])))
    return msgs


def run_find_property(pid, tier, seed, replay, propfiles, flavors, ncases, rule, expect_mode, assumptions):
    run = Run(pid, tier, seed)
    ok_static = run.build_static()
    run.grep_gate()
    found_input = False
    if ok_static:
        for pf in propfiles:
            run.compile_property(pf)
        cases = []
        if replay:
            r = json.load(open(replay))
            if "input" in r and "atol" in r["input"]:
                # replay of a zero-tolerance violation: the recorded structure, the recorded tolerance
                from mofun import find_pattern_in_structure
                c0 = FG.case_from_json(r["input"]["case"])
                S, P = FG.atoms_of(c0)
                with FG.quiet():
                    got = find_pattern_in_structure(S, P, atol=r["input"]["atol"])
                if len(got):
                    found_input = True
                    run.violation("failing-input", {"input": r["input"], "observed": {"matches": [[int(i) for i in m] for m in got]},
                                                    "expected": "no match at this tolerance", "case_kind": "zero-tolerance"})
            elif "input" in r:
                cases.append((FG.case_from_json(r["input"]["case"]), r["input"].get("seed", 0), "replay"))
        for name, cj in corpus(pid):
            cases.append((FG.case_from_json(cj["case"]), cj.get("seed", 0), "corpus:" + name))
        if not replay:
            # situations that random pairing of pattern and flavour reaches only now and then are generated on every run
            for ti, (pat, flavor, big) in enumerate(TARGETED):
                for rep in range(3):
                    # three consecutive k: the three tolerances 1/20, 1/10, 1/50 each occur once
                    c = FG.make_case(run.rng, 1000 + 17 * ti + rep, flavor=flavor, pattern=pat, big=(big if isinstance(big, bool) or big is None else None),
                                     cellkind=(big if isinstance(big, str) else None))
                    if c is not None:
                        cases.append((c, run.rng.randrange(1 << 30), "targeted:" + flavor))
            k = 0
            tries = 0
            while len(cases) < ncases + (1 if replay else 0) and tries < 20 * ncases:
                tries += 1
                flavor = flavors[(k // len(FG.PATTERNS) + k) % len(flavors)]
                c = FG.make_case(run.rng, k, flavor=flavor)
                k += 1
                if c is None:
                    continue
                cases.append((c, run.rng.randrange(1 << 30), flavor))
        E = FG.ElemIds()
        lits = []
        results = []
        for ci, (c, s, kind) in enumerate(cases):
            try:
                if ci % 5 == 3 and kind != "replay" and not kind.startswith("targeted") and not c.get("pre"):
                    # the same Atoms object was searched before, when it had another cell and other elements: nothing of that may survive
                    c = FG.restored_case(c)
                    kind = kind + "+reused-object"
                    run.count("reused-object(restored)")
                    cases[ci] = (c, s, kind)
                elif ci % 5 == 1 and kind != "replay" and not kind.startswith("targeted") and len(c["pel"]) > 1 and not c.get("pre"):
                    # searched once as planted, then the cell is enlarged in place: copies across a face are gone, nothing stale may be reported
                    c = FG.grown_case(c)
                    kind = kind + "+cell-enlarged-after-search"
                    run.count("reused-object(cell enlarged)")
                    cases[ci] = (c, s, kind)
                res = FG.run_find(c, s)
            except Exception as e:   # noqa
                found_input = True
                run.violation("failing-input", {"input": {"case": FG.case_json(c), "seed": s}, "observed": "raised %s: %s" % (type(e).__name__, e),
                                                "expected": "a list of matches", "case_kind": kind})
                res = ([], np.zeros((0, len(c["pel"]), 3)), [])
            results.append(res)
            run.cov["evaluations"] += 1
            run.count("flavor=" + (kind.split(":")[1] if kind.startswith("targeted:") else kind.split(":")[0]))
            if kind.startswith("targeted"):
                run.count("targeted")
            run.count("pattern=" + c["name"])
            run.count("cell=" + c["cellkind"])
            run.count("atol=" + str(c["atol"]))
            run.count("hints=" + ("yes" if c["hints"] else "no"))
            for d in c["decoys"]:
                run.count("decoy=" + d)
            for x in c["crossing"]:
                run.count("copy-spans-%d-images" % x)
            if res[0] and (any(x > 1 for x in c["crossing"]) or c["decoys"] or c["distractors"]):
                run.nontrivial(FG.case_json(c))
            lits.append(FG.find_case_literal(c, res, E, expect=("planted" if expect_mode else None)))
            run.sample(FG.describe(c))
        # a requested tolerance of (next to) zero: copies distorted by 0.03 A are not occurrences
        if not replay:
            for zi, pat in enumerate(["asym4", "bent3_y", "pair"]):
                c = FG.make_case(run.rng, 2000 + zi, flavor="corners", pattern=pat)
                if c is None or not c["planted"]:
                    continue
                pos = np.array(c["pos"], float)
                for g in c["planted"]:
                    pos[g[-1]] = pos[g[-1]] + np.array([0.03, 0.0, 0.0])
                c0 = dict(c, pos=pos, planted=[])
                for tol in (0.0, 1e-6):
                    from mofun import find_pattern_in_structure
                    S, P = FG.atoms_of(c0)
                    with FG.quiet():
                        try:
                            got = find_pattern_in_structure(S, P, atol=tol)
                        except Exception as e:      # noqa
                            got = []
                    run.cov["evaluations"] += 1
                    run.count("zero-tolerance")
                    if len(got):
                        found_input = True
                        run.violation("failing-input", {"input": {"case": FG.case_json(c0), "atol": tol, "note": "positions are off the grid: last atom of every copy displaced by 0.03 A"},
                                                        "observed": {"matches": [[int(i) for i in m] for m in got]},
                                                        "expected": "no match: every copy has an atom 0.03 A away from where the pattern puts it and the requested tolerance is %g" % tol,
                                                        "case_kind": "zero-tolerance"})
        failing = run.correspond(pid.lower(), FG.FIND_HEADER, lits, shard=12, spec=True, timeout=1200)
        for gi in sorted(set(run.spec_failing)):
            c, s, kind = cases[gi]
            idx, mpos, quats = results[gi]
            msgs = []
            for m, mp, q in zip(idx, mpos, quats):
                msgs += py_out_problem(c, m, mp, q)
            got = sorted(tuple(sorted(m)) for m in idx)
            if expect_mode and c["planted"] is not None and got != sorted(tuple(sorted(g)) for g in c["planted"]):
                msgs.append("reported atom groups %s, planted occurrences %s" % (got, sorted(tuple(sorted(g)) for g in c["planted"])))
            found_input = True
            run.violation("failing-input", {"input": {"case": FG.case_json(c), "seed": s}, "observed": {"matches": [list(m) for m in idx], "problems": msgs[:6]},
                                            "expected": "every reported match is a proper rigid image of the pattern within atol made of distinct stored atoms"
                                                        + ("; exactly the planted occurrences, each once" if expect_mode else ""),
                                            "case_kind": kind, "decided_by": "Corr.FindCorr.spec_ok (exact integer arithmetic) on the implementation's output"})
        for f in failing:
            if f[0] == "case" and f[1] not in run.spec_failing:
                run.notes.append("model/implementation disagreement on case %d (%s)" % (f[1], FG.describe(cases[f[1]][0])))
    run.settle_broken(found_input)
    return run.finish(rule=rule, assumptions=assumptions)
