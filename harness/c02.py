"""C02 -- every occurrence is found exactly once, also across periodic boundaries."""
import sys
from findcheck import run_find_property


def main(tier, seed, replay=None):
    n = 170 if tier == "quick" else 720
    return run_find_property(
        "C02", tier, seed, replay, ["theories/Properties/C02.v"], ["mixed", "corners", "antiparallel", "decoys", "stretched", "shuffled"], n,
        rule="same generator as C01 with the planted ground truth attached: copies are farther apart than the pattern diameter + 2 atol "
             "+ 0.3 A, so every candidate lies within one copy or decoy and the expected result is exactly the planted groups.  Compared: "
             "sorted index groups reported by the implementation = planted groups = groups of the Coq model (integer quaternion "
             "construction); no group twice; decoys never reported.  Non-trivial = >= 1 match and (a copy spans several periodic images "
             "or a decoy is present).",
        expect_mode=True,
        assumptions=["completeness is validated, not proved: it rests on the floating-point quaternion construction (parameter `rot` of the model)",
                     "grid inputs: all coordinates are multiples of 1/4096 A"])


if __name__ == "__main__":
    sys.exit(main("quick", 1))
