"""C10 -- deleting atoms removes exactly them and the terms that touch them (exhaustive subsets of small structures)."""
import itertools
import json
import sys

import atoms_io as AIO
from atoms_io import KINDS, G
from common import Run, corpus
from c09 import tagged, CELL


def oracle(st0, ds, st1):
    """C10's statement evaluated on the implementation's output"""
    bad = []
    n = len(st0["pos"])
    kept = [i for i in range(n) if i not in set(ds)]
    new = {old: i for i, old in enumerate(kept)}
    for f in ("pos", "typ", "chg", "grp", "xf"):
        if list(st1[f]) != [st0[f][i] for i in kept]:
            bad.append("per-atom array %s is not the original without the deleted atoms (in order)" % f)
    for f in ("xl", "t_el", "t_mass", "t_lab", "t_pair", "cell"):
        if st1[f] != st0[f]:
            bad.append("%s changed" % f)
    for k, *_ in KINDS:
        a, b = st0[k], st1[k]
        exp = [(tuple(new[v] for v in t), ty, x) for t, ty, x in zip(a["tup"], a["typ"], a["xf"]) if not (set(t) & set(ds))]
        got = list(zip([tuple(t) for t in b["tup"]], b["typ"], b["xf"]))
        if got != exp:
            bad.append("%s: expected surviving rows %s, got %s" % (k, exp[:4], got[:4]))
        if b["xl"] != a["xl"] or b["coef"] != a["coef"]:
            bad.append("%s labels/coefficients changed" % k)
    return bad


def structures(run):
    rng = run.rng
    sizes = [4, 5, 6] if run.tier == "quick" else [4, 5, 6, 7, 8]
    reps = 2 if run.tier == "quick" else 4
    out = []
    for n in sizes:
        for r in range(reps):
            st = tagged(rng, n, "s", coeffs=(r % 2 == 0), cell=CELL, rich=True, max_terms=4)
            out.append(st)
    # hand-made corner cases: angles but no bonds; only impropers; chain with all kinds
    st = tagged(rng, 5, "h", True, cell=CELL, rich=True, max_terms=1)
    st["bonds"] = dict(tup=[], typ=[], coef=st["bonds"]["coef"], xl=st["bonds"]["xl"], xf=[])
    st["angles"]["tup"] = [(0, 1, 2), (2, 3, 4)]
    st["angles"]["typ"] = [0, 0]
    st["angles"]["xf"] = [["thA0"] + ["q"] * (len(st["angles"]["xl"]) - 1), ["thA1"] + ["q"] * (len(st["angles"]["xl"]) - 1)]
    out.append(st)
    st2 = tagged(rng, 4, "w", True, cell=None, rich=True, max_terms=1)
    st2["bonds"]["tup"] = [(0, 1), (0, 2)]
    st2["bonds"]["typ"] = [0, 0]
    st2["bonds"]["xf"] = [["twb0"] + ["q"] * (len(st2["bonds"]["xl"]) - 1), ["twb1"] + ["q"] * (len(st2["bonds"]["xl"]) - 1)]
    st2["angles"]["tup"] = [(1, 0, 2), (1, 2, 3)]
    st2["angles"]["typ"] = [0, 0]
    st2["angles"]["xf"] = [["twa0"] + ["q"] * (len(st2["angles"]["xl"]) - 1), ["twa1"] + ["q"] * (len(st2["angles"]["xl"]) - 1)]
    out.append(st2)
    return out


def large_sparse(rng, host_n, guest_n):
    """a big host with no terms and, somewhere in the middle of the atom list, a small bonded guest in which atoms occur in several term
    slots; many deletions spread over the whole host, below and above the guest (numpy switches algorithms with the size and spread of
    such index arrays, and so may a maintainer)"""
    st = tagged(rng, host_n + guest_n, "L", True, cell=CELL, rich=False, max_terms=0)
    g0 = rng.randrange(host_n // 4, 3 * host_n // 4)
    g = list(range(g0, g0 + guest_n))
    for k, t_, c_, x_, l_, ar in KINDS:
        kk = st[k]
        tups = []
        for _ in range(3):
            t = tuple(rng.sample(g, ar))
            if t not in tups and t[::-1] not in tups:
                tups.append(t)
        if ar == 2:  # a chain: every inner guest atom sits in two bond slots
            tups = [(g[i], g[i + 1]) for i in range(guest_n - 1)]
        kk["tup"] = tups
        kk["typ"] = [0] * len(tups)
        kk["xf"] = [["tL%s%d" % (k[0], j)] + ["q"] * (len(kk["xl"]) - 1) for j in range(len(tups))]
    nd = rng.choice([rng.randint(20, 32), rng.randint(33, 44), rng.randint(45, 70)])
    host = [i for i in range(host_n + guest_n) if i not in g]
    step = len(host) // nd
    ds = sorted(host[rng.randrange(i * step, (i + 1) * step)] for i in range(nd))
    if rng.random() < 0.3:
        ds.append(g[rng.randrange(guest_n)])
    if rng.random() < 0.5:
        rng.shuffle(ds)
    return st, ds


def main(tier, seed, replay=None):
    run = Run("C10", tier, seed)
    ok_static = run.build_static()
    run.grep_gate()
    found_input = False
    if ok_static:
        run.compile_property("theories/Properties/C10.v")
        cases = []
        if replay:
            r = json.load(open(replay))
            if "input" in r:
                cases.append((r["input"]["init"], [tuple(o) for o in r["input"]["ops"]], "replay"))
        for name, c in corpus("C10"):
            cases.append((c["init"], [tuple(o) for o in c["ops"]], "corpus:" + name))
        if not replay:
            for st in structures(run):
                n = len(st["pos"])
                for r in range(1, n + 1):
                    for sub in itertools.combinations(range(n), r):
                        cases.append((st, [("del", list(sub))], "subset-ascending"))
                        if r > 1:
                            sh = list(sub)
                            run.rng.shuffle(sh)
                            if sh == list(sub):
                                sh.reverse()
                            cases.append((st, [("del", sh)], "subset-shuffled"))
                for p in list(range(-n, n)):
                    cases.append((st, [("pop", p)], "pop"))
            for i in range(6 if tier == "quick" else 40):
                st, ds = large_sparse(run.rng, run.rng.choice([300, 450, 600, 900]), run.rng.randint(8, 14))
                cases.append((st, [("del", ds)], "large-sparse"))
        I = AIO.Interner()
        lits = []
        for init, ops, kind in cases:
            st0, states = AIO.run_history(init, ops)
            run.cov["evaluations"] += 1
            run.count(kind.split(":")[0])
            run.count("n=%d" % len(init["pos"]))
            s = states[0]
            n = len(st0["pos"])
            ds = list(ops[0][1]) if ops[0][0] == "del" else [ops[0][1] % n]
            if isinstance(s, tuple):
                bad = ["raised " + s[1]]
            else:
                bad = oracle(st0, ds, s)
            if bad:
                found_input = True
                run.violation("failing-input", {"input": {"init": init, "ops": [list(o) for o in ops]}, "observed": bad[:5],
                                                "expected": "exactly the listed atoms removed; terms survive iff untouched, re-indexed to the same physical atoms, same type and extra fields",
                                                "case_kind": kind})
            shifted = any(not (set(t) & set(ds)) and any(v > min(ds) for v in t) for k, *_ in KINDS for t in st0[k]["tup"])
            removed = any(set(t) & set(ds) for k, *_ in KINDS for t in st0[k]["tup"])
            if shifted and removed:
                run.nontrivial((init, [list(o) for o in ops]))
            lits.append(AIO.case_literal(st0, ops, states, I))
            if kind == "subset-shuffled":
                run.sample({"n_atoms": n, "delete": ds, "bonds": st0["bonds"]["tup"], "angles": st0["angles"]["tup"]})
        failing = run.correspond("c10", AIO.ATOMS_HEADER, lits, shard=150)
        for f in failing:
            if f[0] == "case":
                run.notes.append("model/implementation disagreement on case %d (%s %s)" % (f[1], cases[f[1]][2], cases[f[1]][1]))
    run.settle_broken(found_input)
    return run.finish(
        rule="every non-empty subset of the atoms of each generated structure (4-6 atoms quick, 4-8 thorough; random rich term sets of all four "
             "kinds with extra columns, with and without coefficient tables; hand-made structures with angles but no bonds), listed ascending and in "
             "a shuffled order, plus pop(p) for every valid p.  Each result is compared with the Coq model's delitem/pop and with the property "
             "evaluated directly.  Non-trivial = at least one surviving term had an index shifted and at least one term was removed.",
        exhaustive=True,
        assumptions=["numpy array aliasing is exercised, not modelled"])


if __name__ == "__main__":
    sys.exit(main("quick", 1))
