"""C05 -- inserted atoms land where the replacement pattern says, modulo the lattice."""
import sys
from fractions import Fraction

import numpy as np

import atoms_io as AIO
import findgen as FG
import replgen as RG
from replcheck import run_replace_property

MODES = ["substitute", "larger", "disjoint", "larger"]
UNIQUE_POSE = ["asym4", "chiral5", "weakchiral4", "axis_asym4", "bent3_y"]      # non-collinear, no symmetry: the rotation is determined


def make_runs(run):
    n = 44 if run.tier == "quick" else 300
    runs = []
    k = 0
    while len(runs) < n and k < 30 * n:
        mode = MODES[k % len(MODES)]
        pat = UNIQUE_POSE[(k // 2) % len(UNIQUE_POSE)] if k % 2 == 0 else None
        big = None
        flavor = ["corners", "mixed", "antiparallel", "stretched", "inside-near-face"][(k // 4) % 5]
        if flavor == "inside-near-face":
            mode = "larger"
        if k % 4 == 3:
            # copies (and mirror-image decoys) far from the origin, patterns whose only relabelling / look-alike is a reflection
            pat, big, flavor = ["mirrorsym5", "ch2f2", "chiral5", "weakchiral4"][(k // 4) % 4], True, "decoys"
        p = RG.make_problem(run.rng, k, repl_mode=mode, flavor=flavor, with_terms=False, pattern=pat, big=big, cellkind=(({3: "upper", 5: "rot-ortho", 10: "mono-xy"}.get(k % 11)) if big is None else None))
        k += 1
        if p is None:
            continue
        runs.append(dict(p=p, frac=(Fraction(1, 2) if k % 5 in (1, 3) else Fraction(1)), replace_all=(k % 3 == 0), ignore=False, seed=run.rng.randrange(1 << 30), parts=("outcome",),
                         kind="planted", joint=(pat in UNIQUE_POSE), replica2=(k % 3 == 0)))
    return runs


def moved(st, M, t):
    st2 = dict(st)
    st2["pos"] = [tuple(int(v) for v in (np.array(p) @ M.T + t)) for p in st["pos"]]
    return st2


def canon(out, cell):
    """multiset of (element, position modulo the lattice) rounded to 1e-5 A"""
    inv = np.linalg.inv(cell)
    res = []
    for i, p in enumerate(out["pos"]):
        f = (np.array(p, float) / AIO.FINE) @ inv
        f = f - np.floor(f + 1e-7)
        f = np.where(f > 1 - 1e-6, 0.0, f)
        res.append((out["t_el"][out["typ"][i]], tuple(np.round(f @ cell, 4))))
    return sorted(res)


def second_on_replica(run, r, res):
    """the result of the replacement is replicated (same object lineage, no rebuilding) and a bystander site of the supercell is replaced
    by a two-atom group Rn-H with |Rn-H| = 1 A: every inserted H must lie inside the NEW cell, 1 A (minimum image in the NEW cell) from a Rn"""
    from mofun import Atoms, replace_pattern_in_structure
    import random
    new = res.get("new")
    if new is None or new.cell is None:
        return []
    els = [str(e) for e in new.elements]
    cand = [e for e in ("Xe", "Ar", "Kr") if e in els]
    if not cand:
        return []
    e = cand[0]
    f = run.rng.choice([(2, 1, 1), (1, 2, 1), (1, 1, 2)])
    bad = []
    with AIO.quiet():
        big = new.replicate(f)
        P = Atoms(elements=[e], positions=[[0., 0., 0.]])
        R = Atoms(elements=["Rn", "H"], positions=[[0., 0., 0.], [1., 0., 0.]])
        random.seed(r["seed"] + 7)
        np.random.seed((r["seed"] + 7) % (2 ** 32))
        try:
            out = replace_pattern_in_structure(big, P, R)
        except Exception as ex:     # noqa
            return ["replacement on the replicated result raised %s: %s" % (type(ex).__name__, ex)]
    run.cov["evaluations"] += 1
    run.count("kind=replace-replicate-replace")
    cell = np.array(out.cell, float)
    inv = np.linalg.inv(cell)
    oe = [str(x) for x in out.elements]
    pos = np.array(out.positions, float)
    k = sum(1 for x in big.elements if str(x) == e)          # one inserted (Rn, H) pair per replaced site, appended at the end
    tail = list(range(len(oe) - 2 * k, len(oe)))
    if [oe[i] for i in tail] != ["Rn", "H"] * k:
        return ["after replicate %s: the %d replaced sites are not followed by %d appended Rn-H pairs" % (f, k, k)]
    rn = pos[[i for i in tail if oe[i] == "Rn"]]
    hs = [i for i in tail if oe[i] == "H"]
    fr = pos @ inv
    for i in tail:
        if fr[i].min() < -1e-6 or fr[i].max() > 1 + 1e-6:
            bad.append("after replicate %s: inserted atom %d has fractional coordinates %s in the new cell" % (f, i, np.round(fr[i], 4).tolist()))
            break
    for i in hs:
        # its own partner is the Rn appended just before it; some lattice image of it must be exactly 1 A away (in a cell narrower
        # than 2 A that need not be the nearest image)
        dv = pos[i] - pos[i - 1]
        d = min((abs(np.linalg.norm(dv + np.array([a, b, c]) @ cell) - 1.0), np.linalg.norm(dv + np.array([a, b, c]) @ cell))
                for a in range(-3, 4) for b in range(-3, 4) for c in range(-3, 4))[1]
        if abs(d - 1.0) > 1e-5:
            bad.append("after replicate %s: inserted H %d has no lattice image 1.0 A from the Rn inserted with it (closest to that: %.4f A), the replacement pattern says 1.0" % (f, i, d))
            break
    return bad


def extra(r, res, run):
    bad = []
    if res["outcome"] == "ok" and r.get("replica2"):
        bad += second_on_replica(run, r, res)
    if r.get("joint") and res["outcome"] == "ok" and len(r["p"]["repl"]["pos"]):
        # move search and replacement pattern together by an exact rigid motion (signed permutation + grid translation)
        q = run.rng.choice(FG.AXIS_QUATS)
        M = np.round(FG.qrot(q)).astype(int)
        if abs(np.linalg.det(M) - 1) > 1e-9 or not np.allclose(M @ M.T, np.eye(3)):
            return bad
        t = np.array([run.rng.randrange(-8 * AIO.G, 8 * AIO.G, 64) for _ in range(3)])
        p2 = dict(r["p"], search=moved(r["p"]["search"], M, t), repl=moved(r["p"]["repl"], M, t))
        res2 = RG.run_replace(p2, r["frac"], r["replace_all"], r["ignore"], r["seed"])
        run.cov["evaluations"] += 1
        run.count("kind=joint-rigid-motion")
        if res2["outcome"] != "ok":
            bad.append("after moving both patterns together the replacement ended with %s" % res2["outcome"])
        else:
            cell = np.array(r["p"]["S"]["cell"], float) / AIO.G
            a, b = canon(res["out"], cell), canon(res2["out"], cell)
            if len(a) != len(b) or any(x[0] != y[0] or np.abs(np.array(x[1]) - np.array(y[1])).max() > 2e-4 for x, y in zip(a, b)):
                bad.append("moving search and replacement pattern together by a rigid motion changed the result")
    return bad


def main(tier, seed, replay=None):
    return run_replace_property(
        "C05", tier, seed, replay, ["theories/Properties/C05.v"], make_runs,
        rule="planted structures in orthorhombic, triclinic (both tilt signs, upper-triangular, arbitrarily rotated) and large cells, matches at every "
             "face / edge / corner, axis-aligned and antiparallel poses, symmetric and collinear search patterns; replacement patterns that insert atoms "
             "(substitution, larger, no shared atom), replace_all on/off.  For every inserted atom the implementation's coordinate is compared in exact "
             "integer arithmetic (Coq) with R(repl_j - search_0) + pos_0 modulo the lattice (1.9e-6 A) and with the cell (fractional coordinates in "
             "[0,1]); for patterns whose pose is unique, search and replacement pattern are moved together by an exact rigid motion and the results "
             "compared modulo the lattice.  Non-trivial = >= 1 match replaced with atoms inserted.",
        assumptions=["joint-motion invariance is only checked for non-collinear patterns without symmetry (for the others the rotation about the axis / the "
                     "chosen ordering is not determined by the inputs)"], extra=extra)


if __name__ == "__main__":
    sys.exit(main("quick", 1))
