"""C18 -- UFF parameters follow the published formulas for every type combination."""
import contextlib
import io
import itertools
import json
import math
import os
import re
import subprocess
import sys
import time
from fractions import Fraction

from common import Run, corpus, gal, N, Some, COQ, NPROC

RTOL = Fraction(1, 10 ** 11)


def quiet():
    return contextlib.redirect_stdout(io.StringIO()), contextlib.redirect_stderr(io.StringIO())


def rlit(x):
    """exact real literal of a float"""
    f = Fraction(x)
    s = "%d" % abs(f.numerator)
    if f.denominator != 1:
        s = "%s / %d" % (s, f.denominator)
    return "(- (%s))" % s if f < 0 else "(%s)" % s


def enclose(v, expr):
    """Coq statement:  expr lies within relative 1e-11 of the float v (absolute 1e-15 when v = 0)"""
    f = Fraction(v)
    lo = f - abs(f) * RTOL - Fraction(1, 10 ** 15)
    hi = f + abs(f) * RTOL + Fraction(1, 10 ** 15)

    def q(fr):
        s = "%d / %d" % (abs(fr.numerator), fr.denominator)
        return "(- (%s))" % s if fr < 0 else "(%s)" % s
    return "%s <= %s <= %s" % (q(lo), expr, q(hi))


BO_R = {1: "1", 1.5: "(3 / 2)", 2: "2", 3: "3"}

GOAL_HEADER = """From Coq Require Import Reals ZArith List String.
From Interval Require Import Tactic.
From Mofun Require Import Model.UFF.
From MofunGen Require Import Tables.
Open Scope R_scope.
Ltac eval_table := repeat match goal with |- context [getZ ?T ?a ?k] => let z := eval vm_compute in (getZ T a k) in change (getZ T a k) with z end.
Ltac eval_case := repeat match goal with
  | |- context [tors_case ?mg ?a ?b ?c ?d] => let v := eval vm_compute in (tors_case mg a b c d) in change (tors_case mg a b c d) with v
  | |- context [String.eqb ?x ?y] => let v := eval vm_compute in (String.eqb x y) in change (String.eqb x y) with v end.
Ltac close := unfold tors_force; eval_case; cbv beta iota; unfold oxy_v; eval_case; cbv beta iota; unfold pair_sigma, pair_epsilon, lj_sigma, Rpower, tors_sp3, tors_sp2, tors_const, four_c0, four_c1, four_c2,
  angle_force, angle_theta, angle_k, r_ik, rad, bond_force, bond_length, bond_k, bond_r, rBO, rEN, getR; eval_table; interval with (i_prec 64).
"""


def run_goal_files(run, name, goals, per_file):
    """goals: list of (label, statement).  Each file proves its goals one by one; a failing goal is reported by its label."""
    files = []
    for k in range(0, len(goals), per_file):
        path = os.path.join(run.rundir, "goals_%s_%d.v" % (name, k // per_file))
        with open(path, "w") as f:
            f.write(GOAL_HEADER)
            for i, (label, stmt) in enumerate(goals[k:k + per_file]):
                f.write("Goal %s.\nProof. first [ close | idtac \"FAILED-GOAL %d\"; fail ]. Qed.\n" % (stmt, k + i))
        files.append(path)
    procs = []
    out = {}
    idx = 0
    running = []
    while idx < len(files) or running:
        while idx < len(files) and len(running) < NPROC:
            o = open(files[idx] + ".out", "w")
            running.append((idx, subprocess.Popen(["timeout", "1500", "coqc", "-Q", os.path.join(COQ, "theories"), "Mofun", "-Q", run.rundir, "MofunGen", files[idx]],
                                                  cwd=run.rundir, stdout=o, stderr=subprocess.STDOUT)))
            o.close()
            idx += 1
        still = []
        for i, pr in running:
            if pr.poll() is None:
                still.append((i, pr))
            else:
                out[i] = (pr.returncode, open(files[i] + ".out").read())
        running = still
        if running:
            time.sleep(0.05)
    failed = []
    for i in sorted(out):
        rc, text = out[i]
        ok = rc == 0
        first = None
        if not ok:
            m = re.search(r"FAILED-GOAL (\d+)", text)
            first = int(m.group(1)) if m else None
            failed.append((i, first, text[-1500:]))
        run.oblige("interval enclosures %s file %d (%d goals)" % (name, i, min(per_file, len(goals) - i * per_file)), ok, text[-1500:] if not ok else "")
    return failed


def main(tier, seed, replay=None):
    run = Run("C18", tier, seed)
    ok_tables = run.gen_tables()
    ok_static = run.build_static()
    run.grep_gate()
    found_input = False
    if ok_tables and ok_static:
        run.compile_property("theories/Properties/C18.v")
        run.compile_property("pertree/C18_tables.v")
        from mofun import rough_uff as ru
        from mofun.uff4mof import UFF4MOF, MAIN_GROUP_ELEMENTS
        types = list(UFF4MOF)
        rng = run.rng
        o, e = quiet()
        # ---------------------------------------------------------------- discrete part
        AZIDE = [({"N_1"}, 2), ({"N_1", "N_2"}, 2), ({"C_R", "N_R"}, 1.41)]
        # user rules for pairs that also have a built-in guess (homonuclear sp2 / aromatic, bonds to H_, sp3 and halogens): the user's rule wins
        OVERRIDE = [({"C_2"}, 1), ({"C_R"}, 1), ({"C_R", "O_3"}, 1.5), ({"N_R"}, 2), ({"H_", "C_R"}, 1.25), ({"Cl", "C_R"}, 1.5)]
        pairs_all = list(itertools.product(types, types))
        # thorough = about ten times the quick sample (everything x everything would be some 10^5 interval goals)
        pairs = rng.sample(pairs_all, 1500 if tier == "quick" else min(len(pairs_all), 9000))
        special = [("C_R", "C_R"), ("C_2", "C_2"), ("N_R", "N_R"), ("O_2", "O_2"), ("O_R", "O_R"), ("C_R", "N_R"), ("C_3", "C_R"), ("H_", "C_R"), ("N_1", "N_1"),
                   ("N_1", "N_2"), ("N_2", "N_1"), ("C_2", "N_2"), ("Zr3+4", "O_2"), ("Cl", "C_R"), ("I_", "I_"), ("N_R", "C_R")]
        pairs = special + pairs
        disc = []
        sym_bad = []

        def rules_lit(rules):
            out = []
            for s, bo in rules:
                l = sorted(s)
                f = Fraction(bo).limit_denominator(1000)
                out.append('("%s"%%string, "%s"%%string, BOuser %d %d)' % (l[0], l[-1], f.numerator, f.denominator))
            return "[%s]" % "; ".join(out)
        for a1, a2 in pairs:
            for rules in (None, AZIDE, OVERRIDE):
                with o, e:
                    g = ru.guess_bond_order(a1, a2, rules)
                    g2 = ru.guess_bond_order(a2, a1, rules)
                if g != g2:
                    sym_bad.append("guess_bond_order(%s,%s)=%s but reversed %s" % (a1, a2, g, g2))
                f = Fraction(g).limit_denominator(1000)
                disc.append('OBond "%s"%%string "%s"%%string %s %d %d' % (a1, a2, rules_lit(rules or []), f.numerator, f.denominator))
                run.cov["evaluations"] += 1
        run.count("bond-order-guesses", len(pairs) * 3)
        for a2 in types:
            with o, e:
                p = ru.angle_params("H_", a2, "H_")
            if p[0] == "cosine/periodic":
                disc.append('OAngle "%s"%%string 0 %s %s' % (a2, gal(int(p[2])), gal(int(p[3]))))
            else:
                disc.append('OAngle "%s"%%string 1 0 0' % a2)
            run.cov["evaluations"] += 1
        run.count("angle-styles", len(types))
        ends = ["H_", "C_2", "O_3", "C_R"]
        centre = special + rng.sample(pairs_all, 1000 if tier == "quick" else min(len(pairs_all), 5000))
        tors_obs = {}
        for a2, a3 in centre:
            for a1 in ends[:2] if tier == "quick" else ends:
                for a4 in ends[:2] if tier == "quick" else ends:
                    with o, e:
                        try:
                            p = ru.dihedral_params(a1, a2, a3, a4)
                            code = 1 if p is None else 0
                        except Exception:
                            p, code = None, 2
                        try:
                            pr = ru.dihedral_params(a4, a3, a2, a1)
                            coder = 1 if pr is None else 0
                        except Exception:
                            pr, coder = None, 2
                    if code != coder or (code == 0 and (p[0], p[2], p[3]) != (pr[0], pr[2], pr[3])) or (code == 0 and abs(p[1] - pr[1]) > 1e-12 * abs(p[1])):
                        sym_bad.append("dihedral_params(%s,%s,%s,%s) = %s but reversed gives %s" % (a1, a2, a3, a4, p, pr))
                    tors_obs[(a1, a2, a3, a4)] = (code, p)
                    d, n = (int(p[2]), int(p[3])) if code == 0 else (0, 0)
                    disc.append('OTors "%s"%%string "%s"%%string "%s"%%string "%s"%%string %d %s %s' % (a1, a2, a3, a4, code, gal(d), gal(n)))
                    run.cov["evaluations"] += 1
        run.count("torsion-cases", len(tors_obs))
        header = ("From Coq Require Import Reals ZArith List String.\nFrom Mofun Require Import Model.UFF Corr.CorrLib Corr.C18.\nFrom MofunGen Require Import Tables.\n"
                  "Import ListNotations.\nOpen Scope Z_scope.\nDefinition case := obs.\nDefinition failing := Corr.C18.failing uff4mof main_group_elements.\n"
                  "Definition explain_failing := Corr.C18.explain_failing uff4mof main_group_elements.\n")
        failing = run.correspond("c18d", header, disc, shard=1500)
        for f in failing:
            if f[0] == "case":
                lit = disc[f[1]]
                found_input = True
                run.violation("failing-input", {"input": {"discrete_case": lit}, "observed": "the implementation's discrete outcome (bond-order guess / potential style, b, n / torsion case, d, n, undefined, unsupported) differs from the documented case analysis (Model.UFF) for this type combination",
                                                "expected": "Model.UFF.guess_bond_order / angle_style / tors_case"})
        for sb in sym_bad[:5]:
            found_input = True
            run.violation("failing-input", {"input": {"reversal": sb}, "observed": sb, "expected": "identical parameters when the atom types are given in reverse order"})
        # ---------------------------------------------------------------- magnitudes: interval enclosures
        goals = []
        meta = []
        bond_pairs = special + rng.sample(pairs_all, 180 if tier == "quick" else min(len(pairs_all), 1500))
        for a1, a2 in bond_pairs:
            for bo in (None, 1, 1.5, 2):
                with o, e:
                    k, r = ru.bond_params(a1, a2, bond_order=bo)
                    k2, r2 = ru.bond_params(a2, a1, bond_order=bo)
                    g = bo if bo is not None else ru.guess_bond_order(a1, a2)
                if not (math.isfinite(k) and math.isfinite(r) and k > 0 and r > 0):
                    found_input = True
                    run.violation("failing-input", {"input": {"bond": [a1, a2, bo]}, "observed": [k, r], "expected": "finite, positive force constant and length"})
                if abs(k - k2) > 1e-12 * abs(k) or abs(r - r2) > 1e-12 * abs(r):
                    found_input = True
                    run.violation("failing-input", {"input": {"bond": [a1, a2, bo]}, "observed": [[k, r], [k2, r2]], "expected": "identical under reversal"})
                bor = BO_R.get(g, rlit(g))
                goals.append(("bond_length %s %s %s" % (a1, a2, bo), enclose(r, 'bond_length uff4mof "%s" "%s" %s' % (a1, a2, bor))))
                goals.append(("bond_force %s %s %s" % (a1, a2, bo), enclose(k, 'bond_force uff4mof "%s" "%s" %s' % (a1, a2, bor))))
                meta.append(("bond", a1, a2, bo))
                meta.append(("bond", a1, a2, bo))
                run.cov["evaluations"] += 1
                if a1 != a2:
                    run.nontrivial(("bond", a1, a2, bo))
        run.count("bond-goals", len(goals))
        # pair coefficients
        for a in (types if tier == "thorough" else rng.sample(types, 60)):
            with o, e:
                eps, sig = ru.pair_coeffs(a)
            goals.append(("pair sigma %s" % a, enclose(sig, 'pair_sigma uff4mof "%s"' % a)))
            goals.append(("pair epsilon %s" % a, enclose(eps, 'pair_epsilon uff4mof "%s"' % a)))
            meta += [("pair", a)] * 2
            run.cov["evaluations"] += 1
        # angles: stratified over the centre's theta0 class x extreme/typical radii of the ends
        by_r = sorted(types, key=lambda t: UFF4MOF[t][0])
        end_pool = [by_r[0], by_r[1], by_r[-1], "H_", "C_R", "O_3", "Zr3+4", "N_R", "C_3", "H_b"]
        thetas = {}
        for t in types:
            thetas.setdefault(UFF4MOF[t][1], []).append(t)
        centres = []
        for th, ts in sorted(thetas.items()):
            centres += rng.sample(ts, min(len(ts), 2 if tier == "quick" else 8))
        centres = list(dict.fromkeys(centres + ["H_b", "C_R", "O_3", "N_3", "C_1", "Zr3+4"]))
        ngoal_a = 0
        for a2 in centres:
            triples = [(a1, a3) for a1 in end_pool for a3 in end_pool]
            for a1, a3 in rng.sample(triples, min(len(triples), 3 if tier == "quick" else 8)):
                with o, e:
                    p = ru.angle_params(a1, a2, a3)
                    pr = ru.angle_params(a3, a2, a1)
                    g12, g23 = ru.guess_bond_order(a1, a2), ru.guess_bond_order(a2, a3)
                if p[0] != pr[0] or any(abs(x - y) > 1e-12 * max(abs(x), 1e-300) for x, y in zip(p[1:], pr[1:])):
                    found_input = True
                    run.violation("failing-input", {"input": {"angle": [a1, a2, a3]}, "observed": [list(p), list(pr)], "expected": "identical under reversal"})
                if not (math.isfinite(p[1]) and p[1] > 0):
                    found_input = True
                    run.violation("failing-input", {"input": {"angle": [a1, a2, a3]}, "observed": list(p), "expected": "finite positive angle force constant"})
                goals.append(("angle_force %s %s %s" % (a1, a2, a3), enclose(p[1], 'angle_force uff4mof "%s" "%s" "%s" %s %s' % (a1, a2, a3, BO_R[g12], BO_R[g23]))))
                meta.append(("angle", a1, a2, a3))
                if p[0] == "fourier":
                    for nm, v in zip(("four_c0", "four_c1", "four_c2"), p[2:5]):
                        goals.append(("%s %s" % (nm, a2), enclose(v, '%s (angle_theta uff4mof "%s")' % (nm, a2))))
                        meta.append(("angle", a1, a2, a3))
                ngoal_a += 1
                run.cov["evaluations"] += 1
                run.nontrivial(("angle", a1, a2, a3))
        # angles with user bond-order rules: each of the two bonds takes the order of the first matching rule
        for a1, a2, a3 in [("H_", "N_2", "N_1"), ("N_1", "N_2", "H_"), ("C_3", "N_R", "C_R"), ("C_R", "N_R", "C_3"), ("N_1", "N_1", "N_2"), ("N_2", "N_1", "N_1"),
                           ("C_R", "C_R", "N_R"), ("N_R", "C_R", "C_R"), ("H_", "C_R", "N_R")]:
            with o, e:
                p = ru.angle_params(a1, a2, a3, bond_order_rules=AZIDE)
                pr = ru.angle_params(a3, a2, a1, bond_order_rules=AZIDE)
                g12, g23 = ru.guess_bond_order(a1, a2, AZIDE), ru.guess_bond_order(a2, a3, AZIDE)
            if p[0] != pr[0] or any(abs(x - y) > 1e-12 * max(abs(x), 1e-300) for x, y in zip(p[1:], pr[1:])):
                found_input = True
                run.violation("failing-input", {"input": {"angle": [a1, a2, a3], "bond_order_rules": "azide/amide rules"}, "observed": [list(p), list(pr)], "expected": "identical under reversal"})
            goals.append(("angle_force %s %s %s with user bond-order rules" % (a1, a2, a3),
                          enclose(p[1], 'angle_force uff4mof "%s" "%s" "%s" %s %s' % (a1, a2, a3, BO_R.get(g12, rlit(g12)), BO_R.get(g23, rlit(g23))))))
            meta.append(("angle-rules", a1, a2, a3))
            run.cov["evaluations"] += 1
            ngoal_a += 1
        run.count("angle-triples", ngoal_a)
        # torsions: one magnitude goal per observed harmonic case (sampled)
        harm = [(kq, v) for kq, v in tors_obs.items() if v[0] == 0]
        # always included: sp2 / aromatic central bonds whose guessed bond order is not 1, with several torsions about the bond
        fixed = []
        for q4 in [("H_", "C_R", "C_R", "H_"), ("C_R", "C_R", "C_R", "C_R"), ("H_", "C_2", "C_2", "H_"), ("C_3", "N_R", "N_R", "H_"), ("H_", "C_2", "C_R", "H_"),
                   ("O_3", "C_R", "N_R", "H_"), ("H_", "O_R", "O_R", "H_"), ("C_3", "N_2", "N_2", "C_3")]:
            with o, e:
                try:
                    p0 = ru.dihedral_params(*q4)
                except Exception:      # noqa
                    p0 = None
            if p0 is not None:
                fixed += [(q4, (0, p0), mm) for mm in (2, 4, 9)]
        sampled = [(kq, v, rng.choice([1, 2, 3, 9])) for kq, v in rng.sample(harm, min(len(harm), 150 if tier == "quick" else 2000))]
        for (a1, a2, a3, a4), (code, p), m in fixed + sampled:
            with o, e:
                pm = ru.dihedral_params(a1, a2, a3, a4, num_dihedrals_about_bond=m)
                g = ru.guess_bond_order(a2, a3)
            if not (math.isfinite(pm[1]) and pm[1] >= 0):
                found_input = True
                run.violation("failing-input", {"input": {"torsion": [a1, a2, a3, a4, m]}, "observed": list(pm), "expected": "finite non-negative barrier"})
            goals.append(("tors_force %s %s %s %s M=%d" % (a1, a2, a3, a4, m),
                          enclose(pm[1], 'tors_force uff4mof main_group_elements "%s" "%s" "%s" "%s" %s %d' % (a1, a2, a3, a4, BO_R.get(g, rlit(g)), m))))
            meta.append(("torsion", a1, a2, a3, a4, m))
            run.cov["evaluations"] += 1
            run.nontrivial(("torsion", a1, a2, a3, a4, m))
        run.count("torsion-goals", min(len(harm), 150 if tier == "quick" else 2000))
        # torsion magnitude goals need the case to reduce: add the unfolding of tors_force / tors_case by computation
        failed = run_goal_files(run, "c18", goals, 60 if tier == "quick" else 200)
        for fi, first, text in failed:
            label = goals[first][0] if first is not None else "file %d" % fi
            found_input = first is not None or found_input
            if first is not None:
                run.violation("failing-input", {"input": {"combination": label, "what": meta[first]},
                                                "observed": "the value computed by the implementation is not within 1e-11 (relative) of the published functional form evaluated on the current table (interval arithmetic could not enclose it)",
                                                "statement": goals[first][1]})
        run.sample({"goal": goals[0][0], "statement": goals[0][1][:300]})
        run.sample({"goal": goals[len(goals) // 2][0], "statement": goals[len(goals) // 2][1][:300]})
        run.sample({"discrete": disc[0]})
        run.cov["interval_goals"] = len(goals)
    run.settle_broken(found_input)
    return run.finish(
        rule="discrete outcomes (bond-order guess with and without user rules, angle potential style / b / n for all 221 centre types, torsion case / d / n / "
             "undefined / unsupported for centre pairs x end classes) compared exactly with the computable case analysis of the model (quick: sampled pairs; "
             "thorough: 9 000 of the 48 841 ordered pairs); magnitudes (bond length and force constant for bond orders {guessed, 1, 1.5, 2}, pair sigma/epsilon, angle "
             "force constant and fourier coefficients stratified over theta0 classes x extreme/typical end radii, torsion barriers for several multiplicities) "
             "enclosed within 1e-11 relative by kernel-checked interval arithmetic against the real-valued formulas on the regenerated table; symmetry under "
             "reversal, finiteness and positivity also checked on the implementation's values.  Non-trivial = not all types identical.",
        exhaustive=False,
        assumptions=["the code's floating-point evaluation is compared with the real-valued formula within 1e-11 relative (its own rounding is ~1e-15)",
                     "math.log / sqrt / cos / sin / pi of the platform are trusted to be accurate to 1e-12"],
        trusted_extra=["tools/gen_tables.py (fail-closed ast translator)", "coq-interval (interval with i_prec 64: software floats over Bignums / Uint63 primitives)"])


if __name__ == "__main__":
    sys.exit(main("quick", 1))
