"""C06 -- force-field terms and coefficients of the replacement arrive intact."""
import sys
from fractions import Fraction

import atoms_io as AIO
import replgen as RG
from replcheck import run_replace_property

MODES = ["identical", "substitute", "larger", "subset", "disjoint", "larger"]


def second_stage(run, r, res):
    """repeated replacement: replace a bystander single-site pattern in the result of the first replacement"""
    out = res["out"]
    els = [out["t_el"][t] for t in out["typ"]]
    cand = [e for e in ("Xe", "Ar", "Kr") if e in els]
    if not cand:
        return None
    e = run.rng.choice(cand)
    p1 = r["p"]
    coeffs = p1["coeffs"] and not p1.get("cif_like")
    search = RG.mk_state([e], [(0, 0, 0)], None, run.rng, "q", coeffs, xlabels=())
    repl = RG.mk_state(["Rn", "H"], [(0, 0, 0), (AIO.FINE, 0, 0)], None, run.rng, "z", coeffs, xlabels=("y",))
    RG.add_terms(repl, run.rng, "z", coeffs, {"bonds": [(0, 1)]}, xl=("kb",))
    S = out
    from findgen import case_from_json
    c = dict(p1["case"])
    planted = [(i,) for i, x in enumerate(els) if x == e]
    c2 = dict(c, planted=planted, name="site:" + e)
    return dict(case=c2, S=S, search=search, repl=repl, mode="stage2-site", coeffs=coeffs, atol=p1["atol"], hints=None, scale=AIO.FINE, cif_like=False)


def make_runs(run):
    n = 60 if run.tier == "quick" else 360
    runs = []
    k = 0
    while len(runs) < n and k < 30 * n:
        mode = MODES[k % len(MODES)]
        cif_like = (k % 10 == 9)
        p = RG.make_problem(run.rng, k, repl_mode=mode, flavor=["mixed", "corners"][(k // 6) % 2], with_terms=True,
                            coeffs=(True if cif_like else (k % 3 != 2)), cif_like=cif_like)
        k += 1
        if p is None:
            continue
        if k % 5 == 3 and not cif_like and p["repl"]["t_lab"]:
            # two parameterisations that happen to use the same type label: the pattern calls its atoms what the structure calls atoms of
            # that element, but defines other masses and pair coefficients for them
            by_el = {}
            for e, lab in zip(p["S"]["t_el"], p["S"]["t_lab"]):
                by_el.setdefault(e, lab)
            p["repl"]["t_lab"] = [by_el.get(e, lab) for e, lab in zip(p["repl"]["t_el"], p["repl"]["t_lab"])]
            run.count("same-labels-other-parameters")
        runs.append(dict(p=p, frac=Fraction(1), replace_all=(k % 7 == 0), ignore=False, seed=run.rng.randrange(1 << 30),
                         parts=("atoms", "terms", "outcome"), kind="cif-like" if cif_like else "planted", stage2=(k % 4 == 0 and not cif_like)))
    # pure deletion of overlapping matches (empty replacement): the terms of the rest of the structure must follow their atoms
    from c07 import make_overlap_problem
    got, kk = 0, 0
    while got < (6 if run.tier == "quick" else 60) and kk < 400:
        p = make_overlap_problem(run.rng, kk)
        kk += 1
        if p is None or p["mode"] != "overlap-empty":
            continue
        got += 1
        runs.append(dict(p=p, frac=Fraction(1), replace_all=False, ignore=False, seed=run.rng.randrange(1 << 30),
                         parts=("atoms", "terms", "outcome"), kind="overlapping-deletion", stage2=False))
    return runs


def extra(r, res, run):
    bad = []
    if r.get("stage2") and res["outcome"] == "ok":
        p2 = second_stage(run, r, res)
        if p2 is not None:
            res2 = RG.run_replace(p2, Fraction(1), False, False, r["seed"] + 1)
            run.cov["evaluations"] += 1
            run.count("kind=second-stage")
            c2 = RG.compare(p2, res2, False, False, Fraction(1), parts=("atoms", "terms", "outcome"))
            bad += ["second replacement: " + c for c in c2]
    return bad


def known(r, res, complaints):
    """D10: structure with atom types but no pair-coefficient table + parameterised pattern"""
    if r["p"].get("cif_like") and all(": pair is" in c for c in complaints):
        return {"id": "D10", "what": "pair coefficients of a parameterised pattern are attached to the wrong atom types when the structure has atom types but no "
                                     "pair-coefficient table (structure loaded from CIF)"}
    return None


def main(tier, seed, replay=None):
    return run_replace_property(
        "C06", tier, seed, replay, ["theories/Properties/C06.v"], make_runs,
        rule="planted structures with pre-existing typed terms of all four kinds inside, across and outside the matched region -- including terms on "
             "exactly the atoms a pattern term maps to (forwards or reversed: must be superseded) and on the same atom set in another order (must "
             "survive) -- x replacement patterns carrying bonds/angles/dihedrals/impropers, coefficient tables (both sides or neither), extra columns; "
             "every 4th run is followed by a second replacement of a bystander site in the result; every 10th run is the CIF-like workflow (atom "
             "types, no pair table).  Compared: full state with the Coq model; terms with resolved coefficient text and atoms with resolved label / "
             "element / mass / pair text against the C06 statement.  Non-trivial = >= 1 match replaced and a term touched or atoms inserted.",
        assumptions=["match list and selection are inputs of the model"], extra=extra, known=known)


if __name__ == "__main__":
    sys.exit(main("quick", 1))
