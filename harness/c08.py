"""C08 -- self-replacement is a no-op and element substitutions are reversible."""
import sys
import collections
from fractions import Fraction

import numpy as np

import atoms_io as AIO
import findgen as FG
import replgen as RG
from replcheck import run_replace_property
from atoms_io import KINDS


def make_runs(run):
    n = 40 if run.tier == "quick" else 240
    runs = []
    k = 0
    while len(runs) < n and k < 30 * n:
        if k % 5 == 2:
            # mirror-symmetric, non-planar patterns far from the origin of a large cell (with their mirror-image decoys)
            p = RG.make_problem(run.rng, k, repl_mode="identical", flavor="decoys", with_terms=True, coeffs=(k % 2 == 0),
                                pattern=["mirrorsym5", "ch2f2", "chiral5", "weakchiral4"][(k // 5) % 4], big=True)
        else:
            p = RG.make_problem(run.rng, k, repl_mode="identical", flavor=["mixed", "corners", "antiparallel", "stretched"][k % 4], with_terms=True, coeffs=(k % 2 == 0),
                                cellkind=({1: "rot-ortho", 4: "mono-yz", 7: "rot-ortho"}.get(k % 9)))
        k += 1
        if p is None:
            continue
        # "identical pattern": the pattern carries no force-field term the structure does not already have
        for kn, *_ in KINDS:
            p["repl"][kn] = RG.empty_kind(coef=p["repl"][kn]["coef"])
        p["repl"]["xl"], p["repl"]["xf"] = [], [[] for _ in p["repl"]["pos"]]
        kind = "self"
        if k % 2 == 1 and len(p["repl"]["pos"]) >= 3 and p["case"]["name"] in ("asym4", "chiral5", "weakchiral4", "axis_asym4", "bent3_y"):
            # the pattern repeats ONE angle the structure already has on the matched atoms; the structure also has another angle on the
            # same three atoms (as in a three-ring): the set of angle tuples must not change
            S = p["S"]
            ang = S["angles"]
            for g in p["case"]["planted"]:
                for t in [(g[0], g[1], g[2]), (g[1], g[2], g[0])]:
                    if t not in ang["tup"] and t[::-1] not in ang["tup"]:
                        ang["tup"].append(t)
                        ang["typ"].append(0)
                        ang["xf"].append(["q"] * len(ang["xl"]))
            if p["coeffs"] and not ang["coef"]:
                ang["coef"] = ["sa0 1.5 #c0"]
            p["repl"]["angles"] = dict(tup=[(0, 1, 2)], typ=[0], coef=(["ra0 2.5 #c0"] if p["coeffs"] else []), xl=[], xf=[[]])
            kind = "self-with-own-angle"
        runs.append(dict(p=p, frac=Fraction(1), replace_all=(kind == "self-replace_all"), ignore=False, seed=run.rng.randrange(1 << 30),
                         parts=("outcome",), kind=kind))
    return runs


def same_crystal(A, B, cell, tol):
    """None if the two structures have the same multiset of (element, position modulo the lattice) within tol, else a message"""
    inv = np.linalg.inv(cell)
    ca = [(str(e), np.array(x) @ inv) for e, x in zip(A.elements, A.positions)]
    cb = [(str(e), np.array(x) @ inv) for e, x in zip(B.elements, B.positions)]
    if len(ca) != len(cb):
        return "atom count changed (%d -> %d)" % (len(ca), len(cb))
    used = set()
    for e, f in ca:
        hit = None
        for j, (e2, f2) in enumerate(cb):
            if j in used or e2 != e:
                continue
            d = f2 - f
            d = d - np.round(d)
            if np.abs(d @ cell).max() <= tol:
                hit = j
                break
        if hit is None:
            return "no atom %s at fractional %s (modulo the lattice) afterwards" % (e, np.round(f - np.floor(f), 4))
        used.add(hit)
    return None


def site_roundtrip(run, p, seed):
    """A -> B -> A on a single-site pattern; the structure contains no B beforehand"""
    from mofun import find_pattern_in_structure, replace_pattern_in_structure
    bad = []
    S = p["S"]
    els = [S["t_el"][t] for t in S["typ"]]
    A = run.rng.choice(sorted(set(els) - {"Rn"}))       # Rn bystanders are stored outside the box: outside the search's domain (atoms inside the cell)
    B = "Hf"
    sa = RG.mk_state([A], [(0, 0, 0)], None, run.rng, "a", False, xlabels=())
    sb = RG.mk_state([B], [(0, 0, 0)], None, run.rng, "b", False, xlabels=())
    with AIO.quiet():
        St = AIO.to_atoms(dict(S, t_pair=[], **{k: RG.empty_kind() for k, *_ in KINDS}))
        PA, PB = AIO.to_atoms(sa), AIO.to_atoms(sb)
        s1 = replace_pattern_in_structure(St, PA, PB)
        again = find_pattern_in_structure(s1, PA)
        s2 = replace_pattern_in_structure(s1, PB, PA)
        left = find_pattern_in_structure(s2, PB)
    run.cov["evaluations"] += 2
    run.count("kind=site-A-B-A")
    if len(again) != 0:
        bad.append("after replacing every %s by %s a second search for %s still finds %d" % (A, B, A, len(again)))
    if len(left) != 0:
        bad.append("after substituting back, %d %s atoms are left" % (len(left), B))
    msg = same_crystal(St, s2, np.array(S["cell"], float) / AIO.G, 1e-6)
    if msg:
        bad.append("A -> B -> A does not restore the multiset of (element, position modulo lattice): " + msg)
    return bad


def extra(r, res, run):
    bad = []
    p = r["p"]
    if res["outcome"] != "ok":
        return ["self-replacement ended with " + res["outcome"] + " " + res.get("error", "")]
    S = RG.fine_state(p["S"])
    out = res["out"]
    if len(out["pos"]) != len(S["pos"]):
        bad.append("atom count changed from %d to %d" % (len(S["pos"]), len(out["pos"])))
        return bad
    cell = np.array(p["S"]["cell"], float) / AIO.G
    inv = np.linalg.inv(cell)

    def key(st, i, scale):
        f = (np.array(st["pos"][i], float) / scale) @ inv
        f = f - np.floor(f + 1e-9)
        f = np.where(f > 1 - 1e-7, 0.0, f)
        return (st["t_el"][st["typ"][i]], st["chg"][i], st["grp"][i], tuple(np.round(f @ cell, 5)))
    a = collections.Counter(key(S, i, AIO.FINE) for i in range(len(S["pos"])))
    b = collections.Counter(key(out, i, AIO.FINE) for i in range(len(out["pos"])))
    if a != b:
        bad.append("positions / elements / charges / groups changed: %s vs %s" % (list((a - b).items())[:2], list((b - a).items())[:2]))
    if not r["replace_all"]:
        # term tuple sets by physical atom (position is unchanged, so identify atoms by their key)
        ka = [key(S, i, AIO.FINE) for i in range(len(S["pos"]))]
        kb = [key(out, i, AIO.FINE) for i in range(len(out["pos"]))]
        if len(set(ka)) == len(ka):
            for kn, *_ in KINDS:
                ta = collections.Counter(min(tuple(ka[v] for v in t), tuple(ka[v] for v in t[::-1])) for t in S[kn]["tup"])
                tb = collections.Counter(min(tuple(kb[v] for v in t), tuple(kb[v] for v in t[::-1])) for t in out[kn]["tup"])
                if ta != tb:
                    bad.append("%s atom tuples changed" % kn)
    if r["kind"] == "self" and run.rng.random() < 0.5:
        bad += site_roundtrip(run, p, r["seed"])
    if r["kind"] == "self" and len(p["search"]["pos"]) >= 2:
        bad += pattern_roundtrip(run, p, r["seed"])
    if r["kind"] == "self" and p["case"]["planted"]:
        bad += sliced_twice(run, p, r["seed"])
    return bad


def sliced_twice(run, p, seed):
    """two consecutive self-replacements with a pattern cut out of the structure itself (structure[indices] keeps the whole type table)"""
    from mofun import replace_pattern_in_structure
    import random
    bad = []
    S = p["S"]
    with AIO.quiet():
        St = AIO.to_atoms(dict(S, **{k: RG.empty_kind() for k, *_ in KINDS}))
        P = St[list(p["case"]["planted"][0])]
        random.seed(seed)
        np.random.seed(seed % (2 ** 32))
        s1 = replace_pattern_in_structure(St, P, P, atol=float(p["atol"]))
        s2 = replace_pattern_in_structure(s1, P, P, atol=float(p["atol"]))
    run.cov["evaluations"] += 2
    run.count("kind=sliced-pattern-twice")
    cell = np.array(S["cell"], float) / AIO.G
    for name, x in (("first", s1), ("second", s2)):
        msg = same_crystal(St, x, cell, 1e-6)
        if msg:
            bad.append("%s self-replacement with a pattern sliced from the structure changed it: %s" % (name, msg))
            break
    return bad


def pattern_roundtrip(run, p, seed):
    """A -> B -> A with the planted multi-atom pattern: B is the same pattern with its last atom's element changed to Hf, so the
    first atom is retained and the last one is re-inserted at the matched (possibly boundary-crossing) position"""
    from mofun import find_pattern_in_structure, replace_pattern_in_structure
    import random
    bad = []
    S = p["S"]
    A = dict(p["search"], **{k: RG.empty_kind() for k, *_ in KINDS})
    A["t_pair"] = []
    els = [A["t_el"][t] for t in A["typ"]]
    B = RG.mk_state(els[:-1] + ["Hf"], list(A["pos"]), None, run.rng, "b", False, xlabels=())
    A2 = RG.mk_state(els, list(A["pos"]), None, run.rng, "a", False, xlabels=())
    with AIO.quiet():
        St = AIO.to_atoms(dict(S, t_pair=[], **{k: RG.empty_kind() for k, *_ in KINDS}))
        PA, PB = AIO.to_atoms(A2), AIO.to_atoms(B)
        random.seed(seed)
        np.random.seed(seed % (2 ** 32))
        n0 = len(find_pattern_in_structure(St, PA, atol=float(p["atol"])))
        s1 = replace_pattern_in_structure(St, PA, PB, atol=float(p["atol"]))
        again = find_pattern_in_structure(s1, PA, atol=float(p["atol"]))
        s2 = replace_pattern_in_structure(s1, PB, PA, atol=float(p["atol"]))
        left = [e for e in s2.elements if e == "Hf"]
        # only half of the occurrences substituted, then all of the substituted ones substituted back
        h1 = replace_pattern_in_structure(St, PA, PB, atol=float(p["atol"]), replace_fraction=0.5)
        h2 = replace_pattern_in_structure(h1, PB, PA, atol=float(p["atol"]))
    run.cov["evaluations"] += 2
    run.count("kind=pattern-A-B-A")
    if n0 == 0:
        return bad
    if len(again) != 0:
        bad.append("after replacing all %d occurrences a second search for the original pattern still finds %d" % (n0, len(again)))
    if left:
        bad.append("after substituting back %d Hf atoms are left" % len(left))
    msg = same_crystal(St, s2, np.array(S["cell"], float) / AIO.G, 2 * float(p["atol"]) + 1e-6)
    if msg:
        bad.append("A -> B -> A (multi-atom pattern) does not restore the structure modulo the lattice within the tolerance: " + msg)
    msg = same_crystal(St, h2, np.array(S["cell"], float) / AIO.G, 2 * float(p["atol"]) + 1e-6)
    if msg:
        bad.append("substituting half of the occurrences and substituting them back does not restore the structure modulo the lattice within the tolerance: " + msg)
    return bad


def main(tier, seed, replay=None):
    return run_replace_property(
        "C08", tier, seed, replay, ["theories/Properties/C08.v"], make_runs,
        rule="planted structures with pre-existing terms; the search pattern replaced by an identical pattern (no terms of its own), (replace_all off: with replace_all "
             "the atoms are by definition re-created from the pattern, charges and groups included); single-site substitution A -> Hf -> A on the same structures with a search after each step.  Compared: full state with the Coq "
             "model; multiset of (element, charge, group, position modulo lattice), atom count and term tuple sets before/after; A->B->A multisets.  "
             "Non-trivial = >= 1 match replaced.",
        assumptions=["'identical pattern' = same atoms, no force-field term that the structure lacks (adding terms is the documented purpose of a pattern with terms)"],
        extra=extra)


if __name__ == "__main__":
    sys.exit(main("quick", 1))
