"""C17 -- bond detection equals the minimum-image covalent-radius rule."""
import contextlib
import io
import itertools
import json
import math
import re
import sys
import os

import numpy as np

import findgen as FG
from findgen import G
from common import Run, corpus, gal, N, Some


def read_tables(run):
    txt = open(os.path.join(run.rundir, "Tables.v")).read()
    body = txt.split("Definition covalent_radii")[1].split("].")[0]
    radii = {k: int(v) for k, v in re.findall(r'\("([^"]+)", \(?(-?\d+)\)?\)', body)}
    nm = re.findall(r'"([^"]+)"', txt.split("Definition non_metals")[1].split("].")[0])
    return radii, nm


def cutoff100(radii, nm, e1, e2):
    return radii[e1] + radii[e2] + (45 if (e1 in nm or e2 in nm) else 0)


def run_impl(elements, pos, cell, pre=None):
    """pre = (n0, factors): the structure is the replica of its first n0 atoms; the bonds of that unit were detected on the SAME object
    lineage before it was replicated (nothing of the first analysis may leak into the second)"""
    from mofun import Atoms
    from mofun.detect_bonds import detect_bonds
    from mofun.atomic_masses import ATOMIC_MASSES
    els = list(dict.fromkeys(elements))
    with FG.quiet():
        if pre is not None:
            n0, f = pre
            c0 = [[x // f[i] for x in cell[i]] for i in range(3)]
            u = Atoms(atom_types=[els.index(e) for e in elements[:n0]], atom_type_elements=els, atom_type_masses=[ATOMIC_MASSES.get(e, 1.0) for e in els],
                      atom_type_labels=els, positions=np.array(pos[:n0], float) / G, cell=np.array(c0, float) / G)
            try:
                detect_bonds(u)
            except Exception:   # noqa
                pass
            a = u.replicate(tuple(f))
            if len(a) != len(elements) or not np.allclose(np.array(a.positions) * G, np.array(pos, float), atol=1e-6):
                return ("error", "replicate did not give the expected replica")
        else:
            a = Atoms(atom_types=[els.index(e) for e in elements], atom_type_elements=els, atom_type_masses=[ATOMIC_MASSES.get(e, 1.0) for e in els],
                      atom_type_labels=els, positions=np.array(pos, float) / G, cell=(None if cell is None else np.array(cell, float) / G))
        try:
            b = detect_bonds(a)
        except Exception as e:   # noqa
            return ("error", "%s: %s" % (type(e).__name__, e))
    return [(int(i), int(j)) for i, j in np.array(b).reshape(-1, 2)]


def exact_bonds(radii, nm, elements, pos, cell):
    """the statement, brute force in exact integer arithmetic over images -2..2"""
    n = len(pos)
    out = []
    near = False
    offs = [(0, 0, 0)]
    if cell is not None:
        offs = [tuple(i * cell[0][d] + j * cell[1][d] + k * cell[2][d] for d in range(3)) for i in range(-2, 3) for j in range(-2, 3) for k in range(-2, 3)]
    for i in range(n):
        for j in range(i + 1, n):
            c = cutoff100(radii, nm, elements[i], elements[j])
            rhs = c * c * G * G
            best = min(sum((pos[i][d] + o[d] - pos[j][d]) ** 2 for d in range(3)) for o in offs)
            if best * 10000 == rhs or abs(math.sqrt(best) / G - c / 100.0) < 1e-9:
                near = True
            if best * 10000 < rhs:
                out.append((i, j))
    return out, near


def widths(cell):
    c = np.array(cell, float) / G
    vol = abs(np.linalg.det(c))
    return [vol / np.linalg.norm(np.cross(c[(i + 1) % 3], c[(i + 2) % 3])) for i in range(3)]


def rand_cell(rng, minw):
    for _ in range(200):
        L = [rng.uniform(minw + 0.03, minw + rng.choice([0.5, 6.0])) for _ in range(3)]
        cell = np.diag(L)
        kind = rng.choice(["ortho", "tric", "tric", "rot"])
        if kind != "ortho":
            for (i, j) in ((1, 0), (2, 0), (2, 1)):
                cell[i, j] = rng.choice([-1, 1]) * rng.uniform(0.05, 0.95) * L[j]
            cell *= rng.choice([1.0, 1.3])
        if kind == "rot":
            q = FG.rand_quat(rng)
            cell = cell @ FG.qrot(q).T
        ci = [[int(round(x * G)) for x in row] for row in cell]
        if np.linalg.det(np.array(ci, float)) < 0:
            ci[2] = [-x for x in ci[2]]
        if rng.random() < 0.2:
            # a left-handed basis (negative determinant): two vectors listed in swapped order, or one mirrored
            if rng.random() < 0.5:
                ci[0], ci[1] = ci[1], ci[0]
            else:
                k = rng.randrange(3)
                ci[k] = [-x for x in ci[k]]
            kind = kind + "-lefthanded"
        if min(widths(ci)) > minw + 0.02:
            return ci, kind
    raise RuntimeError("cell")


def wrap_int(p, cell):
    c = np.array(cell, float)
    inv = np.linalg.inv(c)
    p = np.array(p, float)
    for _ in range(3):
        f = np.floor(p @ inv + 1e-12)
        p = p - f @ c
    pi = [int(round(x)) for x in p]
    ff = np.array(pi, float) @ inv
    return pi, (ff.min() > 1e-9 and ff.max() < 1 - 1e-9)


def pair_cases(rng, radii, nm, pairs, minw, per_pair):
    """for each element pair: both sides of the cutoff, directly and through face / edge / corner images, and without a cell"""
    cases = []
    corner_ctr = [0]
    dirs = [((1, 0, 0), 1), ((0, 1, 0), 1), ((0, 0, 1), 1), ((3, 4, 0), 5), ((0, 3, 4), 5), ((2, 3, 6), 7), ((1, 4, 8), 9), ((-3, 0, 4), 5), ((2, -6, 3), 7)]
    for (e1, e2) in pairs:
        c = cutoff100(radii, nm, e1, e2)
        real = c * G / 100.0
        for rep in range(per_pair):
            (u, ul) = rng.choice(dirs)
            below = (math.ceil(real) - 1) // ul * ul
            above = (math.floor(real) // ul + 1) * ul
            for m, side in ((below, "below"), (above, "above")):
                d = [x * (m // ul) for x in u]
                corner_ctr[0] += 1
                for mode in [rng.choice(["cell-image", "cell-image", "cell-inside", "nocell"])] + (["across-face"] if side == "below" and rep == 0 else []) + \
                        (["corner"] if side == "below" and rep == 0 and corner_ctr[0] % 3 == 0 else []):
                    if mode == "nocell":
                        a = [rng.randrange(-20 * G, 20 * G) for _ in range(3)]
                        b = [a[i] + d[i] for i in range(3)]
                        cases.append(dict(els=[e1, e2], pos=[a, b], cell=None, kind="pair-%s-nocell" % side))
                        continue
                    # domain: every perpendicular width exceeds the largest cutoff among the elements present
                    third = rng.choice(list(radii)) if (rng.random() < 0.5 and mode != "across-face") else None
                    present = [e1, e2] + ([third] if third else [])
                    need = max(cutoff100(radii, nm, x, y) for x in present for y in present) / 100.0
                    cell, ck = rand_cell(rng, need * (2.6 if mode == "across-face" else 1.0))      # across-face: a roomy cell, the first atom is far from every face
                    cm = np.array(cell, float)
                    ok = False
                    for _ in range(30):
                        if mode == "cell-image":
                            fr = np.array([rng.choice([0.002, 0.998, rng.random()]) for _ in range(3)])
                        elif mode == "corner":
                            # the first atom just inside one of the eight corners, its partner beyond all three faces that meet there
                            # (bonded only through the diagonal image); corners are visited in turn
                            inv = np.linalg.inv(cm)
                            cn = [(corner_ctr[0] // 3 >> b) & 1 for b in range(3)]
                            uu, ull = rng.choice([((2, 3, 6), 7), ((1, 4, 8), 9), ((6, 2, 3), 7), ((4, 8, 1), 9), ((3, 6, 2), 7)])
                            dd = np.array([x * (m // ull) for x in uu], float)
                            best = None
                            for sg in itertools.product((1, -1), repeat=3):
                                dfr = (dd * np.array(sg)) @ inv
                                if all((dfr[t] > 0.004) == (cn[t] == 1) and abs(dfr[t]) > 0.004 for t in range(3)):
                                    best = [int(v) for v in dd * np.array(sg)]
                                    break
                            if best is None:
                                break
                            d = best
                            fr = np.array([0.998 if cn[t] else 0.002 for t in range(3)])
                        elif mode == "across-face":
                            # the first atom almost a full bond length inside the cell, its partner just beyond the face; when the a-b face is
                            # horizontal (orthorhombic and LAMMPS-oriented cells) the bond is put along its normal, so that the first atom
                            # is a full bond length away from that face
                            inv = np.linalg.inv(cm)
                            if cell[0][2] == 0 and cell[1][2] == 0:
                                d = [0, 0, (1 if cell[2][2] > 0 else -1) * (math.ceil(real) - 1)]
                            df = np.array(d, float) @ inv
                            ax = int(np.argmax(np.abs(df)))
                            fr = np.array([rng.uniform(0.2, 0.8) for _ in range(3)])
                            fr[ax] = (1.0 + rng.uniform(0.001, 0.01) - df[ax]) if df[ax] > 0 else (-rng.uniform(0.001, 0.01) - df[ax])
                        else:
                            fr = np.array([rng.uniform(0.3, 0.6) for _ in range(3)])
                        a, oka = wrap_int(fr @ cm, cell)
                        b, okb = wrap_int([a[i] + d[i] for i in range(3)], cell)
                        if oka and okb:
                            ok = True
                            break
                    if not ok:
                        continue
                    els, pos = [e1, e2], [a, b]
                    if rng.random() < (0.25 if mode == "across-face" else 0.5):      # listed the other way round
                        els, pos = [e2, e1], [b, a]
                    # a bystander of a random element somewhere
                    if third:
                        p3, ok3 = wrap_int(np.array([rng.random() for _ in range(3)]) @ cm, cell)
                        if ok3:
                            els = els + [third]
                            pos = pos + [p3]
                    cases.append(dict(els=els, pos=pos, cell=cell, kind="pair-%s-%s-%s" % (side, mode, ck)))
    return cases


def random_structs(rng, radii, nm, minw, n, sizes=None):
    cases = []
    common = [e for e in ["C", "H", "O", "N", "Zn", "Zr", "Cu", "S", "Cl", "Li", "Si", "F"] if e in radii]
    need = max(cutoff100(radii, nm, x, y) for x in common for y in common) / 100.0
    for it in range(n):
        k = rng.randint(3, 9) if sizes is None else sizes[it % len(sizes)]
        cell, ck = rand_cell(rng, need if k < 20 else max(need, (k * 9.0) ** (1 / 3.0)))
        cm = np.array(cell, float)
        els, pos = [], []
        for _ in range(k):
            p, ok = wrap_int(np.array([rng.random() for _ in range(3)]) @ cm, cell)
            if ok:
                els.append(rng.choice(common))
                pos.append(p)
        base = dict(els=els, pos=pos, cell=cell, kind="random-" + ck)
        cases.append(base)
        # metamorphic partners: shifted+wrapped, permuted (expected to follow the renaming; each is also checked exactly on its own)
        v = [int(x) for x in (np.array([rng.uniform(-1, 1) for _ in range(3)]) @ cm)]
        sp = []
        okall = True
        for p in pos:
            q, ok = wrap_int([p[i] + v[i] for i in range(3)], cell)
            okall &= ok
            sp.append(q)
        if okall:
            cases.append(dict(els=els, pos=sp, cell=cell, kind="random-shift+wrap", same_back=1))
        perm = list(range(len(els)))
        rng.shuffle(perm)
        cases.append(dict(els=[els[i] for i in perm], pos=[pos[i] for i in perm], cell=cell, kind="random-permuted", perm=perm, perm_back=(2 if okall else 1)))
        if it % 4 == 1 and len(els) <= 6:
            # the replica of this structure, built by replicate() from an object whose bonds were detected before
            f = rng.choice([(2, 1, 1), (1, 2, 1), (1, 1, 2), (2, 1, 2)])
            mults = [(0, 0, 0)] + [(i, j, k) for k in range(f[2]) for i in range(f[0]) for j in range(f[1]) if (i, j, k) != (0, 0, 0)]
            rp = [[p[d] + i * cell[0][d] + j * cell[1][d] + k * cell[2][d] for d in range(3)] for (i, j, k) in mults for p in pos]
            rc = [[x * f[r] for x in cell[r]] for r in range(3)]
            cases.append(dict(els=els * len(mults), pos=rp, cell=rc, kind="replica-of-analysed-unit", pre=[len(els), list(f)]))
    return cases


def main(tier, seed, replay=None):
    run = Run("C17", tier, seed)
    ok_tables = run.gen_tables()
    ok_static = run.build_static()
    run.grep_gate()
    found_input = False
    if ok_tables and ok_static:
        run.compile_property("theories/Properties/C17.v")
        run.compile_property("pertree/C17_tables.v")
        radii, nm = read_tables(run)
        minw = (2 * max(radii.values()) + 45) / 100.0
        cases = []
        if replay:
            r = json.load(open(replay))
            if "input" in r:
                cases.append(dict(r["input"], kind="replay"))
        for name, cj in corpus("C17"):
            cases.append(dict(cj, kind="corpus:" + name))
        if not replay:
            els = sorted(radii)
            allpairs = list(itertools.combinations_with_replacement(els, 2))
            if tier == "quick":
                pairs = run.rng.sample(allpairs, 300)
                # always include the metal / non-metal mixes that decide the 0.45 buffer
                pairs += [p for p in [("Zn", "O"), ("O", "Zn"), ("Zn", "Zn"), ("C", "C"), ("Li", "Li"), ("H", "H"), ("Zr", "O"), ("Cu", "N"), ("C", "Zn")] if p[0] in radii and p[1] in radii]
                per = 1
            else:
                pairs, per = allpairs, 2
            cases += pair_cases(run.rng, radii, nm, pairs, minw, per)
            cases += random_structs(run.rng, radii, nm, minw, 40 if tier == "quick" else 400)
            # thorough tier: a few structures with dozens of atoms (size-dependent code paths; the exact statement costs O(N^2 * 125) in Coq)
            if tier != "quick":
                cases += random_structs(run.rng, radii, nm, minw, 3, sizes=[30, 45, 60])
        lits = []
        kept = []
        skipped = 0
        results = {}
        for ci, c in enumerate(cases):
            exp, near = exact_bonds(radii, nm, c["els"], c["pos"], c["cell"])
            if near:
                skipped += 1
                continue
            got = run_impl(c["els"], c["pos"], c["cell"], pre=c.get("pre"))
            results[ci] = got
            run.cov["evaluations"] += 1
            run.count(c["kind"].split(":")[0])
            bad = None
            if isinstance(got, tuple):
                bad = "raised " + got[1]
            elif got != exp:
                bad = "detected %s, minimum-image rule gives %s" % (got, exp)
            elif "same_back" in c and (ci - c["same_back"]) in results and results[ci - c["same_back"]] != got:
                bad = "bonding changed under shift+wrap: %s vs %s" % (results[ci - c["same_back"]], got)
            elif "perm_back" in c and (ci - c["perm_back"]) in results and not isinstance(results[ci - c["perm_back"]], tuple):
                newidx = {old: new for new, old in enumerate(c["perm"])}
                ren = sorted(tuple(sorted((newidx[i], newidx[j]))) for i, j in results[ci - c["perm_back"]])
                if ren != sorted(got):
                    bad = "bonding does not follow the renaming: %s vs %s" % (ren, got)
            if bad:
                found_input = True
                run.violation("failing-input", {"input": {"els": c["els"], "pos": c["pos"], "cell": c["cell"], "grid": G}, "observed": bad,
                                                "expected": "exactly the pairs i<j whose minimum-image distance is below r_i + r_j (+0.45 if either is a non-metal)", "case_kind": c["kind"]})
            # non-trivial: some pair within 10% of its cutoff or bonded only through an image
            nt = False
            for i in range(len(c["els"])):
                for j in range(i + 1, len(c["els"])):
                    cc = cutoff100(radii, nm, c["els"][i], c["els"][j]) / 100.0
                    d0 = math.dist(c["pos"][i], c["pos"][j]) / G
                    if abs(d0 - cc) < 0.1 * cc or ((i, j) in exp and d0 >= cc):
                        nt = True
            if nt:
                run.nontrivial((c["els"], c["pos"], c["cell"]))
            cell = "None" if c["cell"] is None else "(Some %s)" % gal(tuple(tuple(r) for r in c["cell"]))
            obs = "None" if isinstance(got, tuple) else "(Some %s)" % gal([(N(i), N(j)) for i, j in got])
            lits.append("mk_case %s %s %s" % (cell, gal([(e, tuple(p)) for e, p in zip(c["els"], c["pos"])]), obs))
            kept.append(ci)
            if c["kind"].startswith("pair-below-cell-image"):
                run.sample({"elements": c["els"], "positions_A": [[x / G for x in p] for p in c["pos"]], "cell_A": [[x / G for x in r] for r in c["cell"]], "bonds": got})
        header = ("From Coq Require Import ZArith List String.\nFrom Mofun Require Import Model.Atoms Model.Geom Model.Bonds Corr.CorrLib Corr.C17.\n"
                  "From MofunGen Require Import Tables.\nImport ListNotations.\nOpen Scope Z_scope.\n"
                  "Definition failing := Corr.C17.failing covalent_radii non_metals.\nDefinition spec_failing := Corr.C17.spec_failing covalent_radii non_metals.\n"
                  "Definition explain_failing := Corr.C17.explain_failing covalent_radii non_metals.\n")
        failing = run.correspond("c17", header, lits, shard=60, spec=True)
        for f in failing:
            if f[0] == "case":
                run.notes.append("Coq-side disagreement on case %d (%s)" % (f[1], cases[kept[f[1]]]["kind"]))
        run.cov["near_boundary_skipped"] = skipped
        run.cov["largest_cutoff_A"] = minw
    run.settle_broken(found_input)
    return run.finish(
        rule="element pairs of the current radius table (quick: 300 sampled + fixed metal/non-metal mixes; thorough: all 4656 unordered pairs x 2) at the "
             "nearest grid distances below and above the cutoff along axis-parallel and oblique integer directions, bonded directly, through face / "
             "edge / corner images (atoms wrapped into cells whose perpendicular widths exceed the largest cutoff; orthorhombic, triclinic, rotated) "
             "or without a cell, in either listing order, with bystanders; random structures with their shifted+wrapped and permuted partners.  Each "
             "result is compared with the Coq model (27 images) and with the statement evaluated over 125 images in Coq and in exact Python integers.  "
             "Non-trivial = some pair within 10% of its cutoff or bonded only through an image.",
        exhaustive=(tier == "thorough"),
        assumptions=["float sqrt/comparison agrees with the exact comparison unless distance and cutoff are within 1e-9 A (such cases are skipped and counted)"],
        trusted_extra=["tools/gen_tables.py (fail-closed ast translator)"])


if __name__ == "__main__":
    sys.exit(main("quick", 1))
