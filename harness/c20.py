"""C20 -- the command line does exactly load, replicate, find/replace, save."""
import contextlib
import io
import json
import math
import os
import random as pyrandom
import re
import shutil
import subprocess
import sys

import numpy as np

import atoms_io as AIO
import findgen as FG
from common import Run, corpus, gal, GEN, COQ


def quiet():
    return contextlib.redirect_stderr(io.StringIO()), contextlib.redirect_stdout(io.StringIO())


def write_struct(path, els, pos, cell, fmt, charges=None):
    from mofun import Atoms
    o, e = quiet()
    with o, e:
        a = Atoms(elements=list(els), positions=np.array(pos, float), cell=(None if cell is None else np.array(cell, float)), charges=charges or [])
        if fmt == "cml":
            lines = ["<molecule>", "  <atomArray>"]
            for i, (el, p) in enumerate(zip(els, pos)):
                lines.append('    <atom id="a%d" elementType="%s" x3="%r" y3="%r" z3="%r" />' % (i + 1, el, float(p[0]), float(p[1]), float(p[2])))
            lines += ["  </atomArray>", "  <bondArray>", "  </bondArray>", "</molecule>"]
            open(path, "w").write("\n".join(lines) + "\n")
        else:
            a.save(path)


def gen_case(rng, k, workdir):
    """files + options of one command-line run"""
    d = os.path.join(workdir, "case%d" % k)
    os.makedirs(d, exist_ok=True)
    infmt = ["cif", "lmpdat", "cif", "lmpdat", "cif"][k % 5]
    outfmt = ["lmpdat", "cif", "lmpdat", "lmpdat"][(k // 3) % 4]
    c = None
    t = 0
    while c is None or not c["planted"]:
        # runs that will pass hints containing index 0 get copies stretched inside the tolerance: there the hints decide where atoms go
        c = FG.make_case(rng, k + 97 * t, flavor=("stretched" if (k % 6 in (0, 2, 4) and k % 2 == 0 and k % 4 != 0) else "mixed"), pattern=["pair", "asym4", "collinear3", "axis_asym4", "tri_sym3", "single", "bent3_y"][k % 7], big=(k % 4 == 1))
        t += 1
    els = list(c["els"])
    pos = np.array(c["pos"])
    cell = np.array(c["cell"])
    want_mic = (k % 4 == 0)
    if want_mic:
        # --mic needs an orthorhombic cell; make one axis divide 2*mic exactly
        L = np.array([25.0, rng.choice([10.0, 12.5]), 8.0 + rng.randrange(0, 4)])
        els = ["C", "N", "S", "O", "Zn"][: rng.randint(2, 5)]
        pos = np.array([[1.0 + 1.25 * i, 2.0, 3.0] for i in range(len(els))])
        cell = np.diag(L)
        c = dict(c, pel=["C", "N"], pp=np.array([[0, 0, 0], [1.25, 0, 0]]), hints=None)
    if k % 12 == 6:
        # a primitive one-atom cell (its charge file has a single line)
        els, pos, cell = ["Zn"], np.array([[1.0, 2.0, 3.0]]), np.diag([8.0, 9.0, 10.0])
        c = dict(c, pel=["Zn"], pp=np.array([[0.0, 0.0, 0.0]]), hints=None)
    # elements whose UFF key is easily confused (S / B / I) for --pp
    if k % 3 == 1:
        extra = ["S", "B", "I"][(k // 3) % 3]
        els = els + [extra]
        inv = np.linalg.inv(cell)
        for _ in range(400):
            p = np.array([rng.uniform(0.02, 0.98) for _ in range(3)]) @ cell
            if all(FG.min_image_dist(cell, inv, x, p) > 2.2 for x in pos):
                pos = np.vstack([pos, p])
                break
        else:
            els = els[:-1]
    # file names with more than one dot are ordinary file names: the type is what follows the LAST dot
    dotted = (k % 4 == 1)
    inp = os.path.join(d, ("in.v1.2." if dotted else "in.") + infmt)
    write_struct(inp, els, pos, cell, infmt)
    find = os.path.join(d, "find.cml")
    write_struct(find, c["pel"], c["pp"], None, "cml")
    opts = dict(inp=inp, out=os.path.join(d, ("out.0.50." if dotted else "out.") + outfmt), find=None, replace=None, frac=1.0, atol=0.05, ap1=None, ap2=None, op=None, dump=None, uc=None,
                charges=None, replicate=None, mic=None, framework=None, pp=False)
    mode = ["replace", "find-only", "replace", "convert", "replace", "replace-without-find"][k % 6]
    if mode in ("replace", "find-only"):
        opts["find"] = find
    if mode in ("replace", "replace-without-find"):
        rel = list(c["pel"])
        rel[-1] = "F"
        rp = np.array(c["pp"])
        if k % 2 == 0 and len(rel) > 0:
            rel = rel + ["H"]
            rp = np.vstack([rp, rp[0] + np.array([0.5, 0.75, 0.25])])
        rep = os.path.join(d, "replace.cml")
        write_struct(rep, rel, rp, None, "cml")
        opts["replace"] = rep
    if k % 2 == 1:
        opts["atol"] = 0.1
    if k % 5 == 2:
        opts["frac"] = rng.choice([0.0, 0.5, 0.34])
    if c.get("hints") and mode == "replace":
        opts["ap1"], opts["ap2"], opts["op"] = c["hints"]
    elif mode == "replace" and len(c["pel"]) >= 3 and k % 2 == 0 and not want_mic:
        # hints that contain atom index 0 (a valid index, not "no hint"), on copies that are not exact images of the pattern
        pp = np.array(c["pp"], float)
        for _ in range(30):
            tri = rng.sample(range(len(pp)), 3)
            if 0 not in tri:
                tri[rng.randrange(3)] = 0
            if len(set(tri)) == 3:
                ax = pp[tri[1]] - pp[tri[0]]
                if np.linalg.norm(np.cross(ax, pp[tri[2]] - pp[tri[0]])) > 0.3 * np.linalg.norm(ax):
                    opts["ap1"], opts["ap2"], opts["op"] = tri
                    break
    if k % 3 == 0 and (not want_mic or k % 8 == 0):
        # together with --mic: the minimum-image replication must be computed from the cell AFTER the explicit replication
        opts["replicate"] = rng.choice([(2, 1, 1), (1, 2, 1), (1, 1, 2), (2, 1, 2)])
    if want_mic:
        opts["mic"] = 12.5
    if k % 3 == 1:
        opts["pp"] = True
    if k % 4 == 2:
        ch = os.path.join(d, "charges.txt")
        open(ch, "w").write("\n".join("%.3f" % rng.uniform(-1, 1) for _ in els) + "\n\n")
        opts["charges"] = ch
    if k % 7 == 3:
        uc = os.path.join(d, "uc.cif")
        write_struct(uc, ["He"], [[0.5, 0.5, 0.5]], cell * 1.0, "cif")
        opts["uc"] = uc
    if k % 9 == 4:
        dump = os.path.join(d, "dump.lammpstrj")
        lines = ["ITEM: TIMESTEP", "0", "ITEM: NUMBER OF ATOMS", str(len(els)), "ITEM: BOX BOUNDS pp pp pp", "0 50", "0 50", "0 50", "ITEM: ATOMS id type x y z"]
        for i, p in enumerate(pos):
            lines.append("%d 1 %.6f %.6f %.6f" % (i + 1, p[0], p[1], p[2]))
        open(dump, "w").write("\n".join(lines) + "\n")
        opts["dump"] = dump
    return opts, mode


def cli_args(o):
    a = [o["inp"], o["out"]]
    if o["find"]:
        a += ["-f", o["find"]]
    if o["replace"]:
        a += ["-r", o["replace"]]
    if o["frac"] != 1.0:
        a += ["-p", repr(o["frac"])]
    if o["atol"] != 0.05:
        a += ["--atol", repr(o["atol"])]
    for flag, key in (("-ap1", "ap1"), ("-ap2", "ap2"), ("-op", "op")):
        if o[key] is not None:
            a += [flag, str(o[key])]
    if o["dump"]:
        a += ["--dumppath", o["dump"]]
    if o["uc"]:
        a += ["--extract-uc", o["uc"]]
    if o["charges"]:
        a += ["-q", o["charges"]]
    if o["replicate"]:
        a += ["--replicate"] + [str(x) for x in o["replicate"]]
    if o["mic"] is not None:
        a += ["--mic", repr(o["mic"])]
    if o["framework"]:
        a += ["--framework-element", o["framework"]]
    if o["pp"]:
        a += ["--pp"]
    return a


def run_cli(o, seed):
    from click.testing import CliRunner
    from mofun.cli.mofun_cli import mofun_cli
    pyrandom.seed(seed)
    np.random.seed(seed)
    r = CliRunner().invoke(mofun_cli, cli_args(o))
    return r


def run_plan(plan, tok, o, seed):
    """execute the plan obtained from Coq through the Python API"""
    import ase.io
    from mofun import Atoms, find_pattern_in_structure, replace_pattern_in_structure
    from mofun.rough_uff import assign_pair_coeffs
    pyrandom.seed(seed)
    np.random.seed(seed)
    atoms = None
    printed = None
    oq, eq = quiet()
    out_path = None
    with oq, eq:
        for c in plan:
            op = c[0]
            if op == 0:
                atoms = Atoms.load(tok[c[1]])
            elif op == 1:
                atoms.cell = Atoms.load(tok[c[1]]).cell
            elif op == 2:
                atoms.positions = ase.io.read(tok[c[1]], format="lammps-dump-text").positions
            elif op == 3:
                atoms.charges = np.array([float(l.strip()) for l in open(tok[c[1]]) if l.strip() != ""])
            elif op == 4:
                atoms = atoms.replicate(tuple(c[1:4]))
            elif op == 5:
                mic = tok[c[1]]
                if atoms.cell_is_orthorhombic():
                    atoms = atoms.replicate(tuple(int(math.ceil(2 * mic / x)) for x in np.diag(atoms.cell)))
            elif op == 6:
                assign_pair_coeffs(atoms, assign_atom_type_labels_from_elements=True)
            elif op == 7:
                printed = find_pattern_in_structure(atoms, Atoms.load(tok[c[1]]), atol=tok[c[2]])
            elif op == 8:
                h = [None if x == -1 else x for x in c[4:7]]
                atoms = replace_pattern_in_structure(atoms, Atoms.load(tok[c[1]]), Atoms.load(tok[c[2]]), atol=tok[c[3]],
                                                     axisp1_idx=h[0], axisp2_idx=h[1], opoint_idx=h[2], replace_fraction=tok[c[7]])
            elif op == 9:
                pass
            elif op == 10:
                raise NotImplementedError("framework element")
            elif op == 11:
                out_path = tok[c[1]] + ".api"
                base, ext = os.path.splitext(tok[c[1]])
                atoms.save(out_path, filetype=ext[1:])
    return out_path, printed


def get_plans(run, optlist):
    """one coqc call: the plan of every option record, as lists of integer lists"""
    path = os.path.join(run.rundir, "plans.v")
    with open(path, "w") as f:
        f.write("From Coq Require Import ZArith List.\nFrom Mofun Require Import Model.Cli Corr.C20.\nImport ListNotations.\nOpen Scope Z_scope.\n")
        for lit in optlist:
            f.write("Eval vm_compute in (plan_codes %s).\n" % lit)
    p = subprocess.run(["timeout", "600", "coqc", "-Q", os.path.join(COQ, "theories"), "Mofun", path], cwd=run.rundir, stdout=subprocess.PIPE, stderr=subprocess.STDOUT, text=True)
    ok = p.returncode == 0
    plans = []
    if ok:
        for m in re.finditer(r"=\s*(\[.*?\])\s*:\s*list \(list Z\)", p.stdout, re.S):
            body = m.group(1)
            plans.append([[int(x) for x in re.findall(r"-?\d+", g)] for g in re.findall(r"\[([^\[\]]*)\]", body)])
        ok = len(plans) == len(optlist)
    run.oblige("plans from Coq (vm_compute of Model.Cli.plan on %d option records)" % len(optlist), ok, p.stdout[-1500:] if not ok else "")
    return plans if ok else None


def main(tier, seed, replay=None):
    run = Run("C20", tier, seed)
    ok_static = run.build_static()
    run.grep_gate()
    found_input = False
    workdir = os.path.join(GEN, "cli-%d" % os.getpid())
    shutil.rmtree(workdir, ignore_errors=True)
    os.makedirs(workdir)
    try:
        if ok_static:
            run.compile_property("theories/Properties/C20.v")
            n = 168 if tier == "quick" else 840
            cases = [gen_case(run.rng, k, workdir) for k in range(n)]
            # the known finding: --framework-element
            fw_opts, _ = gen_case(run.rng, 10001, workdir)
            fw_opts["framework"] = "Xe"
            tok = {}
            rev = {}

            def T(v):
                if v is None:
                    return None
                key = repr(v)
                if key not in rev:
                    rev[key] = len(tok) + 100
                    tok[rev[key]] = v
                return rev[key]

            def optz(v):
                return "None" if v is None else "(Some %s)" % gal(T(v))
            lits = []
            for o, mode in cases:
                rep = "None" if o["replicate"] is None else "(Some (%d, %d, %d))" % tuple(o["replicate"])
                lits.append("(mk_options %d %d %s %s %d %d %s %s %s %s %s %s %s %s %s %s)" % (
                    T(o["inp"]), T(o["out"]), optz(o["find"]), optz(o["replace"]), T(o["frac"]), T(o["atol"]),
                    "None" if o["ap1"] is None else "(Some %d)" % o["ap1"], "None" if o["ap2"] is None else "(Some %d)" % o["ap2"],
                    "None" if o["op"] is None else "(Some %d)" % o["op"], optz(o["dump"]), optz(o["uc"]), optz(o["charges"]), rep, optz(o["mic"]),
                    optz(o["framework"]), "true" if o["pp"] else "false"))
            plans = get_plans(run, lits)
            if plans is not None:
                for (o, mode), plan in zip(cases, plans):
                    s = run.rng.randrange(1 << 30)
                    run.cov["evaluations"] += 1
                    run.count("mode=" + mode)
                    run.count("in=%s out=%s" % (os.path.splitext(o["inp"])[1], os.path.splitext(o["out"])[1]))
                    for key in ("replicate", "mic", "charges", "uc", "dump"):
                        if o[key] is not None:
                            run.count("option=" + key)
                    if o["pp"]:
                        run.count("option=pp")
                    if o["ap1"] is not None:
                        run.count("option=hints")
                    bad = []
                    r = run_cli(o, s)
                    try:
                        api_out, printed = run_plan(plan, tok, o, s)
                    except Exception as ex:      # noqa
                        api_out, printed = None, None
                        bad.append("executing the plan through the API raised %s: %s" % (type(ex).__name__, ex))
                    if r.exception is not None and not isinstance(r.exception, SystemExit):
                        bad.append("the command line raised %s: %s" % (type(r.exception).__name__, r.exception))
                    elif api_out is not None:
                        if not os.path.exists(o["out"]):
                            bad.append("the command line wrote no output file")
                        else:
                            a, b = open(o["out"]).read(), open(api_out).read()
                            if a != b:
                                bad.append("the file written by the command line differs from load -> ... -> save through the API with the same options and seed (%d vs %d bytes)" % (len(a), len(b)))
                        if printed is not None:
                            nums = [int(x) for x in re.findall(r"\d+", r.output.split("instances of the search_pattern in the structure")[-1])] if "Found" in r.output else None
                            want = [int(i) for m in printed for i in m]
                            cnt = re.search(r"Found (\d+) instances", r.output)
                            if cnt is None or int(cnt.group(1)) != len(printed) or nums is None or [x for x in nums if True][-len(want):] != want and want:
                                bad.append("find-only run reports %r, the API finds %s" % (r.output[-200:], [tuple(int(i) for i in m) for m in printed]))
                    if bad:
                        found_input = True
                        run.violation("failing-input", {"input": {"args": cli_args(o), "seed": s, "plan": plan}, "observed": bad[:4],
                                                        "expected": "same file as the API sequence given by the plan; same matches reported"})
                    nd = sum(1 for key in ("replicate", "mic", "charges", "uc", "dump", "ap1") if o[key] is not None) + int(o["pp"]) + int(o["atol"] != 0.05) + int(o["frac"] != 1.0)
                    if nd >= 2:
                        run.nontrivial(cli_args(o))
                    run.sample({"args": [os.path.basename(x) if os.path.sep in x else x for x in cli_args(o)], "plan": plan})
                # known finding D11
                r = run_cli(fw_opts, 1)
                run.cov["evaluations"] += 1
                if r.exception is not None and not isinstance(r.exception, SystemExit):
                    for kf in run.known:
                        if kf["id"] == "D11":
                            run.known_finding(kf, True, "--framework-element raises %s: %s" % (type(r.exception).__name__, str(r.exception)[:100]))
                else:
                    run.notes.append("known finding D11 (--framework-element) no longer reproduces")
    finally:
        shutil.rmtree(workdir, ignore_errors=True)
    run.settle_broken(found_input)
    return run.finish(
        rule="generated runs: input CIF / LAMMPS data, output LAMMPS data / CIF, find and replacement patterns as CML; modes replace, find-only, plain "
             "conversion, replace without find; options atol, replace fraction, hint indices, --replicate, --mic (cell lengths that divide 2*mic exactly and "
             "that do not), charge file, --pp on structures containing S / B / I, --extract-uc, --dumppath.  For every run the plan is computed by Coq "
             "(Model.Cli.plan), executed through the Python API with the same seeds, and the file written by the real entry point (click CliRunner, in "
             "process) must be byte-identical; find-only output must list the API's matches.  Non-trivial = >= 2 options at non-default values.",
        assumptions=["click's option parsing is trusted; the comparison starts from the parsed options", "--framework-element is a known finding (D11) and is exercised separately"])


if __name__ == "__main__":
    sys.exit(main("quick", 1))
