"""C11 -- extending a structure appends atoms and re-targets terms correctly."""
import itertools
import json
import sys

import atoms_io as AIO
from atoms_io import KINDS
from common import Run, corpus
from c09 import tagged, CELL, inj_maps


def resolved_atoms(st):
    out = []
    for i in range(len(st["pos"])):
        t = st["typ"][i]
        def tab(name):
            return st[name][t] if 0 <= t < len(st[name]) else "<type id %d has no %s entry>" % (t, name)
        out.append(dict(pos=tuple(st["pos"][i]), chg=st["chg"][i], grp=st["grp"][i], lab=tab("t_lab"), el=tab("t_el"),
                        mass=tab("t_mass"), pair=(tab("t_pair") if st["t_pair"] else None), typ=t,
                        xf=dict(zip(st["xl"], st["xf"][i]))))
    return out


def resolved_terms(st, k):
    kk = st[k]
    def text(ty):
        if not kk["coef"]:
            return None
        return kk["coef"][ty] if 0 <= ty < len(kk["coef"]) else "<type id %d has no coefficient entry>" % ty
    return [dict(tup=tuple(t), coef=text(ty), typ=ty, xf=dict(zip(kk["xl"], x)))
            for t, ty, x in zip(kk["tup"], kk["typ"], kk["xf"])]


def fill(d, labels):
    return {l: d.get(l, ".") for l in labels}


def oracle(st0, other, m, st1, shared_ids=False, times=1):
    """C11's statement on the implementation's output.  shared_ids: explicit zero offsets (type ids are shared)."""
    bad = []
    m = dict(m)
    n = len(st0["pos"])
    A0, AO, A1 = resolved_atoms(st0), resolved_atoms(other), resolved_atoms(st1)
    to_add = [i for i in range(len(other["pos"])) if i not in m]
    labels = list(st0["xl"]) + [l for l in other["xl"] if l not in st0["xl"]]
    if st1["xl"] != labels:
        bad.append("atom extra labels %s, expected %s" % (st1["xl"], labels))
    exp = []
    inv = {v: k for k, v in m.items()}
    for i, a in enumerate(A0):
        if i in inv:
            o = AO[inv[i]]
            e = dict(a)
            if shared_ids:
                e["typ"] = o["typ"]
            else:
                e.update(lab=o["lab"], el=o["el"], mass=o["mass"], pair=o["pair"])
            e["xf"] = fill(o["xf"], labels) if (labels and n > 0) else fill(a["xf"], labels)
        else:
            e = dict(a)
            e["xf"] = fill(a["xf"], labels)
        exp.append(e)
    phi = {}
    for rep in range(times):
        base = len(exp)
        phi[rep] = {}
        for j, i in enumerate(to_add):
            e = dict(AO[i])
            e["xf"] = fill(AO[i]["xf"], labels)
            exp.append(e)
            phi[rep][i] = base + j
        for k, v in m.items():
            phi[rep][k] = v
    keyf = (lambda a: (a["pos"], a["chg"], a["grp"], a["typ"], tuple(sorted(a["xf"].items())))) if shared_ids else \
        (lambda a: (a["pos"], a["chg"], a["grp"], a["lab"], a["el"], a["mass"], a["pair"], tuple(sorted(a["xf"].items()))))
    if [keyf(a) for a in A1] != [keyf(a) for a in exp]:
        for i, (g, e) in enumerate(zip(A1, exp)):
            if keyf(g) != keyf(e):
                bad.append("atom %d is %s, expected %s" % (i, keyf(g), keyf(e)))
                break
        if len(A1) != len(exp):
            bad.append("%d atoms, expected %d" % (len(A1), len(exp)))
    for k, *_ in KINDS:
        T0, TO, T1 = resolved_terms(st0, k), resolved_terms(other, k), resolved_terms(st1, k)
        klabels = list(st0[k]["xl"]) + [l for l in other[k]["xl"] if l not in st0[k]["xl"]]
        if st1[k]["xl"] != klabels:
            bad.append("%s extra labels %s, expected %s" % (k, st1[k]["xl"], klabels))
        cur = [dict(t, xf=fill(t["xf"], klabels)) for t in T0]
        for rep in range(times):
            new = [dict(t, tup=tuple(phi[rep][v] for v in t["tup"]), xf=fill(t["xf"], klabels)) for t in TO]
            if new:
                newt = set(t["tup"] for t in new) | set(t["tup"][::-1] for t in new)
                cur = [t for t in cur if t["tup"] not in newt] + new
        tk = (lambda t: (t["tup"], t["typ"], tuple(sorted(t["xf"].items())))) if shared_ids else \
            (lambda t: (t["tup"], t["coef"], tuple(sorted(t["xf"].items()))))
        if [tk(t) for t in T1] != [tk(t) for t in cur]:
            bad.append("%s are %s, expected %s" % (k, [tk(t)[:2] for t in T1][:6], [tk(t)[:2] for t in cur][:6]))
    return bad


def lengthen(frag):
    """the fragment's extra values are longer than every value the structure holds (a freshly built structure stores them in a fixed-width array)"""
    frag["xf"] = [[v + "-a-much-longer-value" for v in r] for r in frag["xf"]]
    for k, *_ in KINDS:
        frag[k]["xf"] = [[v + "-a-much-longer-value" for v in r] for r in frag[k]["xf"]]
    return frag


def term_configs(run, coeffs):
    """pairs (structure, fragment) with forward / reversed duplicates in every kind"""
    rng = run.rng
    out = []
    nconf = 3 if run.tier == "quick" else 12
    for c in range(nconf):
        base = tagged(rng, 4, "s", coeffs, cell=CELL, rich=True, max_terms=3)
        frag = tagged(rng, 3, "f", coeffs, rich=True, max_terms=2)
        if c % 2 == 1:
            lengthen(frag)
        out.append((base, frag))
    return out


def main(tier, seed, replay=None):
    run = Run("C11", tier, seed)
    ok_static = run.build_static()
    run.grep_gate()
    found_input = False
    if ok_static:
        run.compile_property("theories/Properties/C11.v")
        cases = []
        if replay:
            r = json.load(open(replay))
            if "input" in r:
                cases.append((r["input"]["init"], [tuple(o) for o in r["input"]["ops"]], "replay"))
        for name, c in corpus("C11"):
            cases.append((c["init"], [tuple(o) for o in c["ops"]], "corpus:" + name))
        if not replay:
            maps = inj_maps(3, 4)
            for coeffs in (True, False):
                for base, frag in term_configs(run, coeffs):
                    for m in maps:
                        cases.append((base, [("extend", frag, m)], "all-maps-default"))
                    # ids supplied as already shared: the fragment uses the structure's own type tables
                    shared = json.loads(json.dumps(frag))
                    for f in ("t_el", "t_mass", "t_lab", "t_pair"):
                        shared[f] = list(base[f])
                    shared["typ"] = [run.rng.randrange(len(base["t_el"])) for _ in shared["typ"]]
                    for k, *_ in KINDS:
                        shared[k]["coef"] = list(base[k]["coef"])
                        nty = len(base[k]["coef"]) or (max(base[k]["typ"]) + 1 if base[k]["typ"] else 1)
                        shared[k]["typ"] = [run.rng.randrange(nty) for _ in shared[k]["typ"]]
                        shared[k]["tup"] = [tuple(t) for t in shared[k]["tup"]]
                    shared["pos"] = [tuple(p) for p in shared["pos"]]
                    for m in maps[::7]:
                        cases.append((base, [("extend_offs", shared, (0, 0, 0, 0, 0), m)], "explicit-zero-offsets"))
                    cases.append((base, [("extend_twice", frag)], "twice-shared-offsets"))
                    # a caller that keeps one identity-map object and grafts the same fragment repeatedly
                    for m in [mm for mm in maps if 1 <= len(mm) <= 2][::5]:
                        cases.append((base, [("extend_shared", frag, m), ("extend_shared", frag, m)], "same-map-object-twice"))
                        cases.append((base, [("extend_shared", frag, m), ("del", [len(base["pos"])]), ("extend_shared", frag, m)], "same-map-object-after-delete"))
            # random larger pairs with extra columns (disjoint / overlapping / equal label sets, permuted label order)
            nrand = 60 if tier == "quick" else 600
            for i in range(nrand):
                coeffs = i % 2 == 0
                ns, no = run.rng.randint(1, 7), run.rng.randint(1, 5)
                base = tagged(run.rng, ns, "s", coeffs, cell=CELL, rich=True, max_terms=4)
                frag = tagged(run.rng, no, "f", coeffs, rich=True, max_terms=3)
                if i % 3 == 0:          # same label sets in a different column order
                    for side in [frag] + [frag[k] for k, *_ in KINDS]:
                        pass
                    frag["xl"] = ["gid"] + sorted(set(base["xl"][1:]) | set(frag["xl"][1:]), reverse=True)
                    frag["xf"] = [[r[0]] + ["%s%d" % (l, j) for l in frag["xl"][1:]] for j, r in enumerate(frag["xf"])]
                    base["xl"] = ["gid"] + sorted(frag["xl"][1:])
                    base["xf"] = [[r[0]] + ["b%s%d" % (l, j) for l in base["xl"][1:]] for j, r in enumerate(base["xf"])]
                    for k, *_ in KINDS:
                        kl = sorted(set(base[k]["xl"][1:]) | set(frag[k]["xl"][1:]))
                        base[k]["xl"] = ["tid"] + kl
                        base[k]["xf"] = [[r[0]] + ["b%s%d" % (l, j) for l in kl] for j, r in enumerate(base[k]["xf"])]
                        frag[k]["xl"] = ["tid"] + kl[::-1]
                        frag[k]["xf"] = [[r[0]] + ["f%s%d" % (l, j) for l in kl[::-1]] for j, r in enumerate(frag[k]["xf"])]
                if i % 4 == 1:
                    lengthen(frag)
                r = run.rng.randint(0, min(ns, no))
                m = list(zip(run.rng.sample(range(no), r), run.rng.sample(range(ns), r)))
                # make some fragment terms coincide (forwards / reversed / permuted) with existing ones through the map
                cases.append((base, [("extend", frag, m)], "random-pair"))
            # a structure and a fragment with dozens to hundreds of atoms and dozens of terms (size-dependent code paths)
            for rep in range(2 if tier == "quick" else 12):
                ns, no = run.rng.randint(120, 260), run.rng.randint(40, 90)
                base = tagged(run.rng, ns, "s", rep % 2 == 0, cell=CELL, rich=True, max_terms=40)
                frag = tagged(run.rng, no, "f", rep % 2 == 0, rich=True, max_terms=25)
                r = run.rng.randint(0, 30)
                m = list(zip(run.rng.sample(range(no), r), run.rng.sample(range(ns), r)))
                cases.append((base, [("extend", frag, m)], "random-pair-large"))
            # fragments of 9-20 atoms of which all but two to four are declared identical to atoms of the structure
            for rep in range(8 if tier == "quick" else 30):
                no = run.rng.randint(9, 20)
                ns = no + run.rng.randint(2, 6)
                base = tagged(run.rng, ns, "s", rep % 2 == 0, cell=CELL, rich=True, max_terms=4)
                frag = tagged(run.rng, no, "f", rep % 2 == 0, rich=True, max_terms=4)
                free = sorted(run.rng.sample(range(no), run.rng.randint(2, 4)))
                keys = [i for i in range(no) if i not in free]
                m = list(zip(keys, run.rng.sample(range(ns), len(keys))))
                cases.append((base, [("extend", frag, m)], "mostly-mapped"))
            # the structure has extra per-atom columns with values, the fragment has none at all
            for rep in range(3 if tier == "quick" else 20):
                base = tagged(run.rng, 5, "s", rep % 2 == 0, cell=CELL, rich=True, max_terms=2)
                frag = tagged(run.rng, 3, "f", rep % 2 == 0, rich=True, max_terms=2)
                frag["xl"], frag["xf"] = [], [[] for _ in frag["pos"]]
                for mm in ([(0, 1)], [(0, 2), (2, 4)], []):
                    cases.append((base, [("extend", frag, mm)], "fragment-without-atom-columns"))
            # targeted: the fragment carries impropers and the structure has other numbers of dihedral types than improper types
            for coeffs in (True, False):
                for rep in range(3):
                    base = tagged(run.rng, 5, "s", coeffs, cell=CELL, rich=True, max_terms=2)
                    frag = tagged(run.rng, 4, "f", coeffs, rich=True, max_terms=2)
                    nd, ni = [(1, 3), (3, 1), (2, 4)][rep]
                    for kn, cnt in (("dihedrals", nd), ("impropers", ni)):
                        kk = base[kn]
                        kk["tup"] = [tuple(run.rng.sample(range(5), 4)) for _ in range(cnt)]
                        kk["tup"] = list(dict.fromkeys(kk["tup"]))
                        kk["typ"] = list(range(len(kk["tup"])))
                        kk["xf"] = [["ts%s%d" % (kn[0], j)] + ["q"] * (len(kk["xl"]) - 1) for j in range(len(kk["tup"]))]
                        kk["coef"] = ["s%s%d #c" % (kn[0], j) for j in range(cnt)] if coeffs else []
                    frag["impropers"]["tup"] = [(0, 1, 2, 3), (1, 0, 3, 2)]
                    frag["impropers"]["typ"] = [0, 1]
                    frag["impropers"]["xf"] = [["tfi%d" % j] + ["q"] * (len(frag["impropers"]["xl"]) - 1) for j in range(2)]
                    frag["impropers"]["coef"] = ["fi0 #c", "fi1 #c"] if coeffs else []
                    cases.append((base, [("extend", frag, [])], "impropers-with-unequal-type-counts"))
                    cases.append((base, [("extend", frag, [(0, 2)])], "impropers-with-unequal-type-counts"))
            # targeted: same atom set in a different, non-reversed order must NOT be superseded
            for coeffs in (True, False):
                base = tagged(run.rng, 4, "s", coeffs, cell=CELL, rich=True, max_terms=1)
                frag = tagged(run.rng, 4, "f", coeffs, rich=True, max_terms=1)
                for k, t_, c_, x_, l_, ar in KINDS:
                    perms = list(itertools.permutations(range(ar)))
                    base[k]["tup"] = [tuple(range(ar)), tuple(perms[1 if ar == 2 else 2]), tuple(perms[-1])][:3 if ar > 2 else 1]
                    base[k]["tup"] = list(dict.fromkeys(t for t in base[k]["tup"]))
                    base[k]["typ"] = [0] * len(base[k]["tup"])
                    base[k]["xf"] = [["ts%s%d" % (k[0], j)] + ["q"] * (len(base[k]["xl"]) - 1) for j in range(len(base[k]["tup"]))]
                    frag[k]["tup"] = [tuple(range(ar))[::-1]]
                    frag[k]["typ"] = [0]
                    frag[k]["xf"] = [["tf%s0" % k[0]] + ["q"] * (len(frag[k]["xl"]) - 1)]
                    if coeffs and not frag[k]["coef"]:
                        frag[k]["coef"] = ["f%s0 #c" % k[0]]
                cases.append((base, [("extend", frag, [(0, 0), (1, 1), (2, 2), (3, 3)])], "same-atom-set-other-order"))
        I = AIO.Interner()
        lits = []
        for init, ops, kind in cases:
            st0, states = AIO.run_history(init, ops)
            run.cov["evaluations"] += 1
            run.count(kind.split(":")[0])
            op = ops[0]
            s = states[0]
            if isinstance(s, tuple):
                bad = ["raised " + s[1]]
            elif op[0] in ("extend", "extend_shared"):
                bad = oracle(st0, op[1], op[2], s)
                if not bad and len(ops) == 2 and ops[1][0] == "extend_shared" and len(states) == 2:
                    bad = ["second use of the same map object: " + b for b in
                           ((["raised " + states[1][1]]) if isinstance(states[1], tuple) else oracle(s, ops[1][1], ops[1][2], states[1]))]
            elif op[0] == "extend_offs":
                bad = oracle(st0, op[1], op[3], s, shared_ids=True)
            elif op[0] == "extend_twice":
                bad = oracle(st0, op[1], [], s, times=2)
            else:
                bad = []
            if bad:
                found_input = True
                run.violation("failing-input", {"input": {"init": init, "ops": [list(o) for o in ops]}, "observed": bad[:5],
                                                "expected": "other's atoms appended in order (mapped ones adopt type and extra fields), every term of other between the corresponding atoms resolving to other's coefficient text, same-atom terms superseded forwards/backwards only, extra columns merged by label with '.'",
                                                "case_kind": kind})
            mm = op[2] if op[0] in ("extend", "extend_shared") else (op[3] if op[0] == "extend_offs" else [])
            if mm or any(st0[k]["tup"] and op[1][k]["tup"] for k, *_ in KINDS):
                run.nontrivial((init, [list(o) for o in ops]))
            lits.append(AIO.case_literal(st0, ops, states, I))
            if kind == "random-pair":
                run.sample({"n_self": len(st0["pos"]), "n_other": len(op[1]["pos"]), "map": mm, "self_bonds": st0["bonds"]["tup"], "other_bonds": op[1]["bonds"]["tup"]})
        failing = run.correspond("c11", AIO.ATOMS_HEADER, lits, shard=120)
        for f in failing:
            if f[0] == "case":
                run.notes.append("model/implementation disagreement on case %d (%s)" % (f[1], cases[f[1]][2]))
    run.settle_broken(found_input)
    return run.finish(
        rule="all partial injective identity maps from a 3-atom fragment into a 4-atom structure x generated term configurations (all four kinds, "
             "extra columns) x {default type merging, explicit zero offsets, extending twice with the offsets of one extend_types}, with and without "
             "coefficient tables; random larger pairs including equal label sets in permuted column order; terms on the same atom set in another "
             "non-reversed order.  Non-trivial = non-empty identity map or both sides have terms of some kind.",
        exhaustive=True,
        assumptions=["numpy aliasing is exercised, not modelled"])


if __name__ == "__main__":
    sys.exit(main("quick", 1))
