"""C19 -- term enumeration is complete and term typing depends only on UFF types."""
import collections
import contextlib
import io
import itertools
import json
import sys

import numpy as np

from common import Run, corpus, gal, N, Some

POOL = ["H_", "C_3", "C_2", "C_R", "C_1", "N_3", "N_R", "N_2", "N_1", "O_3", "O_2", "O_R", "O_1", "S_3+2", "Zr3+4", "Cu4+2", "Zn3+2", "F_", "Cl", "B_2", "P_3+3", "Si3"]


def quiet():
    return contextlib.redirect_stdout(io.StringIO()), contextlib.redirect_stderr(io.StringIO())


def norm_tuple(t):
    t = tuple(int(x) for x in t)
    return min(t, t[::-1])


def brute_angles(bonds):
    und = set(frozenset(b) for b in bonds if b[0] != b[1])
    und = [tuple(sorted(x)) for x in und]
    out = collections.Counter()
    for b1, b2 in itertools.combinations(und, 2):
        sh = set(b1) & set(b2)
        if len(sh) == 1:
            n = next(iter(sh))
            a = (set(b1) - sh).pop()
            b = (set(b2) - sh).pop()
            out[norm_tuple((a, n, b))] += 1
    return out


def brute_dihedrals(bonds):
    und = set(frozenset(b) for b in bonds if b[0] != b[1])
    adj = collections.defaultdict(set)
    for x in und:
        a, b = tuple(x)
        adj[a].add(b)
        adj[b].add(a)
    out = collections.Counter()
    for x in und:
        j, k = sorted(x)
        for i in adj[j] - {k}:
            for l in adj[k] - {j}:
                out[norm_tuple((i, j, k, l))] += 1
    return out


def has_triangle(bonds):
    und = set(frozenset(b) for b in bonds)
    nodes = sorted(set(v for b in bonds for v in b))
    for a, b, c in itertools.combinations(nodes, 3):
        if frozenset((a, b)) in und and frozenset((b, c)) in und and frozenset((a, c)) in und:
            return True
    return False


def all_graphs(n):
    """all triangle-free graphs on exactly n labelled atoms in which every atom has a bond"""
    pairs = list(itertools.combinations(range(n), 2))
    for r in range(1, len(pairs) + 1):
        for es in itertools.combinations(pairs, r):
            if set(v for e in es for v in e) != set(range(n)):
                continue
            if has_triangle(es):
                continue
            yield list(es)


def random_graph(rng, kind):
    n = rng.randint(4, 14)
    bonds = []
    if kind == "large":
        # a polymer-like tree with a few dozen atoms and some six-rings (size-dependent code paths)
        n = rng.randint(40, 70)
        for i in range(1, n):
            bonds.append((rng.randrange(max(0, i - 4), i), i))
        for r in range(3):
            b0 = n + 6 * r
            bonds += [(b0 + i, b0 + (i + 1) % 6) for i in range(6)] + [(rng.randrange(n), b0)]
        return [b for b in bonds if b[0] != b[1]] if not has_triangle(bonds) else random_graph(rng, "chain")
    if kind == "chain":
        bonds = [(i, i + 1) for i in range(n - 1)]
    elif kind == "branched":
        for i in range(1, n):
            bonds.append((rng.randrange(i), i))
    elif kind == "ring":
        n = max(n, 4)
        bonds = [(i, (i + 1) % n) for i in range(n)]
    elif kind == "ring-assembly":
        a = rng.randint(4, 6)
        b = rng.randint(4, 6)
        bonds = [(i, (i + 1) % a) for i in range(a)] + [(a + i, a + (i + 1) % b) for i in range(b)] + [(0, a)]
        if rng.random() < 0.5:      # fused: share an edge instead
            bonds = [(i, (i + 1) % a) for i in range(a)] + [(0, a), (a, a + 1), (a + 1, 1)]
    elif kind == "metal-node":
        m = rng.randint(3, 6)
        bonds = [(0, i) for i in range(1, m + 1)] + [(i, m + i) for i in range(1, m + 1)]
    elif kind == "disconnected":
        bonds = [(0, 1), (1, 2), (3, 4), (4, 5), (5, 6), (6, 3)]
    bonds = [b for b in bonds if b[0] != b[1]]
    if has_triangle(bonds):
        return random_graph(rng, "chain")
    return bonds


def scramble(rng, bonds):
    out = []
    for b in bonds:
        out.append(b if rng.random() < 0.5 else (b[1], b[0]))
        if rng.random() < 0.2:
            out.append((b[1], b[0]))
    rng.shuffle(out)
    return out


def safe_pool():
    """pairs of centre types for which dihedral_params does not raise (outside that the code refuses by design)"""
    from mofun.rough_uff import dihedral_params
    ok = {}
    o, e = quiet()
    with o, e:
        for a in POOL:
            for b in POOL:
                try:
                    dihedral_params("H_", a, b, "H_")
                    ok[(a, b)] = True
                except Exception:
                    ok[(a, b)] = False
    return ok


def run_impl(bonds_in, n, uff, exclude, rng):
    """all observations of one case"""
    from mofun import Atoms
    from mofun import rough_uff as ru
    o, e = quiet()
    with o, e:
        angles = [tuple(int(x) for x in t) for t in np.array(ru.calc_angles(bonds_in)).reshape(-1, 3)]
        dihedrals = [tuple(int(x) for x in t) for t in np.array(ru.calc_dihedrals(bonds_in)).reshape(-1, 4)]
        bond_terms = sorted(set(tuple(sorted(b)) for b in bonds_in))
        rng.shuffle(bond_terms)
        bond_terms = [b if rng.random() < 0.5 else b[::-1] for b in bond_terms]

        def fresh():
            return Atoms(elements=["C"] * n, positions=[[float(i), 0, 0] for i in range(n)], bonds=bond_terms, bond_types=[0] * len(bond_terms),
                         angles=angles, angle_types=[0] * len(angles), dihedrals=dihedrals, dihedral_types=[0] * len(dihedrals))
        a = fresh()
        ex = None if exclude is None else set(exclude)
        ru.assign_bond_types(a, uff, exclude=ex)
        ru.assign_angle_types(a, uff, exclude=ex)
        ru.assign_dihedral_types(a, uff, exclude=ex)
        ru.retype_atoms_from_uff_types(a, uff)
    return dict(angles=angles, dihedrals=dihedrals, bond_terms=bond_terms,
                bonds_after=[tuple(int(x) for x in t) for t in np.array(a.bonds).reshape(-1, 2)], bond_types=[int(x) for x in a.bond_types], bond_coeffs=list(a.bond_type_coeffs),
                angles_after=[tuple(int(x) for x in t) for t in np.array(a.angles).reshape(-1, 3)], angle_types=[int(x) for x in a.angle_types], angle_coeffs=list(a.angle_type_coeffs),
                dih_after=[tuple(int(x) for x in t) for t in np.array(a.dihedrals).reshape(-1, 4)], dih_types=[int(x) for x in a.dihedral_types], dih_coeffs=list(a.dihedral_type_coeffs),
                labels=list(a.atom_type_labels), elements=list(a.atom_type_elements), masses=[float(m) for m in a.atom_type_masses], atom_types=[int(t) for t in a.atom_types])


def tkey(seq):
    seq = tuple(seq)
    return min(seq, seq[::-1]) if seq[::-1] <= seq else seq


def pykey(seq):
    seq = tuple(seq)
    rev = seq[::-1]
    return rev if rev <= seq else seq


def oracle(bonds_in, n, uff, exclude, obs):
    """the C19 statement evaluated on the implementation's output"""
    from mofun import rough_uff as ru
    from mofun.atomic_masses import ATOMIC_MASSES
    bad = []
    ea, ed = brute_angles(bonds_in), brute_dihedrals(bonds_in)
    ga = collections.Counter(norm_tuple(t) for t in obs["angles"])
    gd = collections.Counter(norm_tuple(t) for t in obs["dihedrals"])
    if ga != ea:
        bad.append("angles: missing %s, extra/duplicated %s" % (list((ea - ga))[:3], list((ga - ea))[:3]))
    if gd != ed:
        bad.append("dihedrals: missing %s, extra/duplicated %s" % (list((ed - gd))[:3], list((gd - ed))[:3]))
    ex = None if exclude is None else set(exclude)

    def kept(terms, ar):
        if ex is not None and len(ex) >= ar:
            return [t for t in terms if not set(t) <= ex]
        return list(terms)
    o, e = quiet()
    # bonds and angles
    for name, terms, after, types, coeffs, ar, fn in (("bond", obs["bond_terms"], obs["bonds_after"], obs["bond_types"], obs["bond_coeffs"], 2, ru.bond_params),
                                                       ("angle", obs["angles"], obs["angles_after"], obs["angle_types"], obs["angle_coeffs"], 3, ru.angle_params)):
        exp_terms = kept(terms, ar)
        if [tuple(t) for t in after] != [tuple(t) for t in exp_terms]:
            bad.append("%ss after exclusion are %s, expected %s" % (name, after[:4], exp_terms[:4]))
            continue
        keys = [pykey([uff[v] for v in t]) for t in after]
        for i in range(len(keys)):
            for j in range(i + 1, len(keys)):
                if (types[i] == types[j]) != (keys[i] == keys[j]):
                    bad.append("%s %d and %d: same type %s but same key %s" % (name, i, j, types[i] == types[j], keys[i] == keys[j]))
                    break
        if types and max(types) >= len(coeffs):
            bad.append("%s type id without coefficient" % name)
            continue
        for t, k in zip(types, keys):
            with o, e:
                # a fresh "unknown bond orders" argument for every evaluation: the expected value depends on the sequence only,
                # never on what was evaluated before
                p = fn(*k) if name == "bond" else fn(*k, bond_orders=[None, None])
            if name == "bond":
                want = '%10.6f %10.6f # %s %s' % (*p, *k)
            else:
                want = ru.angle2lammpsdat((*p, "%s %s %s" % k))
            if coeffs[t] != want:
                bad.append("%s type %d has coefficients %r, its sequence %s gives %r" % (name, t, coeffs[t], k, want))
                break
    # dihedrals
    cnt = collections.Counter(pykey([t[1], t[2]]) for t in obs["dihedrals"])
    exp = []
    for t in kept(obs["dihedrals"], 4):
        k = pykey([uff[v] for v in t]) + (cnt[pykey([t[1], t[2]])],)
        with o, e:
            p = ru.dihedral_params(*k)
        if p is not None:
            exp.append((tuple(t), k, p))
    if [tuple(t) for t in obs["dih_after"]] != [t for t, _, _ in exp]:
        bad.append("dihedrals kept are %s, expected %s" % (obs["dih_after"][:4], [t for t, _, _ in exp][:4]))
    else:
        types = obs["dih_types"]
        for i in range(len(exp)):
            for j in range(i + 1, len(exp)):
                if (types[i] == types[j]) != (exp[i][1] == exp[j][1]):
                    bad.append("dihedral %d and %d: same type %s but same key %s" % (i, j, types[i] == types[j], exp[i][1] == exp[j][1]))
                    break
        for ty, (t, k, p) in zip(types, exp):
            want = '%s %10.6f %d %d # %s %s %s %s M=%d' % (*p, *k)
            if ty >= len(obs["dih_coeffs"]) or obs["dih_coeffs"][ty] != want:
                bad.append("dihedral type %d has coefficients %r, its sequence gives %r" % (ty, obs["dih_coeffs"][ty] if ty < len(obs["dih_coeffs"]) else None, want))
                break
    # retyping
    for i in range(n):
        t = obs["atom_types"][i]
        if t >= len(obs["labels"]) or obs["labels"][t] != uff[i]:
            bad.append("atom %d has label %s, UFF type %s" % (i, obs["labels"][t] if t < len(obs["labels"]) else None, uff[i]))
            break
        el = uff[i][0:2].replace("_", "")
        if obs["elements"][t] != el or abs(obs["masses"][t] - ATOMIC_MASSES[el]) > 1e-12:
            bad.append("atom %d: type table says %s / %s, UFF type %s" % (i, obs["elements"][t], obs["masses"][t], uff[i]))
            break
    return bad


def per_term_coeffs(obs):
    out = {}
    out["bond"] = collections.Counter((norm_tuple(t), obs["bond_coeffs"][ty]) for t, ty in zip(obs["bonds_after"], obs["bond_types"]))
    out["angle"] = collections.Counter((norm_tuple(t), obs["angle_coeffs"][ty]) for t, ty in zip(obs["angles_after"], obs["angle_types"]))
    out["dih"] = collections.Counter((norm_tuple(t), obs["dih_coeffs"][ty]) for t, ty in zip(obs["dih_after"], obs["dih_types"]))
    return out


def main(tier, seed, replay=None):
    run = Run("C19", tier, seed)
    ok_static = run.build_static()
    run.grep_gate()
    found_input = False
    if ok_static:
        run.compile_property("theories/Properties/C19.v")
        okpairs = safe_pool()
        cases = []
        if replay:
            r = json.load(open(replay))
            if "input" in r:
                i = r["input"]
                cases.append((i["bonds"], i["n"], i["uff"], i["exclude"], "replay"))
        for name, cj in corpus("C19"):
            cases.append(([tuple(b) for b in cj["bonds"]], cj["n"], cj["uff"], cj["exclude"], "corpus:" + name))
        rng = run.rng

        def types_for(bonds, n):
            for _ in range(200):
                uff = [rng.choice(POOL) for _ in range(n)]
                if all(okpairs[(uff[a], uff[b])] and okpairs[(uff[b], uff[a])] for a, b in bonds):
                    return uff
            return ["C_3"] * n
        if not replay:
            sizes = [2, 3, 4] if tier == "quick" else [2, 3, 4, 5]
            for n in sizes:
                for g in all_graphs(n):
                    reps = 1 if (tier == "quick" and n == 4) else 2
                    for _ in range(reps):
                        cases.append((scramble(rng, g), n, types_for(g, n), None, "exhaustive-n%d" % n))
            nrand = 90 if tier == "quick" else 1500
            kinds = ["chain", "branched", "ring", "ring-assembly", "metal-node", "disconnected"]
            for i in range(2 if tier == "quick" else 10):
                g = random_graph(rng, "large")
                n = max(v for b in g for v in b) + 1
                cases.append((scramble(rng, g), n, types_for(g, n), (None if i % 2 else rng.sample(range(n), 5)), "random-large"))
            for i in range(nrand):
                g = random_graph(rng, kinds[i % len(kinds)])
                n = max(v for b in g for v in b) + 1
                # few distinct types so that many terms share a type
                uff = types_for(g, n)
                if i % 2 == 0:
                    pal = rng.sample(POOL, 3)
                    cand = [rng.choice(pal) for _ in range(n)]
                    if all(okpairs[(cand[a], cand[b])] and okpairs[(cand[b], cand[a])] for a, b in g):
                        uff = cand
                ex = None
                if i % 3 == 0:
                    ex = rng.sample(range(n), rng.randint(2, min(n, 6)))
                cases.append((scramble(rng, g), n, uff, ex, "random-" + kinds[i % len(kinds)]))
                if i % 3 == 1:
                    # a rigid fragment: the exclusion set is exactly the atoms of one bond / angle / dihedral, or that plus one more atom
                    for ar, terms in ((2, [tuple(b) for b in g]), (3, list(brute_angles(g))), (4, list(brute_dihedrals(g)))):
                        if terms:
                            t = rng.choice(sorted(terms))
                            cases.append((scramble(rng, g), n, uff, sorted(set(t)), "exclude-exactly-%d" % ar))
                            if i % 6 == 1 and n > ar:
                                extra = rng.choice([v for v in range(n) if v not in t])
                                cases.append((scramble(rng, g), n, uff, sorted(set(t) | {extra}), "exclude-term-plus-one"))
        ranks = {s: i for i, s in enumerate(sorted(POOL))}
        lits = []
        for bonds_in, n, uff, ex, kind in cases:
            bonds_in = [tuple(b) for b in bonds_in]
            obs = run_impl(bonds_in, n, uff, ex, rng)
            run.cov["evaluations"] += 1
            run.count(kind.split(":")[0])
            run.count("exclude=%s" % (ex is not None))
            bad = oracle(bonds_in, n, uff, ex, obs)
            # metamorphic: atoms renamed, bond / term lists permuted -> every term keeps its coefficients
            perm = list(range(n))
            rng.shuffle(perm)
            b2 = scramble(rng, [(perm[a], perm[b]) for a, b in bonds_in])
            uff2 = [None] * n
            for i in range(n):
                uff2[perm[i]] = uff[i]
            ex2 = None if ex is None else [perm[i] for i in ex]
            obs2 = run_impl(b2, n, uff2, ex2, rng)
            run.cov["evaluations"] += 1
            c1, c2 = per_term_coeffs(obs), per_term_coeffs(obs2)
            for name in c1:
                ren = collections.Counter((norm_tuple(tuple(perm[v] for v in t)), co) for (t, co), m in c1[name].items() for _ in range(m))
                if ren != c2[name]:
                    bad.append("%s coefficients change under renaming of atoms / reordering of the lists" % name)
            if bad:
                found_input = True
                run.violation("failing-input", {"input": {"bonds": bonds_in, "n": n, "uff": uff, "exclude": ex}, "observed": bad[:6],
                                                "expected": "every pair of bonds sharing an atom / every chain i-j-k-l exactly once; same type <=> same UFF sequence up to reversal (+ torsion count); coefficients of that sequence; exclusion honoured; invariant under renaming",
                                                "case_kind": kind})
            if obs["angles"] and obs["dihedrals"] and len(set(obs["bond_types"])) < len(obs["bond_types"]):
                run.nontrivial((sorted(set(tuple(sorted(b)) for b in bonds_in)), uff, ex))
            # Gallina case
            dead = []
            cnt = collections.Counter(pykey([t[1], t[2]]) for t in obs["dihedrals"])
            from mofun import rough_uff as ru
            o, e = quiet()
            seen = set()
            for t in obs["dihedrals"]:
                k = pykey([uff[v] for v in t]) + (cnt[pykey([t[1], t[2]])],)
                if k in seen:
                    continue
                seen.add(k)
                with o, e:
                    if ru.dihedral_params(*k) is None:
                        dead.append([N(ranks[s]) for s in k[:4]] + [N(k[4])])

            def keylist(coeffs, arity, with_m=False):
                out = []
                for c in coeffs:
                    names = c.split("#")[1].split()
                    ks = [N(ranks[s]) for s in names[:arity]]
                    if with_m:
                        ks.append(N(int(names[arity].split("=")[1])))
                    out.append(ks)
                return out
            lits.append("mk_case %s %s %s %s %s %s %s %s %s %s" % (
                gal([(N(a), N(b)) for a, b in bonds_in]), gal([[N(v) for v in t] for t in obs["angles"]]), gal([[N(v) for v in t] for t in obs["dihedrals"]]),
                gal([N(ranks[s]) for s in uff]), gal(None if ex is None else Some([N(v) for v in ex])),
                gal([[N(v) for v in t] for t in obs["bond_terms"]]),
                gal(([[N(v) for v in t] for t in obs["bonds_after"]], [N(t) for t in obs["bond_types"]], keylist(obs["bond_coeffs"], 2))),
                gal(([[N(v) for v in t] for t in obs["angles_after"]], [N(t) for t in obs["angle_types"]], keylist(obs["angle_coeffs"], 3))),
                gal(dead),
                gal(([[N(v) for v in t] for t in obs["dih_after"]], [N(t) for t in obs["dih_types"]], keylist(obs["dih_coeffs"], 4, True)))))
            if kind.startswith("random-ring"):
                run.sample({"bonds": bonds_in, "uff": uff, "exclude": ex, "n_angles": len(obs["angles"]), "n_dihedrals": len(obs["dihedrals"]), "bond_types": obs["bond_types"]})
        header = "From Coq Require Import List Arith.\nFrom Mofun Require Import Model.Terms Corr.CorrLib Corr.C19.\nImport ListNotations.\n"
        failing = run.correspond("c19", header, lits, shard=80)
        for f in failing:
            if f[0] == "case":
                run.notes.append("model/implementation disagreement on case %d (%s)" % (f[1], cases[f[1]][4]))
    run.settle_broken(found_input)
    return run.finish(
        rule="all triangle-free bond graphs on 2-4 (thorough: 2-5) labelled atoms in which every atom has a bond, each with scrambled bond order, direction "
             "and duplicated bonds; random chains, branched graphs, rings, ring assemblies (bridged and fused), metal nodes and disconnected graphs up to 14 "
             "atoms; random UFF type assignments (22 types, also few-type palettes so that many terms share a type), exclusion sets; every case is re-run with "
             "atoms renamed and lists permuted.  Compared: enumeration and typing with the Coq model; multisets with brute force; coefficient text with the "
             "parameters of each term's own type sequence.  Non-trivial = >= 1 angle, >= 1 dihedral and two bonds sharing a type.",
        exhaustive=True,
        assumptions=["networkx iteration order is irrelevant: terms are compared as multisets modulo reversal", "the parameter values themselves are C18's subject; here only their association with the type sequence is checked"])


if __name__ == "__main__":
    sys.exit(main("quick", 1))
