"""C12 -- replication describes the same crystal in a larger cell."""
import collections
import itertools
import json
import sys

import atoms_io as AIO
from atoms_io import KINDS, G
from common import Run, corpus
from c09 import tagged

CELLS = {
    "orthorhombic": [(10 * G, 0, 0), (0, 11 * G, 0), (0, 0, 12 * G)],
    "lammps-triclinic": [(10 * G, 0, 0), (2 * G, 9 * G, 0), (1 * G, 3 * G, 8 * G)],
    "lammps-triclinic-negative-tilt": [(10 * G, 0, 0), (-3 * G, 9 * G, 0), (2 * G, -2 * G, 8 * G)],
    "arbitrary-orientation": [(6 * G, 8 * G, 0), (-8 * G, 6 * G, 1 * G), (1 * G, 2 * G, 9 * G)],
    "upper-triangular": [(10 * G, 4 * G, 1 * G), (0, 10 * G, 2 * G), (0, 0, 10 * G)],
    # all angles 90 degrees, yet not the coordinate axes
    "rotated-orthorhombic": [(6 * G, 8 * G, 0), (-12 * G, 9 * G, 0), (0, 0, 11 * G)],
    "rotated-cubic": [(6 * G, 0, 8 * G), (0, 10 * G, 0), (-8 * G, 0, 6 * G)],
    "permuted-axes": [(0, 10 * G, 0), (0, 0, 11 * G), (12 * G, 0, 0)],
    "negative-diagonal": [(-10 * G, 0, 0), (0, -11 * G, 0), (0, 0, 12 * G)],
    # left-handed bases (negative determinant): two vectors listed in swapped order, one vector mirrored
    "left-handed-swapped": [(10 * G, 0, 0), (1 * G, 3 * G, 8 * G), (2 * G, 9 * G, 0)],
    "left-handed-mirrored": [(-9 * G, 0, 0), (0, 8 * G, 0), (0, 0, 7 * G)],
    "left-handed-axes-exchanged": [(9 * G, 0, 0), (0, 0, 8 * G), (0, 7 * G, 0)],
}


def oracle(st0, r, st1, st0_after):
    bad = []
    n = len(st0["pos"])
    a, b, c = r
    A, B, C = st0["cell"]
    if st0_after != st0:
        bad.append("the original object was modified")
    if len(st1["pos"]) != a * b * c * n:
        bad.append("%d atoms, expected %d" % (len(st1["pos"]), a * b * c * n))
    exp_cell = [tuple(a * x for x in A), tuple(b * x for x in B), tuple(c * x for x in C)]
    if [tuple(x) for x in st1["cell"]] != exp_cell:
        bad.append("cell %s, expected %s" % (st1["cell"], exp_cell))
    for f in ("t_el", "t_mass", "t_lab", "t_pair", "xl"):
        if st1[f] != st0[f]:
            bad.append("%s changed" % f)
    def key(st, i):
        return (st["typ"][i], st["chg"][i], st["grp"][i], tuple(st["xf"][i]))
    exp = collections.Counter()
    for i, j, k in itertools.product(range(a), range(b), range(c)):
        off = tuple(i * A[d] + j * B[d] + k * C[d] for d in range(3))
        for x in range(n):
            exp[(tuple(st0["pos"][x][d] + off[d] for d in range(3)),) + key(st0, x)] += 1
    got = collections.Counter((tuple(st1["pos"][x]),) + key(st1, x) for x in range(len(st1["pos"])))
    if got != exp:
        bad.append("atoms are not one copy of every original atom per lattice offset: missing %s extra %s" % (list((exp - got).items())[:2], list((got - exp).items())[:2]))
    for kname, *_ in KINDS:
        k0, k1 = st0[kname], st1[kname]
        if k1["coef"] != k0["coef"] or k1["xl"] != k0["xl"]:
            bad.append("%s tables changed" % kname)
        expt = collections.Counter()
        for i, j, k in itertools.product(range(a), range(b), range(c)):
            off = tuple(i * A[d] + j * B[d] + k * C[d] for d in range(3))
            for t, ty, x in zip(k0["tup"], k0["typ"], k0["xf"]):
                expt[(tuple(tuple(st0["pos"][v][d] + off[d] for d in range(3)) for v in t), ty, tuple(x))] += 1
        gott = collections.Counter()
        ok_idx = True
        for t, ty, x in zip(k1["tup"], k1["typ"], k1["xf"]):
            if any(v < 0 or v >= len(st1["pos"]) for v in t):
                ok_idx = False
                continue
            gott[(tuple(tuple(st1["pos"][v]) for v in t), ty, tuple(x))] += 1
        if not ok_idx or gott != expt:
            bad.append("%s are not one copy per image: missing %s extra %s" % (kname, list((expt - gott).items())[:1], list((gott - expt).items())[:1]))
    if r == (1, 1, 1) and {k: v for k, v in st1.items()} != st0:
        bad.append("1x1x1 replication is not the identity")
    return bad


def main(tier, seed, replay=None):
    run = Run("C12", tier, seed)
    ok_static = run.build_static()
    run.grep_gate()
    found_input = False
    if ok_static:
        run.compile_property("theories/Properties/C12.v")
        cases = []
        if replay:
            r = json.load(open(replay))
            if "input" in r and r["input"].get("scale"):
                import numpy as np
                st, sc, f = r["input"]["init"], r["input"]["scale"], tuple(r["input"]["ops"][0][1])
                ref = np.array(AIO.to_atoms(st).replicate(f).positions)
                B = AIO.to_atoms(st)
                B.positions = np.array(B.positions) * sc
                B.cell = np.array(B.cell) * sc
                got = np.array(B.replicate(f).positions) / sc
                if got.shape != ref.shape or not np.allclose(got, ref, rtol=1e-9, atol=1e-9):
                    found_input = True
                    run.violation("failing-input", {"input": r["input"], "observed": ["atoms of the replica of the rescaled structure are not at the lattice offsets"],
                                                    "expected": "the replica of the rescaled structure is the rescaled replica", "case_kind": "replay"})
            elif "input" in r:
                cases.append((r["input"]["init"], [tuple(o) for o in r["input"]["ops"]], "replay"))
        for name, c in corpus("C12"):
            cases.append((c["init"], [tuple(o) for o in c["ops"]], "corpus:" + name))
        if not replay:
            rng = run.rng
            factors = list(itertools.product((1, 2, 3), repeat=3))
            nstruct = 2 if tier == "quick" else 8
            for cname, cell in CELLS.items():
                for s in range(nstruct):
                    n = rng.randint(1, 4)
                    st = tagged(rng, n, "s", coeffs=(s % 2 == 0), cell=cell, rich=True, max_terms=3)
                    if s == 1:   # impropers / angles only, no bonds
                        st["bonds"] = dict(tup=[], typ=[], coef=st["bonds"]["coef"], xl=st["bonds"]["xl"], xf=[])
                    fs = factors if (tier == "thorough" or s == 0) else rng.sample(factors, 6)
                    for f in fs:
                        if n * f[0] * f[1] * f[2] <= 60:
                            cases.append((st, [("replicate", f)], cname))
        I = AIO.Interner()
        lits = []
        for init, ops, kind in cases:
            A = AIO.to_atoms(init)
            st0 = AIO.dump(A)
            try:
                B = AIO.apply_op(A, ops[0])
                s = AIO.dump(B)
                st0_after = AIO.dump(A)
                states = [s]
                bad = oracle(st0, tuple(ops[0][1]), s, st0_after)
            except Exception as e:   # noqa
                states = [("error", "%s: %s" % (type(e).__name__, e))]
                bad = ["raised " + states[0][1]]
            run.cov["evaluations"] += 1
            run.count(kind.split(":")[0])
            run.count("factors=%s" % ("unequal" if len(set(ops[0][1])) > 1 else "equal"))
            if bad:
                found_input = True
                run.violation("failing-input", {"input": {"init": init, "ops": [list(o) for o in ops]}, "observed": bad[:5],
                                                "expected": "every original atom once per lattice offset with identical type/charge/group, new cell rows a*A, b*B, c*C, every term copied within each image, tables unchanged, original unmodified",
                                                "case_kind": kind})
            f = ops[0][1]
            if f[0] * f[1] * f[2] > 1 and any(st0[k]["tup"] for k, *_ in KINDS):
                run.nontrivial((init, [list(o) for o in ops]))
            lits.append(AIO.case_literal(st0, ops, states, I))
            run.sample({"cell": kind, "n_atoms": len(st0["pos"]), "factors": list(f), "impropers": st0["impropers"]["tup"]})
        # the same crystal expressed in other length units (nanometres, metres): replication must not depend on the unit
        if not replay:
            import numpy as np
            for cname, cell in list(CELLS.items())[:4]:
                st = tagged(run.rng, 3, "u", coeffs=True, cell=cell, rich=True, max_terms=2)
                A = AIO.to_atoms(st)
                ref = np.array(A.replicate((2, 1, 2)).positions)
                for unit, sc in (("nanometre", 0.1), ("metre", 1e-10)):
                    B = AIO.to_atoms(st)
                    B.positions = np.array(B.positions) * sc
                    B.cell = np.array(B.cell) * sc
                    try:
                        got = np.array(B.replicate((2, 1, 2)).positions) / sc
                        ok = got.shape == ref.shape and np.allclose(got, ref, rtol=1e-9, atol=1e-9)
                        msg = "atoms of the replica are not at the lattice offsets"
                    except Exception as e:      # noqa
                        ok, msg = False, "raised %s: %s" % (type(e).__name__, e)
                    run.cov["evaluations"] += 1
                    run.count("unit=" + unit)
                    if not ok:
                        found_input = True
                        run.violation("failing-input", {"input": {"init": st, "ops": [["replicate", [2, 1, 2]]], "length_unit": unit, "scale": sc},
                                                        "observed": ["with all lengths expressed in %ss: %s" % (unit, msg)],
                                                        "expected": "the replica of the rescaled structure is the rescaled replica", "case_kind": cname})
        failing = run.correspond("c12", AIO.ATOMS_HEADER, lits, shard=40)
        for f in failing:
            if f[0] == "case":
                run.notes.append("model/implementation disagreement on case %d (%s %s)" % (f[1], cases[f[1]][2], cases[f[1]][1]))
    run.settle_broken(found_input)
    return run.finish(
        rule="cells: orthorhombic, LAMMPS-oriented triclinic (both tilt signs), arbitrarily oriented, upper-triangular, rotated orthorhombic / cubic, permuted axes, negative diagonal; replication factors from "
             "{1,2,3}^3 (all 27 for the first structure of each cell, a sample for the others in the quick tier); structures with 1-4 atoms, all four "
             "term kinds incl. impropers, extra columns, with and without coefficient tables, and a bond-free structure with angles/impropers.  "
             "Compared with the Coq model state-for-state and with the property evaluated directly (multisets of atoms and of terms by position).  "
             "Non-trivial = factor product > 1 and at least one term.",
        assumptions=["grid coordinates: all positions and cell entries are multiples of 1/4096 A so float and integer arithmetic agree exactly"])


if __name__ == "__main__":
    sys.exit(main("quick", 1))
