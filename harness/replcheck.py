"""Shared driver of the replacement checks C04-C08."""
import json

import atoms_io as AIO
import findgen as FG
import replgen as RG
from common import Run, corpus


def run_replace_property(pid, tier, seed, replay, propfiles, make_runs, rule, assumptions, extra=None, known=None):
    """make_runs(run) -> list of dicts {p, frac, replace_all, ignore, seed, parts, kind}.
    extra(r, res, run) -> list of complaints (property-specific checks on the implementation).
    known(r, res, complaints) -> a known-finding entry or None."""
    run = Run(pid, tier, seed)
    ok_static = run.build_static()
    run.grep_gate()
    found_input = False
    if ok_static:
        for pf in propfiles:
            run.compile_property(pf)
        runs = []
        if replay:
            j = json.load(open(replay))
            if "input" in j:
                i = j["input"]
                runs.append(dict(p=RG.problem_from_json(i["problem"]), frac=i["frac"], replace_all=i["replace_all"], ignore=i["ignore"], seed=i["seed"],
                                 parts=tuple(i.get("parts", ("atoms", "terms", "count", "outcome"))), kind="replay"))
        for name, cj in corpus(pid):
            runs.append(dict(p=RG.problem_from_json(cj["problem"]), frac=cj["frac"], replace_all=cj["replace_all"], ignore=cj["ignore"], seed=cj["seed"],
                             parts=tuple(cj.get("parts", ("atoms", "terms", "count", "outcome"))), kind="corpus:" + name))
        if not replay:
            runs += make_runs(run)
        I = AIO.Interner()
        lits = []
        results = []
        known_hits = {}
        for r in runs:
            res = RG.run_replace(r["p"], r["frac"], r["replace_all"], r["ignore"], r["seed"])
            results.append(res)
            run.cov["evaluations"] += 1
            run.count("kind=" + r["kind"].split(":")[0])
            run.count("repl=" + r["p"]["mode"])
            run.count("outcome=" + res["outcome"])
            run.count("frac=%s" % r["frac"])
            run.count("replace_all=%s" % r["replace_all"])
            run.count("cell=" + r["p"]["case"]["cellkind"])
            try:
                complaints = RG.compare(r["p"], res, r["replace_all"], r["ignore"], r["frac"], parts=r["parts"])
            except Exception as ex:      # noqa
                # the statement cannot even be evaluated on what came back (e.g. terms that refer to atoms that do not exist)
                complaints = ["the result is not a consistent structure: evaluating the statement on it raised %s: %s" % (type(ex).__name__, ex)]
            if extra:
                try:
                    complaints += extra(r, res, run)
                except Exception as ex:      # noqa
                    complaints.append("a follow-up operation on the result raised %s: %s" % (type(ex).__name__, ex))
            kf = known(r, res, complaints) if (known and complaints) else None
            if kf is not None:
                known_hits[kf["id"]] = (kf, complaints[0])
                complaints = []
            if complaints:
                found_input = True
                run.violation("failing-input", {"input": {"problem": RG.problem_json(r["p"]), "frac": str(r["frac"]), "replace_all": r["replace_all"], "ignore": r["ignore"],
                                                          "seed": r["seed"], "parts": list(r["parts"])},
                                                "observed": complaints[:6], "selected_matches": [list(s[0]) for s in res["sel"]], "found": res["found"],
                                                "outcome": res["outcome"], "case_kind": r["kind"]})
            if res["outcome"] == "ok" and len(res["sel"]) >= 1:
                p = r["p"]
                ins = len(p["repl"]["pos"]) and any(True for _ in res["sel"])
                touched = any(set(t) & set(i for s in res["sel"] for i in s[0]) for k, *_ in AIO.KINDS for t in p["S"][k]["tup"])
                if ins or touched or p["mode"] == "empty":
                    run.nontrivial((RG.problem_json(p), str(r["frac"]), r["replace_all"], r["ignore"], r["seed"]))
            if r.get("no_model"):
                lits.append(None)
            else:
                lits.append(RG.case_literal(r["p"], res, r["frac"], r["replace_all"], r["ignore"], I))
            run.sample({"pattern": r["p"]["case"]["name"], "replacement": r["p"]["mode"], "cell": r["p"]["case"]["cellkind"], "frac": str(r["frac"]),
                        "replace_all": r["replace_all"], "found": res["found"], "selected": [list(s[0]) for s in res["sel"]][:3], "outcome": res["outcome"]})
        idxmap = [i for i, l in enumerate(lits) if l is not None]
        failing = run.correspond(pid.lower(), RG.REPLACE_HEADER, [lits[i] for i in idxmap], shard=25, spec=True, timeout=1200)
        for gi in sorted(set(run.spec_failing)):
            r = runs[idxmap[gi]]
            res = results[idxmap[gi]]
            found_input = True
            run.violation("failing-input", {"input": {"problem": RG.problem_json(r["p"]), "frac": str(r["frac"]), "replace_all": r["replace_all"], "ignore": r["ignore"],
                                                      "seed": r["seed"], "parts": list(r["parts"])},
                                            "observed": "Corr.ReplaceCorr.spec_ok is false on the implementation's output: an inserted atom is not at R(repl_j - search_0) + pos_0 modulo the lattice (1.9e-6 A), or lies outside the cell, or the replaced-match count is not a nearest integer to fraction x found",
                                            "selected_matches": [list(s[0]) for s in res["sel"]], "outcome": res["outcome"], "case_kind": r["kind"],
                                            "decided_by": "exact integer arithmetic in Coq"})
        for f in failing:
            if f[0] == "case" and f[1] not in run.spec_failing:
                r = runs[idxmap[f[1]]]
                run.notes.append("model/implementation disagreement on run %d (%s, repl=%s)" % (f[1], r["kind"], r["p"]["mode"]))
        for kid, (kf, what) in known_hits.items():
            run.known_finding(kf, True, "%s [%s] e.g. %s" % (kf["what"], kid, what[:160]))
        for kf in run.known:
            if kf["id"] not in known_hits:
                run.notes.append("known finding %s was not reproduced by this run's inputs" % kf["id"])
    run.settle_broken(found_input)
    return run.finish(rule=rule, assumptions=assumptions)
