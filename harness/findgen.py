"""Generator of planted pattern-search problems on the dyadic grid, implementation driver and Gallina literals
(shared by C01-C08)."""
import contextlib
import io
import random as pyrandom
from fractions import Fraction

import numpy as np

from common import gal, N, Some

G = 4096

PATTERNS = {
    # name: (elements, positions in Angstrom (multiples of 1/16), tags)
    "asym4": (["C", "N", "O", "H"], [[0, 0, 0], [1.5, 0, 0], [1.5, 1.25, 0], [0.25, 0.5, 1.0]], {"asymmetric"}),
    "metal4": (["N", "Cu", "O", "Cl"], [[0, 0, 0], [1.875, 0, 0], [2.5, 1.75, 0], [0.5, 0.75, 1.25]], {"asymmetric"}),
    "chiral5": (["C", "H", "F", "Cl", "Br"], [[0, 0, 0], [0.625, 0.625, 0.625], [-0.75, -0.75, 0.75], [-1.0, 1.0, -1.0], [1.125, -1.125, -1.125]], {"chiral"}),
    "weakchiral4": (["C", "N", "O", "H"], [[0, 0, 0], [1.5, 0, 0], [1.5, 1.25, 0], [0.25, 0.5, 0.3125]], {"chiral"}),
    "mirrorsym5": (["C", "H", "H", "F", "Cl"], [[0, 0, 0], [0.625, 0.875, 0.5], [0.625, -0.875, 0.5], [-1.25, 0, 0.375], [0.25, 0, -1.5]], {"symmetric"}),
    "axis_asym4": (["C", "N", "O", "H"], [[0, 0, 0], [0, 2.0, 0], [0.75, 0.5, 0], [0.25, 1.25, 0.625]], {"asymmetric"}),
    # four atoms in a plane, a fifth 3/32 A above it: the mirror image differs from the pattern by 3/16 A at one atom only - more than
    # 0.1 * sqrt(3), so at atol 0.1 some coordinate is off by more than atol whatever the orientation, yet less than 0.1 * sqrt(5)
    "faintchiral5": (["C", "N", "O", "H", "F"], [[0, 0, 0], [2.0, 0, 0], [2.5, 1.5, 0], [-0.5, 1.25, 0], [1.0, 0.75, 0.09375]], {"chiral"}),
    "pair": (["C", "N"], [[0, 0, 0], [1.25, 0, 0]], {"collinear"}),
    "pair_y": (["C", "N"], [[0, 0, 0], [0, 1.25, 0]], {"collinear"}),
    "single": (["Zr"], [[0, 0, 0]], {"single"}),
    "collinear3": (["O", "C", "O"], [[-1.125, 0, 0], [0, 0, 0], [1.125, 0, 0]], {"collinear", "symmetric"}),
    "bent3_y": (["C", "O", "N"], [[0, 0, 0], [0, 1.25, 0], [1.0, 1.75, 0]], {"asymmetric", "planar"}),
    "shallow3": (["C", "N", "O"], [[0, 0, 0], [4.0, 0.625, 0], [8.0, 0, 0]], {"asymmetric", "planar", "shallow"}),
    "planar_sym4": (["C", "C", "C", "C"], [[0, 0, 0], [1.5, 0, 0], [1.5, 1.5, 0], [0, 1.5, 0]], {"symmetric", "planar"}),
    "tri_sym3": (["N", "N", "N"], [[0, 0, 0], [1.5, 0, 0], [0.75, 1.3125, 0]], {"symmetric", "planar"}),
    "ch2f2": (["C", "H", "H", "F", "F"], [[0, 0, 0], [0.625, 0.625, 0.625], [-0.625, -0.625, 0.625], [-0.8125, 0.8125, -0.8125], [0.8125, -0.8125, -0.8125]], {"symmetric"}),
}


def quiet():
    return contextlib.redirect_stderr(io.StringIO())


def grid(x):
    return np.round(np.asarray(x, float) * G) / G


def qrot(q):
    """rotation matrix of the (not necessarily unit) quaternion q = (x,y,z,w)"""
    x, y, z, w = [float(c) for c in q]
    n = x * x + y * y + z * z + w * w
    M = np.array([[w * w + x * x - y * y - z * z, 2 * (x * y - w * z), 2 * (x * z + w * y)],
                  [2 * (x * y + w * z), w * w - x * x + y * y - z * z, 2 * (y * z - w * x)],
                  [2 * (x * z - w * y), 2 * (y * z + w * x), w * w - x * x - y * y + z * z]]) / n
    return M


AXIS_QUATS = [(0, 0, 0, 1), (1, 0, 0, 0), (0, 1, 0, 0), (0, 0, 1, 0), (1, 0, 0, 1), (0, 1, 0, 1), (0, 0, 1, 1), (1, 1, 0, 0),
              (0, 1, 1, 0), (1, 0, 1, 0), (1, 1, 1, 1), (1, -1, 0, 0)]


def rand_quat(rng, pose="random"):
    if pose == "axis":
        return rng.choice(AXIS_QUATS)
    while True:
        q = tuple(rng.randint(-6, 6) for _ in range(4))
        if any(q):
            return q


def min_image_dist(cell, inv, a, b):
    d = (np.asarray(b) - np.asarray(a)) @ inv
    d -= np.round(d)
    best = 1e9
    for i in (-1, 0, 1):
        for j in (-1, 0, 1):
            for k in (-1, 0, 1):
                v = (d + np.array([i, j, k])) @ cell
                best = min(best, float(np.linalg.norm(v)))
    return best


CELL_KINDS = ["ortho", "tric+", "tric-", "tric", "big", "upper", "rotated", "mono-yz", "mono-xz", "mono-xy", "rot-ortho"]
# exact rotations (rational matrices with denominators 5 and 13) and axis permutations: a box rotated by one of them keeps all its
# angles at exactly 90 degrees and stays on the grid when its edge lengths are multiples of 65 grid units
_R = {
    "z345": [[3 / 5, -4 / 5, 0], [4 / 5, 3 / 5, 0], [0, 0, 1]],
    "x51213": [[1, 0, 0], [0, 5 / 13, -12 / 13], [0, 12 / 13, 5 / 13]],
    "y345": [[3 / 5, 0, 4 / 5], [0, 1, 0], [-4 / 5, 0, 3 / 5]],
    "perm": [[0, 1, 0], [0, 0, 1], [1, 0, 0]],
    "flip": [[-1, 0, 0], [0, -1, 0], [0, 0, 1]],
}


def make_cell(rng, need, kind):
    """cell rows (floats on the grid) whose perpendicular widths exceed `need`"""
    for _ in range(200):
        L = need + np.array([rng.uniform(0.05, 5.0) for _ in range(3)])
        if kind == "big":
            L = L + np.array([rng.uniform(15, 30) for _ in range(3)])
        cell = np.diag(L)
        if kind in ("tric+", "tric-", "tric", "big") and kind != "ortho" and (kind != "big" or rng.random() < 0.5):
            sgn = {"tric+": 1, "tric-": -1}.get(kind, None)
            for (i, j) in ((1, 0), (2, 0), (2, 1)):
                s = sgn if sgn is not None else rng.choice([-1, 1])
                cell[i, j] = s * rng.uniform(0.05, 0.45) * L[j]
            cell = cell * 1.35
        if kind in ("mono-xy", "mono-xz", "mono-yz"):
            # exactly one non-zero tilt factor, either sign (LAMMPS xy = cell[1,0], xz = cell[2,0], yz = cell[2,1])
            i, j = {"mono-xy": (1, 0), "mono-xz": (2, 0), "mono-yz": (2, 1)}[kind]
            L[j] += rng.uniform(3, 8)
            cell = np.diag(L)
            cell[i, j] = rng.choice([-1, 1]) * rng.uniform(0.35, 0.6) * L[j]
            cell = cell * 1.2
        if kind == "rot-ortho":
            Lg = np.array([round(x * 1.1 * G / 65) * 65 for x in L], float) / G
            # always one of the three Pythagorean rotations (the rotated box keeps a positive diagonal); sometimes composed with an axis
            # permutation or a sign flip as well
            R = np.array(_R[rng.choice(["z345", "x51213", "y345"])])
            if rng.random() < 0.35:
                R = np.array(_R[rng.choice(["perm", "flip", "z345", "y345"])]) @ R
            cell = np.diag(Lg) @ R.T
        if kind == "upper":
            # tilt in the upper triangle: a = (Lx, t, t'), b = (0, Ly, t''), c = (0, 0, Lz)
            cell = np.diag(L)
            for (i, j) in ((0, 1), (0, 2), (1, 2)):
                cell[i, j] = rng.choice([-1, 1]) * rng.uniform(0.1, 0.45) * L[i]
            cell = cell * 1.35
        if kind == "rotated":
            cell = np.diag(L)
            for (i, j) in ((1, 0), (2, 0), (2, 1)):
                cell[i, j] = rng.choice([-1, 1]) * rng.uniform(0.05, 0.45) * L[j]
            cell = (cell * 1.35) @ qrot(rand_quat(rng)).T
        cell = grid(cell)
        if np.linalg.det(cell) < 0:
            cell[2] = -cell[2]
        vol = abs(np.linalg.det(cell))
        widths = [vol / np.linalg.norm(np.cross(cell[(i + 1) % 3], cell[(i + 2) % 3])) for i in range(3)]
        if min(widths) > need + 0.01:
            return cell
    raise RuntimeError("no cell")


def place(rng, cell, inv, pts, frac=None):
    """wrap points into the cell, snap to the grid; None if an atom leaves [0,1) after snapping"""
    f = (pts @ inv) % 1.0
    cw = grid(f @ cell)
    ff = cw @ inv
    if ff.min() < 1e-9 or ff.max() >= 1 - 1e-9:
        return None
    return cw


def antiparallel_quat(pp):
    """integer quaternion of a half-turn about an axis perpendicular to the pattern's longest pair: maps that axis onto its negative exactly"""
    n = len(pp)
    best = max(((i, j) for i in range(n) for j in range(n)), key=lambda ij: np.linalg.norm(pp[ij[1]] - pp[ij[0]]))
    d = np.round((pp[best[1]] - pp[best[0]]) * 16).astype(int)
    for e in ((1, 0, 0), (0, 1, 0), (0, 0, 1)):
        u = np.cross(d, e)
        if np.any(u):
            return (int(u[0]), int(u[1]), int(u[2]), 0)
    return (1, 0, 0, 0)


def make_case(rng, k, flavor="mixed", pattern=None, big=None, cellkind=None):
    """returns a dict describing one planted search problem"""
    names = list(PATTERNS)
    name = pattern or names[k % len(names)]
    if flavor == "antiparallel" and pattern is None and rng.random() < 0.6:
        name = rng.choice(["axis_asym4", "pair", "pair_y", "axis_asym4"])
    el, pp, tags = PATTERNS[name]
    pp = grid(pp)
    # the same pattern with its coordinates cyclically permuted (a proper rotation): axis along x, y or z
    rnd = k // len(names)
    orient = rnd % 3
    pp = np.roll(pp, orient, axis=1)
    n = len(el)
    diam = max(float(np.linalg.norm(a - b)) for a in pp for b in pp) if n > 1 else 0.0
    atol = [Fraction(1, 20), Fraction(1, 10), Fraction(1, 50)][(rnd // 3 + k) % 3]
    tol = float(atol)
    need = diam + 2 * tol
    sep = diam + 2 * tol + 0.3          # distinct groups are farther apart than this: no cross-group candidates
    ckind = CELL_KINDS[(k // 3) % len(CELL_KINDS)] if big is None else ("big" if big else "tric")
    if cellkind is not None:
        ckind = cellkind
    need_cell = max(need, sep + 0.2 if n == 1 else need)
    if flavor in ("mixed", "decoys") and n > 1:
        # a near-miss decoy (one atom displaced by up to 8 atol) must not form a genuine occurrence with its own periodic images
        need_cell = max(need_cell, 2 * (diam + 8 * tol) + 2 * tol + 0.1)
    cell = make_cell(rng, need_cell, ckind)
    inv = np.linalg.inv(cell)
    pos, els, planted, decoys = [], [], [], []
    ncopies = rng.randint(1, 3) if ckind != "big" else rng.randint(1, 4)
    if flavor == "shuffled":
        ncopies = rng.randint(2, 4)
    crossing = []
    last_offs = []
    planted_offs = []
    noisy = [flavor in ("stretched", "stretched-axis")]

    def try_add(points, elements, far_from_origin=False, forced_q=None, corner=None, stretch=False, shear=None):
        for attempt in range(60):
            pose = rng.choice(["random", "random", "axis"])
            if flavor == "stretched-axis":
                pose = "axis"
            q = rand_quat(rng, pose)
            if forced_q is not None:
                q, pose = forced_q, "antiparallel"
            fr = np.array([rng.random() for _ in range(3)])
            r = rng.random()
            if r < 0.5:      # near faces / edges / corners
                fr = np.array([rng.choice([0.004, 0.996, rng.random()]) if rng.random() < 0.7 else fr[i] for i in range(3)])
            if far_from_origin:
                fr = np.array([rng.uniform(0.6, 0.95) for _ in range(3)])
            if corner is not None:
                # put the pattern's first atom just inside the cell at the given corner, oriented so that another atom
                # leaves the cell through all three faces meeting there (it lands in the diagonally opposite image)
                outward = np.array([-1.0 if b == 0 else 1.0 for b in corner])
                best, bestscore = q, -1
                for _ in range(40):
                    qq = rand_quat(rng, rng.choice(["random", "axis"]))
                    rel = (points @ qrot(qq).T - (points @ qrot(qq).T)[0]) @ inv
                    score = max(int(np.sum(rel[i] * outward > 0.004)) for i in range(len(points)))
                    if score > bestscore:
                        best, bestscore = qq, score
                q = best
                fr0 = np.array([0.003 if b == 0 else 0.997 for b in corner])
                first = (points @ qrot(q).T)[0]
                fr = fr0 - first @ inv
            if shear is not None:
                # single-tilt cell, tilt t = cell[i, j]: put the copy into the part of the sheared cell that sticks out of the axis-aligned
                # box spanned by diag(cell) by more than the pattern's length (coordinate j = f_j L_j + f_i t)
                si, sj = shear
                t, Lj = cell[si, sj], cell[sj, sj]
                fr = np.array([rng.random() for _ in range(3)])
                fr[si] = rng.uniform(0.7, 0.97)
                if t < 0:
                    fr[sj] = rng.uniform(0.01, max(0.03, (fr[si] * abs(t) - need - 0.2) / Lj))
                else:
                    fr[sj] = rng.uniform(min(0.97, 1 + (need + 0.2 - fr[si] * t) / Lj), 0.99)
                fr = fr - (points @ qrot(q).T).mean(axis=0) @ inv
            if flavor == "inside-near-face" and shear is None and corner is None:
                # the whole copy inside the cell, its outermost atom 0.1 - 0.3 A (in fractional terms 0.6 - 2 %) from one face
                rel = (points @ qrot(q).T) @ inv
                ax = rng.randrange(3)
                fr = np.array([rng.uniform(0.25, 0.75) for _ in range(3)])
                if rng.random() < 0.5:
                    fr[ax] = rng.uniform(0.980, 0.994) - rel[:, ax].max()
                else:
                    fr[ax] = rng.uniform(0.006, 0.020) - rel[:, ax].min()
            cand = points @ qrot(q).T + grid(fr @ cell)
            if stretch and len(points) > 1:
                # stretch the (unwrapped) copy along its longest pair by 0.8 atol: every atom stays inside the tolerance of the fit
                # anchored at the first axis atom
                bi, bj = max(((i, j) for i in range(len(points)) for j in range(len(points))), key=lambda ij: np.linalg.norm(points[ij[1]] - points[ij[0]]))
                dv = cand[bj] - cand[bi]
                u = dv / np.linalg.norm(dv)
                tt = np.array([np.dot(x - cand[bi], u) for x in cand]) / np.linalg.norm(dv)
                cand = cand + np.outer(tt, u) * 0.8 * tol
            nimg = len(set(tuple(np.floor((cand @ inv)[i] + 1e-12).astype(int)) for i in range(len(cand))))
            cw = place(rng, cell, inv, cand)
            if cw is None:
                continue
            if all(min_image_dist(cell, inv, x, y) > sep for x in pos for y in cw):
                last_offs[:] = [tuple(int(v) for v in np.round((cand[i] - cw[i]) @ inv)) for i in range(len(cw))]
                return cw, nimg, pose, q
        return None

    for c in range(ncopies):
        forced_q = antiparallel_quat(pp) if (flavor == "antiparallel" and c == 0 and n > 1) else None
        corner = None
        if flavor == "corners" and c == 0:
            corner = (0, 0, 0) if rng.random() < 0.34 else tuple(rng.randrange(2) for _ in range(3))
        shear = None
        if ckind.startswith("mono-") and corner is None and forced_q is None and c < 2 and rng.random() < 0.8:
            shear = {"mono-xy": (1, 0), "mono-xz": (2, 0), "mono-yz": (2, 1)}[ckind]
        r = try_add(pp, el, far_from_origin=(ckind == "big" and c == 0 and corner is None), forced_q=forced_q, corner=corner, stretch=(flavor in ("stretched", "stretched-axis")), shear=shear)
        if r is None:
            continue
        cw, nimg, pose, q = r
        # positional noise <= atol/8 per coordinate, snapped
        if rng.random() < 0.4 and forced_q is None and flavor not in ("stretched", "stretched-axis"):
            cw2 = grid(cw + np.array([[rng.uniform(-tol / 8, tol / 8) for _ in range(3)] for _ in range(n)]))
            ff = cw2 @ inv
            if ff.min() > 1e-9 and ff.max() < 1 - 1e-9:
                cw = cw2
                noisy[0] = True
        base = len(pos)
        pos += list(cw)
        els += el
        planted.append(tuple(range(base, base + n)))
        planted_offs.append(list(last_offs))
        crossing.append(nimg)
    ndec = 0
    if flavor in ("mixed", "decoys") and n > 1:
        # mirror image of a chiral pattern
        if "chiral" in tags and rng.random() < 0.9:
            m = pp.copy()
            m[:, 0] *= -1
            r = try_add(m, el, far_from_origin=(ckind == "big"))
            if r is not None:
                pos += list(r[0])
                els += el
                decoys.append("mirror")
        # same geometry, but one atom (not the first) has an element whose symbol is a prefix of the pattern's (C for Cl / Cu, B for Br, ...)
        two = [i for i in range(1, n) if len(el[i]) == 2 and el[i][0] in ("C", "B", "S", "H", "N", "O", "F")]
        if two and rng.random() < 0.8:
            i = rng.choice(two)
            el2 = list(el)
            el2[i] = el[i][0]
            r = try_add(pp, el2)
            if r is not None:
                pos += list(r[0])
                els += el2
                decoys.append("element-prefix")
        # flattened copy of a shallow triangle: all pair distances agree within atol, the apex does not
        if "shallow" in tags:
            d = pp.copy()
            d[1] = grid(pp[1] - (pp[1] - (pp[0] + pp[2]) / 2) * 0.92)
            r = try_add(d, el)
            if r is not None:
                pos += list(r[0])
                els += el
                decoys.append("flattened")
        # near miss: one atom displaced by 6-8 atol along the line to its farthest partner
        if rng.random() < 0.6:
            d = pp.copy()
            a = rng.randrange(n)
            b = max(range(n), key=lambda j: np.linalg.norm(pp[j] - pp[a]))
            u = (pp[a] - pp[b]) / np.linalg.norm(pp[a] - pp[b])
            d[a] = grid(pp[a] + u * rng.uniform(6, 8) * tol)
            r = try_add(d, el)
            if r is not None:
                pos += list(r[0])
                els += el
                decoys.append("near-miss")
    distract = 0
    if flavor == "distractors" and pos:
        for _ in range(rng.randint(1, 4)):
            p = grid(np.array([rng.random() for _ in range(3)]) @ cell)
            ff = p @ inv
            if ff.min() > 1e-9 and ff.max() < 1 - 1e-9 and all(min_image_dist(cell, inv, x, p) > 0.7 for x in pos):
                pos.append(p)
                els.append(rng.choice(el))
                distract += 1
    if flavor == "crowded" and pos:
        # a few hundred further atoms of elements the pattern does not contain (size-dependent code paths)
        others = [e for e in ["Xe", "Ar", "Kr", "He", "Ne", "Rn"] if e not in el]
        for _ in range(rng.randint(250, 400)):
            p = grid(np.array([rng.random() for _ in range(3)]) @ cell)
            ff = p @ inv
            if ff.min() > 1e-9 and ff.max() < 1 - 1e-9:
                pos.append(p)
                els.append(rng.choice(others))
        perm = list(range(len(pos)))
        rng.shuffle(perm)
        newidx = {old: new for new, old in enumerate(perm)}
        pos = [pos[i] for i in perm]
        els = [els[i] for i in perm]
        planted = [tuple(newidx[i] for i in t) for t in planted]
    if not pos:
        return None
    if flavor == "shuffled":
        # interleave the atoms of the copies: the structure's atom order is unrelated to the order of the occurrences
        perm = list(range(len(pos)))
        rng.shuffle(perm)
        newidx = {old: new for new, old in enumerate(perm)}
        pos = [pos[i] for i in perm]
        els = [els[i] for i in perm]
        planted = [tuple(newidx[i] for i in t) for t in planted]
    hints = None
    # hints are only given when every copy is an exact image of the pattern: the search anchors its fit at the hinted atoms, and a short
    # hinted axis magnifies positional noise of a copy that is well inside the tolerance in the least-squares sense
    if n >= 3 and rng.random() < 0.35 and not noisy[0]:
        for _ in range(20):
            a1, a2, o = rng.sample(range(n), 3)
            ax = pp[a2] - pp[a1]
            if np.linalg.norm(np.cross(ax, pp[o] - pp[a1])) > 0.3 * np.linalg.norm(ax):
                hints = (a1, a2, o)
                break
    return dict(name=name, tags=sorted(tags), els=els, pos=np.array(pos), cell=cell, pel=el, pp=pp, atol=atol, hints=hints,
                planted=planted if distract == 0 else None, planted_offs=planted_offs, decoys=decoys, distractors=distract, cellkind=ckind,
                crossing=crossing, k=k, noisy=noisy[0])


def atoms_of(c):
    from mofun import Atoms
    with quiet():
        S = Atoms(elements=list(c["els"]), positions=np.array(c["pos"], float), cell=np.array(c["cell"], float))
        P = Atoms(elements=list(c["pel"]), positions=np.array(c["pp"], float))
    return S, P


def run_find(c, seed, S=None, P=None, hints="case"):
    from mofun import find_pattern_in_structure
    if S is None:
        S, P = atoms_with_history(c)
    pyrandom.seed(seed)
    np.random.seed(seed % (2 ** 32))
    h = c["hints"] if hints == "case" else hints
    kw = {}
    if h is not None:
        kw = dict(axisp1_idx=h[0], axisp2_idx=h[1], opoint_idx=h[2])
    with quiet(), contextlib.redirect_stdout(io.StringIO()):
        idx, mpos, quats = find_pattern_in_structure(S, P, atol=float(c["atol"]), return_positions_and_quats=True, **kw)
    return [tuple(int(i) for i in m) for m in idx], np.array(mpos), quats


def grown_case(c):
    """the same atoms in a cell enlarged by 1/16 (snapped to the grid).  Copies that crossed a cell face are distorted by 1/16 of a lattice
    vector - whether they still are occurrences depends on the pattern, so no ground truth is claimed (planted=None: the outputs are judged
    by the statement and against the model).  The case records that the Atoms object was searched before the enlargement (`pre`)."""
    cell = grid(np.array(c["cell"], float) * 1.0625)
    return dict(c, cell=cell, planted=None, planted_offs=[], crossing=[], cellkind=c["cellkind"] + "*17/16",
                pre={"cell": [list(zv(r)) for r in c["cell"]], "els": list(c["els"])})


def restored_case(c):
    """the case itself, but the Atoms object was searched before while it had an enlarged cell and cyclically shifted elements"""
    els = list(c["els"])
    return dict(c, pre={"cell": [list(zv(r)) for r in grid(np.array(c["cell"], float) * 1.0625)], "els": els[1:] + els[:1]})


def atoms_with_history(c):
    """build the structure; when the case records an earlier state (`pre`), build it in that state, search it once, then bring the SAME
    object to the state the case describes"""
    from mofun import Atoms, find_pattern_in_structure
    pre = c.get("pre")
    if not pre:
        return atoms_of(c)
    cell = np.array(c["cell"], float)
    h = c["hints"]
    kw = dict(axisp1_idx=h[0], axisp2_idx=h[1], opoint_idx=h[2]) if h is not None else {}
    with quiet(), contextlib.redirect_stdout(io.StringIO()):
        P = Atoms(elements=list(c["pel"]), positions=np.array(c["pp"], float))
        S = Atoms(elements=list(pre["els"]), positions=np.array(c["pos"], float), cell=np.array(pre["cell"], float) / G)
        st = (pyrandom.getstate(), np.random.get_state())
        try:
            find_pattern_in_structure(S, P, atol=float(c["atol"]), return_positions_and_quats=True, **kw)
        except Exception:    # noqa
            pass
        pyrandom.setstate(st[0])
        np.random.set_state(st[1])
        fresh = Atoms(elements=list(c["els"]), positions=np.array(c["pos"], float), cell=cell)
        S.cell = cell
        S.atom_types = fresh.atom_types.copy()
        S.atom_type_elements = list(fresh.atom_type_elements)
        S.atom_type_masses = list(fresh.atom_type_masses)
        S.atom_type_labels = list(fresh.atom_type_labels)
    return S, P


def zv(v):
    return tuple(int(round(float(x) * G)) for x in v)


def exact_quat(q):
    """scipy Rotation -> integer quaternion with the same direction (exact dyadic components, common factor cleared)"""
    comps = [Fraction(float(x)) for x in q.as_quat()]
    den = 1
    for f in comps:
        den = max(den, f.denominator)
    ints = [int(f * den) for f in comps]
    # strip common powers of two
    while all(i % 2 == 0 for i in ints) and any(ints):
        ints = [i // 2 for i in ints]
    return tuple(ints)


class ElemIds:
    def __init__(self):
        self.ids = {}

    def __call__(self, e):
        return self.ids.setdefault(str(e), len(self.ids))


def find_case_literal(c, res, E, expect="planted"):
    idx, mpos, quats = res
    S = [(N(E(e)), zv(p)) for e, p in zip(c["els"], c["pos"])]
    P = [(N(E(e)), zv(p)) for e, p in zip(c["pel"], c["pp"])]
    cell = tuple(zv(r) for r in c["cell"])
    tol = "{| tn := %d; td := %d |}" % (c["atol"].numerator * G, c["atol"].denominator)
    hints = "None" if c["hints"] is None else "(Some (%d%%nat, %d%%nat, %d%%nat))" % tuple(c["hints"])
    outs = []
    for m, mp, q in zip(idx, mpos, quats):
        outs.append(([N(i) for i in m], [zv(p) for p in mp], exact_quat(q)))
    exp = None
    if expect == "planted" and c["planted"] is not None:
        exp = Some([[N(i) for i in sorted(g)] for g in c["planted"]])
    elif isinstance(expect, list):
        exp = Some([[N(i) for i in sorted(g)] for g in expect])
    return "mk_case %s %s %s %s %s %s %s" % (gal(S), gal(cell), gal(P), tol, hints, gal(outs), gal(exp))


FIND_HEADER = ("From Coq Require Import ZArith List.\nFrom Mofun Require Import Model.Atoms Model.Geom Model.Find Corr.CorrLib Corr.FindCorr.\n"
               "Import ListNotations.\nOpen Scope Z_scope.\n")


def describe(c):
    return {"pattern": c["name"], "cell": c["cellkind"], "atol": str(c["atol"]), "n_atoms": len(c["els"]), "planted": c["planted"],
            "decoys": c["decoys"], "distractors": c["distractors"], "hints": c["hints"], "images_crossed_per_copy": c["crossing"]}


def case_json(c):
    return {"name": c["name"], "els": list(c["els"]), "pos": [list(zv(p)) for p in c["pos"]], "cell": [list(zv(r)) for r in c["cell"]],
            "pel": list(c["pel"]), "pp": [list(zv(p)) for p in c["pp"]], "atol": [c["atol"].numerator, c["atol"].denominator],
            "hints": c["hints"], "planted": c["planted"], "planted_offs": c.get("planted_offs"), "decoys": c["decoys"], "distractors": c["distractors"],
            "cellkind": c["cellkind"], "crossing": c["crossing"], "k": c["k"], "grid": G, "pre": c.get("pre"), "noisy": c.get("noisy", False)}


def case_from_json(j):
    return dict(name=j["name"], tags=[], els=j["els"], pos=np.array(j["pos"], float) / G, cell=np.array(j["cell"], float) / G,
                pel=j["pel"], pp=np.array(j["pp"], float) / G, atol=Fraction(j["atol"][0], j["atol"][1]),
                hints=tuple(j["hints"]) if j["hints"] else None, planted=[tuple(g) for g in j["planted"]] if j["planted"] is not None else None,
                planted_offs=j.get("planted_offs"), decoys=j.get("decoys", []), distractors=j.get("distractors", 0), cellkind=j.get("cellkind", "?"), crossing=j.get("crossing", []), k=j.get("k", 0), pre=j.get("pre"), noisy=j.get("noisy", False))
