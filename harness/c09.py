"""C09 -- Atoms objects stay consistent and type ids keep their meaning, over operation histories."""
import io
import itertools
import json
import sys

import numpy as np

import atoms_io as AIO
from atoms_io import G, QS, KINDS
from common import Run, corpus

CELL = [(40 * G, 0, 0), (5 * G, 41 * G, 0), (-3 * G, 7 * G, 42 * G)]
OCELL = [(40 * G, 0, 0), (0, 41 * G, 0), (0, 0, 42 * G)]
# LAMMPS-oriented cells with one or two zero tilt factors
MCELLS = [[(40 * G, 0, 0), (0, 41 * G, 0), (0, -6 * G, 42 * G)], [(40 * G, 0, 0), (7 * G, 41 * G, 0), (0, 0, 42 * G)],
          [(40 * G, 0, 0), (0, 41 * G, 0), (-5 * G, 0, 42 * G)], [(40 * G, 0, 0), (4 * G, 41 * G, 0), (0, 9 * G, 42 * G)]]


def tagged(rng, n, tag, coeffs, cell=None, rich=False, max_terms=3):
    """random structure whose atoms and terms carry ghost ids in an extra column"""
    st = AIO.rand_struct(rng, n, tag, coeffs=coeffs, cell=cell, rich=rich, max_terms=max_terms)
    st["xl"] = ["gid"] + st["xl"]
    st["xf"] = [["g%s%d" % (tag, i)] + r for i, r in enumerate(st["xf"])]
    for k, *_ in KINDS:
        kk = st[k]
        kk["xl"] = ["tid"] + kk["xl"]
        kk["xf"] = [["t%s%s%d" % (tag, k[0], i)] + r for i, r in enumerate(kk["xf"])]
    return st


def meanings(st, M):
    """record what each ghost id was defined with"""
    gi = st["xl"].index("gid")
    for i, r in enumerate(st["xf"]):
        t = st["typ"][i]
        M["atom"][r[gi]] = (st["t_lab"][t], st["t_el"][t], st["t_mass"][t], st["t_pair"][t] if st["t_pair"] else None)
    for k, *_ in KINDS:
        kk = st[k]
        ti = kk["xl"].index("tid")
        for j, r in enumerate(kk["xf"]):
            M[k][r[ti]] = kk["coef"][kk["typ"][j]] if kk["coef"] else None


def wf_and_meaning(st, M, check_meaning=True):
    """the C09 invariant on a dumped state; returns a list of complaints"""
    bad = []
    n = len(st["pos"])
    for f in ("typ", "chg", "grp", "xf"):
        if len(st[f]) != n:
            bad.append("per-atom array %s has %d entries for %d atoms" % (f, len(st[f]), n))
    if any(len(r) != len(st["xl"]) for r in st["xf"]):
        bad.append("extra atom field row width differs from label count")
    nt = len(st["t_el"])
    if not (len(st["t_mass"]) == nt and len(st["t_lab"]) == nt):
        bad.append("atom type tables differ in length: el %d mass %d lab %d" % (nt, len(st["t_mass"]), len(st["t_lab"])))
    if any(t >= nt or t < 0 for t in st["typ"]):
        bad.append("atom type id without type-level data")
    if st["t_pair"] and len(st["t_pair"]) != nt:
        bad.append("pair table has %d entries for %d atom types" % (len(st["t_pair"]), nt))
    for k, t_, c_, x_, l_, ar in KINDS:
        kk = st[k]
        m = len(kk["tup"])
        if len(kk["typ"]) != m or len(kk["xf"]) != m:
            bad.append("%s: %d tuples, %d types, %d extra rows" % (k, m, len(kk["typ"]), len(kk["xf"])))
        if any(len(t) != ar or any(v < 0 or v >= n for v in t) for t in kk["tup"]):
            bad.append("%s refer to atoms that do not exist" % k)
        if kk["coef"] and any(t >= len(kk["coef"]) or t < 0 for t in kk["typ"]):
            bad.append("%s type id without coefficient entry" % k)
    if bad or not check_meaning:
        return bad
    if "gid" in st["xl"]:
        gi = st["xl"].index("gid")
        for i, r in enumerate(st["xf"]):
            exp = M["atom"].get(r[gi])
            if exp is None:
                continue
            t = st["typ"][i]
            got = (st["t_lab"][t], st["t_el"][t], st["t_mass"][t], st["t_pair"][t] if st["t_pair"] else None)
            if got != exp:
                bad.append("atom %d (ghost %s) resolves to %s, was defined with %s" % (i, r[gi], got, exp))
    for k, *_ in KINDS:
        kk = st[k]
        if "tid" not in kk["xl"]:
            continue
        ti = kk["xl"].index("tid")
        for j, r in enumerate(kk["xf"]):
            exp = M[k].get(r[ti])
            if r[ti] not in M[k]:
                continue
            got = kk["coef"][kk["typ"][j]] if kk["coef"] else None
            if got != exp:
                bad.append("%s %d (ghost %s) resolves to %r, was defined with %r" % (k, j, r[ti], got, exp))
    return bad


def coef_norm(c):
    """coefficient text token for token, plus its (at most one) trailing comment"""
    body, _, comment = c.partition("#")
    return (tuple(body.split()), comment.strip())


def lmpdat_check(st):
    """write the state with the implementation, check declared counts against section lengths with an independent
    tokenizer, read back and compare (C09 last sentence).  Returns complaints."""
    A = AIO.to_atoms(st)
    buf = io.StringIO()
    with AIO.quiet():
        A.save_lmpdat(buf)
    text = buf.getvalue()
    lines = text.splitlines()
    declared = {}
    sections = {}
    cur = None
    names = ["Masses", "Pair Coeffs", "Bond Coeffs", "Angle Coeffs", "Dihedral Coeffs", "Improper Coeffs", "Atoms", "Bonds",
             "Angles", "Dihedrals", "Impropers"]
    for ln in lines[1:]:
        body = ln.split("#")[0].strip()
        if body in names:
            cur = body
            sections[cur] = []
            continue
        if not body:
            continue
        toks = body.split()
        if cur is None:
            if len(toks) == 2 and toks[1] in ("atoms", "bonds", "angles", "dihedrals", "impropers"):
                declared[toks[1]] = int(toks[0])
            elif len(toks) == 3 and toks[2] == "types":
                declared[toks[1] + " types"] = int(toks[0])
        else:
            sections[cur].append(toks)
    bad = []
    for sec, key in [("Atoms", "atoms"), ("Bonds", "bonds"), ("Angles", "angles"), ("Dihedrals", "dihedrals"), ("Impropers", "impropers")]:
        if declared.get(key, 0) != len(sections.get(sec, [])):
            bad.append("declared %d %s, section has %d lines" % (declared.get(key, 0), key, len(sections.get(sec, []))))
    for sec, key in [("Masses", "atom types"), ("Pair Coeffs", "atom types"), ("Bond Coeffs", "bond types"), ("Angle Coeffs", "angle types"),
                     ("Dihedral Coeffs", "dihedral types"), ("Improper Coeffs", "improper types")]:
        if sec in sections and declared.get(key, 0) != len(sections[sec]):
            bad.append("declared %d %s, %s has %d lines" % (declared.get(key, 0), key, sec, len(sections[sec])))
    for sec, key in [("Atoms", "atom types"), ("Bonds", "bond types"), ("Angles", "angle types"), ("Dihedrals", "dihedral types"), ("Impropers", "improper types")]:
        col = 2 if sec == "Atoms" else 1
        for toks in sections.get(sec, []):
            if int(toks[col]) > declared.get(key, 0):
                bad.append("%s line uses type %s but only %d %s are declared" % (sec, toks[col], declared.get(key, 0), key))
                break
    if bad:
        return bad
    from mofun import Atoms
    with AIO.quiet():
        B = Atoms.load_lmpdat(io.StringIO(text))
    if [int(x) for x in B.atom_types] != st["typ"]:
        bad.append("atom types differ after reading back")
    if [int(x) for x in B.groups] != st["grp"]:
        bad.append("groups differ after reading back")
    if not np.allclose(B.positions, np.array(st["pos"], dtype=float).reshape(-1, 3) / G, atol=1e-6):
        bad.append("positions differ after reading back")
    if [str(x) for x in B.atom_type_labels] != st["t_lab"]:
        bad.append("labels differ after reading back")
    if st.get("cell") is not None and (B.cell is None or not np.allclose(np.array(B.cell, float), np.array(st["cell"], float) / G, atol=2e-6)):
        bad.append("cell %s read back as %s" % ((np.array(st["cell"], float) / G).tolist(), None if B.cell is None else np.array(B.cell).tolist()))
    from mofun.atomic_masses import ATOMIC_MASSES
    if all(e in ATOMIC_MASSES and abs(ATOMIC_MASSES[e] - m / QS) < 2e-3 for e, m in zip(st["t_el"], st["t_mass"])):
        close = [e for e in st["t_el"] if sum(1 for x in ATOMIC_MASSES.values() if abs(x - ATOMIC_MASSES[e]) < 0.11) > 1]
        if not close and [str(x) for x in B.atom_type_elements] != st["t_el"]:
            bad.append("elements %s read back as %s" % (st["t_el"], [str(x) for x in B.atom_type_elements]))
    for k, t_, c_, x_, l_, ar in KINDS:
        tup = [tuple(int(v) for v in t) for t in np.array(getattr(B, k)).reshape(-1, ar).tolist()]
        if tup != [tuple(t) for t in st[k]["tup"]] or [int(x) for x in getattr(B, t_)] != st[k]["typ"]:
            bad.append("%s differ after reading back" % k)
        if [coef_norm(str(x)) for x in getattr(B, c_)] != [coef_norm(c) for c in st[k]["coef"]]:
            bad.append("%s coefficients differ after reading back" % k)
    return bad


def inj_maps(no, ns, limit=None):
    """all partial injective maps from range(no) into range(ns) as lists of pairs"""
    out = []
    for r in range(0, min(no, ns) + 1):
        for ks in itertools.combinations(range(no), r):
            for vs in itertools.permutations(range(ns), r):
                out.append(list(zip(ks, vs)))
    return out


def n_after(op, n):
    """atom count after op on n atoms, or None when op is outside the supported domain for n atoms"""
    k = op[0]
    if k == "del":
        return n - len(op[1]) if (op[1] and len(set(op[1])) == len(op[1]) and all(0 <= d < n for d in op[1])) else None
    if k == "pop":
        return n - 1 if (n >= 1 and -n <= op[1] < n) else None
    if k == "extend":
        m = op[2]
        ok = all(0 <= v < n for _, v in m) and len(set(v for _, v in m)) == len(m)
        return n + len(op[1]["pos"]) - len(m) if ok else None
    if k == "extend_twice":
        return n + 2 * len(op[1]["pos"])
    if k == "replicate":
        return n * op[1][0] * op[1][1] * op[1][2]
    if k == "subset":
        return len(op[1]) if all(0 <= i < n for i in op[1]) else None
    return n


def in_domain(n, ops):
    for o in ops:
        n = n_after(o, n)
        if n is None:
            return False
    return True


def gen_histories(run):
    return [h for h in gen_histories0(run) if in_domain(len(h[0]["pos"]), h[1])]


def gen_histories0(run):
    rng = run.rng
    hs = []
    # (a) bounded-exhaustive: 4-atom structure, 3-atom fragment, one term of every kind
    nexh = 0
    for coeffs in (True, False):
        base = tagged(rng, 4, "s", coeffs, cell=CELL, rich=True, max_terms=1)
        frag = tagged(rng, 3, "f", coeffs, rich=False, max_terms=1)
        frag["bonds"]["tup"] = [(0, 1)]
        frag["bonds"]["typ"] = [0]
        frag["bonds"]["xf"] = [["tfb0"] + ["q"] * (len(frag["bonds"]["xl"]) - 1)]
        if coeffs and not frag["bonds"]["coef"]:
            frag["bonds"]["coef"] = ["fb0 #c"]
        dels = [list(s) for r in (1, 2, 3) for s in itertools.combinations(range(4), r)]
        ops1 = [("del", d) for d in dels] + [("extend", frag, m) for m in inj_maps(3, 4) if len(m) <= 2][:40] + \
               [("extend_twice", frag), ("replicate", (1, 1, 2)), ("replicate", (2, 1, 1)), ("pop", -1), ("pop", 0), ("copy",), ("subset", [2, 0])]
        depth = 2
        first = ops1
        second = [("del", [0]), ("del", [1, 2]), ("extend", frag, []), ("extend", frag, [(0, 1)]), ("extend_twice", frag), ("pop", -1)]
        for o1 in first:
            for o2 in second:
                hs.append((base, [o1, o2], "exhaustive-depth2"))
                nexh += 1
        if run.tier == "thorough":
            for o1 in [("del", d) for d in dels]:
                for o2 in second:
                    for o3 in second:
                        hs.append((base, [o1, o2, o3], "exhaustive-depth3"))
    # (b) sequences that empty a kind and then add to it
    for coeffs in (True, False):
        for _ in range(10 if run.tier == "quick" else 60):
            base = tagged(rng, rng.randint(2, 5), "s", coeffs, cell=rng.choice([CELL] + MCELLS), rich=True)
            frag = tagged(rng, rng.randint(2, 4), "f", coeffs, rich=True)
            touched = sorted(set(v for k, *_ in KINDS for t in base[k]["tup"] for v in t))
            if len(touched) < len(base["pos"]) or len(base["pos"]) > 1:
                d = touched[:max(1, len(base["pos"]) - 1)]
                hs.append((base, [("del", d), ("extend", frag, []), ("extend", frag, [])], "empty-then-add"))
            hs.append((base, [("del", list(range(len(base["pos"])))), ("extend", frag, []), ("extend_twice", frag)], "delete-all-then-add"))
    # (b2) a fragment term that re-states an existing term in the OPPOSITE atom order, at a different list position, through an identity map
    for coeffs in (True, False):
        for rep in range(4 if run.tier == "quick" else 30):
            base = tagged(rng, 5, "s", coeffs, cell=CELL, rich=True, max_terms=1)
            frag = tagged(rng, 3, "f", coeffs, rich=True, max_terms=1)
            for kname, t_, c_, x_, l_, ar in KINDS:
                pool = [tuple(rng.sample(range(5), ar)) for _ in range(4)]
                seen = []
                for t in pool:
                    if t not in seen and t[::-1] not in seen:
                        seen.append(t)
                base[kname]["tup"] = seen
                base[kname]["typ"] = [0] * len(seen)
                base[kname]["xf"] = [["ts%s%d" % (kname[0], j)] + ["q"] * (len(base[kname]["xl"]) - 1) for j in range(len(seen))]
                if coeffs and not base[kname]["coef"]:
                    base[kname]["coef"] = ["s%s0 #c" % kname[0]]
            # the fragment's atoms 0,1,2 are declared identical to three atoms of the structure; its terms mirror existing ones reversed
            m = list(zip(range(3), rng.sample(range(5), 3)))
            inv = {v: k for k, v in m}
            for kname, t_, c_, x_, l_, ar in KINDS:
                cands = [t for t in base[kname]["tup"] if all(v in inv for v in t)]
                frag[kname]["tup"] = [tuple(inv[v] for v in t[::-1]) for t in cands[-1:]] if cands and ar <= 3 else []
                frag[kname]["typ"] = [0] * len(frag[kname]["tup"])
                frag[kname]["xf"] = [["tf%s%d" % (kname[0], j)] + ["q"] * (len(frag[kname]["xl"]) - 1) for j in range(len(frag[kname]["tup"]))]
                if coeffs and not frag[kname]["coef"]:
                    frag[kname]["coef"] = ["f%s0 #c" % kname[0]]
            hs.append((base, [("extend", frag, m), ("del", [0])], "override-reversed"))
    # (b3) real elements with their tabulated masses: the LAMMPS file must read back with the same elements
    from mofun.atomic_masses import ATOMIC_MASSES
    for rep in range(4 if run.tier == "quick" else 30):
        n = rng.randint(3, 7)
        base = tagged(rng, n, "s", True, cell=OCELL, rich=True)
        els = rng.sample(["K", "Ni", "I", "C", "H", "O", "Zr", "Ar", "Co", "Te", "Cu", "N", "Pa", "Th"], len(base["t_el"]))
        base["t_el"] = els
        base["t_mass"] = [int(round(ATOMIC_MASSES[e] * QS)) for e in els]
        frag = tagged(rng, 2, "f", True, rich=True)
        fels = rng.sample(["S", "Cl", "F", "Np", "U"], len(frag["t_el"]))
        frag["t_el"] = fels
        frag["t_mass"] = [int(round(ATOMIC_MASSES[e] * QS)) for e in fels]
        hs.append((base, [("extend", frag, []), ("del", [0])], "real-elements"))
    # (c) random longer histories
    nrand = 120 if run.tier == "quick" else 1500
    for h in range(nrand):
        coeffs = h % 3 != 2
        n = rng.randint(1, 8)
        cur_n = n
        base = tagged(rng, n, "s", coeffs, cell=[CELL, OCELL, MCELLS[(h // 2) % 4]][h % 3])
        ops = []
        for step in range(rng.randint(2, 8)):
            kind = rng.choice(["extend", "extendmap", "twice", "del", "del", "replicate", "pop", "copy"])
            if kind == "del" and cur_n > 1:
                d = rng.sample(range(cur_n), rng.randint(1, cur_n - 1))
                ops.append(("del", d))
                cur_n -= len(d)
            elif kind == "pop" and cur_n > 1:
                ops.append(("pop", rng.choice([-1, 0, cur_n - 1, -cur_n])))
                cur_n -= 1
            elif kind in ("extend", "extendmap", "twice"):
                no = rng.randint(1, 4)
                o = tagged(rng, no, "o%d" % step, coeffs)
                if kind == "twice":
                    ops.append(("extend_twice", o))
                    cur_n += 2 * no
                else:
                    m = []
                    if kind == "extendmap" and cur_n > 0:
                        r = rng.randint(1, min(no, cur_n))
                        m = list(zip(rng.sample(range(no), r), rng.sample(range(cur_n), r)))
                    ops.append(("extend", o, m))
                    cur_n += no - len(m)
            elif kind == "replicate" and cur_n <= 10:
                r = (rng.randint(1, 2), rng.randint(1, 2), rng.randint(1, 3))
                ops.append(("replicate", r))
                cur_n *= r[0] * r[1] * r[2]
            elif kind == "copy":
                ops.append(("copy",))
        if ops:
            hs.append((base, ops, "random"))
    return hs


def main(tier, seed, replay=None):
    run = Run("C09", tier, seed)
    ok_static = run.build_static()
    run.grep_gate()
    found_input = False
    if ok_static:
        run.compile_property("theories/Properties/C09.v")
        hs = []
        if replay:
            r = json.load(open(replay))
            if "input" in r:
                hs.append((r["input"]["init"], [tuple(o) for o in r["input"]["ops"]], "replay"))
        for name, c in corpus("C09"):
            hs.append((c["init"], [tuple(o) for o in c["ops"]], "corpus:" + name))
        if not replay:
            hs += gen_histories(run)
        I = AIO.Interner()
        lits = []
        for init, ops, kind in hs:
            M = {"atom": {}, "bonds": {}, "angles": {}, "dihedrals": {}, "impropers": {}}
            meanings(init, M)
            for o in ops:
                if o[0] in ("extend", "extend_twice", "extend_offs"):
                    meanings(o[1], M)
            st0, states = AIO.run_history(init, ops)
            run.cov["evaluations"] += 1
            run.count(kind.split(":")[0])
            run.count("len=%d" % len(ops))
            for o in ops:
                run.count("op=" + o[0])
            complaints = []
            after_subset = False
            for i, s in enumerate(states):
                if isinstance(s, tuple):
                    complaints.append("step %d (%s) raised %s" % (i, ops[i][0], s[1]))
                    break
                if ops[i][0] == "subset":
                    after_subset = True
                complaints += ["after step %d (%s): %s" % (i, ops[i][0], c) for c in wf_and_meaning(s, M, check_meaning=not after_subset)]
            last = states[-1] if states and not isinstance(states[-1], tuple) else None
            if last is not None and len(last["pos"]) >= 1 and not complaints:
                complaints += ["lammps: " + c for c in lmpdat_check(last)]
            if complaints:
                found_input = True
                run.violation("failing-input", {"input": {"init": init, "ops": [list(o) for o in ops]},
                                                "observed": complaints[:6], "expected": "consistent sizes, valid references, every ghost-tagged atom/term resolves to the text it was defined with; writable as LAMMPS data",
                                                "case_kind": kind})
            changed = sum(1 for o in ops if o[0] != "copy")
            if changed >= 2 and last is not None and any(last[k]["tup"] for k, *_ in KINDS):
                run.nontrivial((init, [list(o) for o in ops]))
            lits.append(AIO.case_literal(st0, ops, states, I))
            run.sample({"n_atoms": len(init["pos"]), "ops": [o[0] + (str(o[1]) if o[0] in ("del", "pop", "replicate", "subset") else "") for o in ops], "kind": kind})
        failing = run.correspond("c09", AIO.ATOMS_HEADER, lits, shard=60)
        for f in failing:
            if f[0] == "case":
                run.notes.append("model/implementation disagreement on history %d (%s)" % (f[1], hs[f[1]][2]))
    run.settle_broken(found_input)
    return run.finish(
        rule="operation histories over small structures: depth-2 (thorough: depth-3) sequences over a 4-atom structure and 3-atom fragment "
             "with every deletion subset and small identity maps, with and without coefficient tables; sequences that empty a term kind "
             "or delete all atoms before adding; random histories of 2-8 operations (extend, extend with identity map, extend twice with "
             "shared offsets, delete, pop, replicate, copy).  After every step the full state is compared with the Coq model and the "
             "consistency/meaning invariant is evaluated through ghost ids; the final state is written as LAMMPS data, its declared counts "
             "checked and read back.  Non-trivial = >= 2 state-changing operations and >= 1 term at the end; distinct = distinct (init, ops).",
        assumptions=["Python aliasing/in-place mutation is exercised, not modelled", "LAMMPS text glue (formatting, tokenising) exercised through the implementation's own reader plus an independent tokenizer for the counts"])


if __name__ == "__main__":
    sys.exit(main("quick", 1))
