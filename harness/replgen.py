"""Replacement problems (C04-C08): generator, implementation driver, Gallina literals and the property oracle."""
import contextlib
import copy
import io
import json
import random as pyrandom
from fractions import Fraction

import numpy as np

import atoms_io as AIO
import findgen as FG
from atoms_io import G, QS, FINE, KINDS
from common import gal, N, Some

K = FINE // G


def empty_kind(coef=None, xl=None):
    return dict(tup=[], typ=[], coef=list(coef or []), xl=list(xl or []), xf=[])


def mk_state(els, pos, cell, rng, tag, coeffs, split_types=False, xlabels=("x",), charges=True):
    """state with one type per element (optionally two for some elements), given grid positions"""
    types = []
    tname = []
    typ = []
    for e in els:
        cands = [i for i, (el, _) in enumerate(tname) if el == e]
        if not cands or (split_types and len(cands) < 2 and rng.random() < 0.3):
            tname.append((e, "%s_%s%d" % (e, tag, len(cands))))
            cands = [len(tname) - 1]
        typ.append(rng.choice(cands))
    n = len(els)
    xl = list(xlabels)
    st = dict(pos=[tuple(int(v) for v in p) for p in pos], typ=typ,
              chg=[(rng.randrange(-2 * QS, 2 * QS, 32) if charges else 0) for _ in range(n)], grp=[rng.randrange(0, 3) for _ in range(n)],
              xl=xl, xf=[["%s%d%s" % (tag, i, l) for l in xl] for i in range(n)],
              t_el=[e for e, _ in tname], t_mass=[(12 + i) * QS + 64 * (i + 1) for i in range(len(tname))], t_lab=[l for _, l in tname],
              t_pair=(["%s_pair%d 1.0%s" % (tag, i, " 3.400000 # long comment" if tag == "r" else "") for i in range(len(tname))] if coeffs else []),
              cell=None if cell is None else [tuple(int(v) for v in r) for r in cell])
    for k, *_ in KINDS:
        st[k] = empty_kind()
    return st


def add_terms(st, rng, tag, coeffs, tuples_by_kind, ntypes=2, xl=("ka",)):
    for (k, t_, c_, x_, l_, ar) in KINDS:
        tups = [tuple(t) for t in tuples_by_kind.get(k, [])]
        nt = rng.randint(1, ntypes)
        long = " 350.123456 1.350000 0.000001" if (tag == "r" and rng.random() < 0.5) else ""
        st[k] = dict(tup=tups, typ=[rng.randrange(nt) for _ in tups], coef=(["%s%s%d 1.5%s #c%d" % (tag, k[0], i, long, i) for i in range(nt)] if coeffs else []),
                     xl=list(xl), xf=[["%s%s%d%s" % (tag, k[0], j, l) for l in xl] for j in range(len(tups))])


def rand_tuples(rng, pool, ar, m):
    out = []
    for _ in range(m):
        if len(pool) >= ar:
            t = tuple(rng.sample(pool, ar))
            if t not in out and t[::-1] not in out:
                out.append(t)
    return out


def same_atoms(repl, search):
    """mirror of find_unchanged_atom_pairs(repl, search) on grid coordinates: dict k -> v (first match)"""
    m = {}
    for i in range(len(repl["pos"])):
        for j in range(len(search["pos"])):
            if tuple(repl["pos"][i]) == tuple(search["pos"][j]) and repl["t_el"][repl["typ"][i]] == search["t_el"][search["typ"][j]]:
                m[i] = j
                break
    return m


def make_repl(rng, search, mode, coeffs, tag="r"):
    """replacement pattern state derived from the search pattern state"""
    n = len(search["pos"])
    sel_el = [search["t_el"][t] for t in search["typ"]]
    pos = [tuple(p) for p in search["pos"]]
    if mode == "empty":
        st = mk_state([], [], None, rng, tag, coeffs)
        return st
    if mode == "identical":
        els = list(sel_el)
    elif mode == "subset":
        keep = sorted(rng.sample(range(n), max(1, rng.randint(1, n) - (1 if n > 1 else 0))))
        els = [sel_el[i] for i in keep]
        pos = [pos[i] for i in keep]
    elif mode == "substitute":
        els = list(sel_el)
        for i in rng.sample(range(n), rng.randint(1, n)):
            els[i] = rng.choice(["F", "Cl", "Hf", "S"])
    elif mode == "larger":
        els = list(sel_el)
        extra = rng.randint(1, 3)
        for _ in range(extra):
            base = pos[rng.randrange(n)]
            p = tuple(base[d] + rng.randrange(-2 * G, 2 * G, 256) for d in range(3))
            if p not in pos:
                pos.append(p)
                els.append(rng.choice(["H", "F", "O"]))
        if rng.random() < 0.5 and n > 1:
            i = rng.randrange(n)
            els[i] = rng.choice(["F", "S"])
    elif mode == "disjoint":
        els = list(sel_el)
        pos = [(p[0] + 8, p[1], p[2] - 8) for p in pos]
    else:
        raise ValueError(mode)
    st = mk_state(els, pos, None, rng, tag, coeffs, xlabels=rng.choice([("x",), ("y",), ("x", "y"), ()]))
    idx = list(range(len(pos)))
    tk = {"bonds": rand_tuples(rng, idx, 2, rng.randint(0, 3)), "angles": rand_tuples(rng, idx, 3, rng.randint(0, 2)),
          "dihedrals": rand_tuples(rng, idx, 4, rng.randint(0, 2)), "impropers": rand_tuples(rng, idx, 4, rng.randint(0, 1))}
    add_terms(st, rng, tag, coeffs, tk, xl=rng.choice([("ka",), ("kb",), ()]))
    return st


def make_problem(rng, k, repl_mode=None, flavor="mixed", coeffs=None, pattern=None, with_terms=True, cif_like=False, big=None, cellkind=None):
    """a planted structure with bystanders, pre-existing terms, a search pattern and a replacement pattern"""
    c = None
    tries = 0
    while c is None or not c["planted"]:
        c = FG.make_case(rng, k + 1000 * tries, flavor=flavor, pattern=pattern, big=big, cellkind=cellkind)
        tries += 1
        if tries > 50:
            return None
    if coeffs is None:
        coeffs = rng.random() < 0.6
    els = list(c["els"])
    pos = [FG.zv(p) for p in c["pos"]]
    cell = [FG.zv(r) for r in c["cell"]]
    cm = np.array(cell, float)
    inv = np.linalg.inv(cm)
    nb = rng.randint(1, 4)
    for _ in range(nb):          # bystanders of elements that do not occur in the pattern
        for _ in range(30):
            p = [int(v) for v in np.round(np.array([rng.random() for _ in range(3)]) @ cm)]
            ff = np.array(p, float) @ inv
            if ff.min() > 1e-9 and ff.max() < 1 - 1e-9 and all(FG.min_image_dist(cm / G, inv * G, np.array(q, float) / G, np.array(p, float) / G) > 0.9 for q in pos):
                pos.append(tuple(p))
                els.append(rng.choice(["Xe", "Ar", "Kr"]))
                break
    if all(cell[i][j] == 0 for i in range(3) for j in range(3) if i != j) and all(cell[i][i] > 0 for i in range(3)) and rng.random() < 0.6:
        # orthorhombic box: bystanders that are stored outside the half-open box [0, L) - just below zero, exactly on an upper face
        for p in ([-rng.randrange(64, 2048), rng.randrange(0, cell[1][1]), rng.randrange(0, cell[2][2])],
                  [cell[0][0], rng.randrange(0, cell[1][1]), rng.randrange(0, cell[2][2])]):
            if all(FG.min_image_dist(cm / G, inv * G, np.array(q, float) / G, np.array(p, float) / G) > 0.9 for q in pos):
                pos.append(tuple(int(v) for v in p))
                els.append("Rn")
    S = mk_state(els, pos, cell, rng, "s", coeffs and not cif_like, split_types=True, xlabels=rng.choice([("x",), ("x", "y"), ()]))
    if cif_like:
        S["t_pair"] = []
    search = mk_state(list(c["pel"]), [FG.zv(p) for p in c["pp"]], None, rng, "p", coeffs, xlabels=())
    add_terms(search, rng, "p", coeffs, {"bonds": rand_tuples(rng, list(range(len(c["pel"]))), 2, 1)}, xl=())
    mode = repl_mode or rng.choice(["empty", "identical", "subset", "substitute", "larger", "disjoint"])
    repl = make_repl(rng, search, mode, coeffs)
    if with_terms and not cif_like:
        n = len(pos)
        allidx = list(range(n))
        byst = [i for i in allidx if all(i not in g for g in c["planted"])]
        inside = [i for g in c["planted"] for i in g]
        tk = {}
        for (kname, t_, c_, x_, l_, ar) in KINDS:
            t = rand_tuples(rng, inside, ar, rng.randint(0, 2)) + rand_tuples(rng, allidx, ar, rng.randint(0, 2)) + rand_tuples(rng, byst, ar, rng.randint(0, 1))
            # a pre-existing term on exactly the atoms a pattern term will be mapped to (forwards or reversed): must be superseded
            shared = same_atoms(repl, search) if len(repl["pos"]) else {}
            for pt in repl[kname]["tup"]:
                if all(v in shared for v in pt) and rng.random() < 0.6:
                    g = rng.choice(c["planted"])
                    mapped = tuple(g[shared[v]] for v in pt)
                    t.append(mapped if rng.random() < 0.5 else mapped[::-1])
                    # a different term on the same atom set in another, non-reversed order (e.g. the other angles of a three-ring):
                    # it is NOT on "the same atoms forwards or backwards" and must survive
                    if len(mapped) >= 3 and rng.random() < 0.7:
                        rot = mapped[1:] + mapped[:1]
                        if rot != mapped and rot != mapped[::-1]:
                            t.append(rot)
            seen = []
            for x in t:
                if x not in seen and x[::-1] not in seen:
                    seen.append(x)
            tk[kname] = seen
        add_terms(S, rng, "s", coeffs and not cif_like, tk, xl=rng.choice([("ka",), ("ka", "kb"), ()]))
    return dict(case=c, S=S, search=search, repl=repl, mode=mode, coeffs=coeffs, atol=c["atol"], hints=c["hints"], cif_like=cif_like,
                empty_keeps_tables=(mode == "empty" and k % 2 == 1))


def build_atoms(st, scale=G):
    from mofun import Atoms
    if len(st["pos"]) == 0:
        with AIO.quiet():
            return Atoms()
    return AIO.to_atoms(st, pos_scale=scale)


def run_replace(p, frac, replace_all, ignore, seed):
    """runs the implementation; returns a dict with matches, selection, outcome and dumps"""
    from mofun import find_pattern_in_structure, replace_pattern_in_structure
    from mofun.mofun import AtomsShouldNotBeDeletedTwice
    sc = p.get("scale", G)
    S, search, repl = build_atoms(p["S"], sc), build_atoms(p["search"], sc), build_atoms(p["repl"], sc)
    if len(p["repl"]["pos"]) == 0 and p.get("empty_keeps_tables"):
        # an empty replacement that is not a blank Atoms(): a copy of the search pattern with every atom removed (its type tables stay)
        with AIO.quiet():
            repl = search.copy()
            del repl[list(range(len(repl)))]
    before = [AIO.dump(S, sc), AIO.dump(search, sc), AIO.dump(repl, sc) if len(p["repl"]["pos"]) else None]
    kw = {}
    if p["hints"] is not None:
        kw = dict(axisp1_idx=p["hints"][0], axisp2_idx=p["hints"][1], opoint_idx=p["hints"][2])
    f = float(frac)
    pyrandom.seed(seed)
    np.random.seed(seed % (2 ** 32))
    st = search.copy()
    st.translate(-search.positions[0])
    with AIO.quiet(), contextlib.redirect_stdout(io.StringIO()):
        idx, mpos, quats = find_pattern_in_structure(S, st, atol=float(p["atol"]), return_positions_and_quats=True, **kw)
    M = len(idx)
    order = list(range(M))
    if f < 1.0:
        order = pyrandom.sample(list(range(M)), k=round(f * M))
    sel = [(tuple(int(i) for i in idx[i]), np.array(mpos[i]), quats[i]) for i in order]
    pyrandom.seed(seed)
    np.random.seed(seed % (2 ** 32))
    res = dict(found=M, sel=sel, all_matches=[tuple(int(i) for i in m) for m in idx])
    try:
        with AIO.quiet(), contextlib.redirect_stdout(io.StringIO()):
            new, kk = replace_pattern_in_structure(S, search, repl, replace_fraction=f, atol=float(p["atol"]), replace_all=replace_all,
                                                   ignore_atoms_should_not_be_deleted_twice=ignore, return_num_matches=True, **kw)
        new.assert_arrays_are_consistent_sizes()
        res["outcome"] = "ok"
        res["k"] = int(kk)
        res["new"] = new
        res["out"] = AIO.dump(new, pos_scale=FINE, strict=False)
    except AtomsShouldNotBeDeletedTwice:
        res["outcome"] = "overlap"
    except Exception as e:    # noqa
        res["outcome"] = "error"
        res["error"] = "%s: %s" % (type(e).__name__, e)
    after = [AIO.dump(S, sc), AIO.dump(search, sc), AIO.dump(repl, sc) if len(p["repl"]["pos"]) else None]
    res["inputs_unmodified"] = before == after
    return res


def fine_state(st, scale=G):
    kk = FINE // scale
    f = copy.deepcopy(st)
    f["pos"] = [tuple(v * kk for v in p) for p in st["pos"]]
    if st.get("cell") is not None:
        f["cell"] = [tuple(v * kk for v in r) for r in st["cell"]]
    return f


def placed_lists(p, res, replace_all):
    """per selected match the placed coordinates (fine units) of all replacement atoms: inserted ones are read from the tail of the
    output, retained ones are filled with the harness's own float placement (they are not used by the model)"""
    repl, search = p["repl"], p["search"]
    nr = len(repl["pos"])
    shared = {} if (replace_all or nr == 0) else same_atoms(repl, search)
    to_add = [i for i in range(nr) if i not in shared]
    out = res.get("out")
    k = len(res["sel"])
    lists = []
    tail = []
    if out is not None and len(to_add) * k <= len(out["pos"]):
        tail = out["pos"][len(out["pos"]) - len(to_add) * k:] if len(to_add) * k else []
    sc = p.get("scale", G)
    s0 = np.array(search["pos"][0], float) / sc
    for mi, (idx, mpos, q) in enumerate(res["sel"]):
        pl = []
        for j in range(nr):
            if j in to_add and tail:
                pl.append(tuple(tail[mi * len(to_add) + to_add.index(j)]))
            else:
                x = q.apply(np.array(repl["pos"][j], float) / sc - s0) + mpos[0]
                pl.append(tuple(int(round(v * FINE)) for v in x))
        lists.append(pl)
    return lists


def case_literal(p, res, frac, replace_all, ignore, I):
    sc = p.get("scale", G)
    S, search, repl = fine_state(p["S"], sc), fine_state(p["search"], sc), fine_state(p["repl"], sc)
    placed = placed_lists(p, res, replace_all)
    sel = []
    for (idx, mpos, q), pl in zip(res["sel"], placed):
        sel.append("(mk_rmatch %s %s %s %s)" % (gal([N(i) for i in idx]), gal([tuple(int(round(float(v) * FINE)) for v in x) for x in mpos]),
                                                gal(FG.exact_quat(q)), gal([tuple(x) for x in pl])))
    if res["outcome"] == "ok":
        obs = "(ObsOk %s %d%%nat)" % (AIO.gal_atoms(res["out"], I), res["k"])
    elif res["outcome"] == "overlap":
        obs = "ObsOverlap"
    else:
        obs = "ObsError"
    fr = Fraction(frac)
    tol = "{| tn := %d; td := %d |}" % (p["atol"].numerator * FINE, p["atol"].denominator)
    hints = "None" if p["hints"] is None else "(Some (%d%%nat, %d%%nat, %d%%nat))" % tuple(p["hints"])
    return "mk_case %s %s %s %s %s [%s] %d%%nat (%d, %d) %s %s %s" % (
        AIO.gal_atoms(S, I), AIO.gal_atoms(search, I), AIO.gal_atoms(repl, I), gal(bool(replace_all)), gal(bool(ignore)),
        "; ".join(sel), res["found"], fr.numerator, fr.denominator, tol, hints, obs)


REPLACE_HEADER = ("From Coq Require Import ZArith List.\nFrom Mofun Require Import Lib.NP Model.Atoms Model.Geom Model.Replace Corr.CorrLib Corr.AtomsCorr Corr.ReplaceCorr.\n"
                  "Import ListNotations.\nOpen Scope Z_scope.\nDefinition case := Corr.ReplaceCorr.case.\nDefinition failing := Corr.ReplaceCorr.failing.\n"
                  "Definition spec_failing := Corr.ReplaceCorr.spec_failing.\nDefinition explain_failing := Corr.ReplaceCorr.explain_failing.\n"
                  "Definition mk_case := Corr.ReplaceCorr.mk_case.\n")


# ------------------------------------------------------------------------------------------------ the property oracle

def resolved_atom(st, i):
    t = st["typ"][i]
    return dict(pos=tuple(st["pos"][i]), chg=st["chg"][i], grp=st["grp"][i], lab=st["t_lab"][t], el=st["t_el"][t], mass=st["t_mass"][t],
                pair=(st["t_pair"][t] if st["t_pair"] and t < len(st["t_pair"]) else None), xf=dict(zip(st["xl"], st["xf"][i])))


def resolved_terms(st, k):
    kk = st[k]
    return [dict(tup=tuple(t), coef=(kk["coef"][ty] if kk["coef"] and ty < len(kk["coef"]) else None), xf=dict(zip(kk["xl"], x)))
            for t, ty, x in zip(kk["tup"], kk["typ"], kk["xf"])]


def fill(d, labels):
    return {l: d.get(l, ".") for l in labels}


def expected(p, sel_idx, replace_all):
    """what C04 and C06 say the result is (resolved view, independent of type numbering).  Positions of inserted atoms are left open
    (None): they are decided by the placement check."""
    sc = p.get("scale", G)
    S, search, repl = fine_state(p["S"], sc), p["search"], fine_state(p["repl"], sc)
    n = len(S["pos"])
    nr = len(repl["pos"])
    shared = {} if (replace_all or nr == 0) else same_atoms(p["repl"], search)
    to_add = [j for j in range(nr) if j not in shared]
    labels = list(S["xl"]) + [l for l in repl["xl"] if l not in S["xl"]] if nr else list(S["xl"])
    atoms = [resolved_atom(S, i) for i in range(n)]
    for a in atoms:
        a["xf"] = fill(a["xf"], labels)
    removed = set()
    terms = {k: [dict(t, xf=fill(t["xf"], (list(S[k]["xl"]) + [l for l in repl[k]["xl"] if l not in S[k]["xl"]]) if nr else list(S[k]["xl"]))) for t in resolved_terms(S, k)] for k, *_ in KINDS}
    overlap = False
    for idx in sel_idx:
        phi = {}
        for j in range(nr):
            if j in shared:
                phi[j] = idx[shared[j]]
        rem = set(idx) - set(phi.values())
        if removed & rem:
            overlap = True
        removed |= rem
        if nr == 0:
            continue
        for j, i in phi.items():
            ra = resolved_atom(repl, j)
            atoms[i].update(lab=ra["lab"], el=ra["el"], mass=ra["mass"], pair=ra["pair"])
            if labels and n > 0:
                atoms[i]["xf"] = fill(ra["xf"], labels)
        for j in to_add:
            ra = resolved_atom(repl, j)
            ra["pos"] = None
            ra["xf"] = fill(ra["xf"], labels)
            phi[j] = len(atoms)
            atoms.append(ra)
        for k, *_ in KINDS:
            kl = list(S[k]["xl"]) + [l for l in repl[k]["xl"] if l not in S[k]["xl"]]
            new = [dict(t, tup=tuple(phi[v] for v in t["tup"]), xf=fill(t["xf"], kl)) for t in resolved_terms(repl, k)]
            if new:
                nt = set(t["tup"] for t in new) | set(t["tup"][::-1] for t in new)
                terms[k] = [t for t in terms[k] if t["tup"] not in nt] + new
    keep = [i for i in range(len(atoms)) if i not in removed]
    ren = {old: new for new, old in enumerate(keep)}
    atoms_out = [atoms[i] for i in keep]
    terms_out = {k: [dict(t, tup=tuple(ren[v] for v in t["tup"])) for t in terms[k] if not (set(t["tup"]) & removed)] for k in terms}
    return dict(atoms=atoms_out, terms=terms_out, overlap=overlap, removed=removed, n_inserted=len(to_add) * len(sel_idx), labels=labels)


def compare(p, res, replace_all, ignore, frac, parts=("atoms", "terms", "count")):
    """returns a list of complaints (empty = the property holds on this run)"""
    bad = []
    sel_idx = [s[0] for s in res["sel"]]
    exp = expected(p, sel_idx, replace_all)
    nr = len(p["repl"]["pos"])
    should_raise = exp["overlap"] and not ignore and nr > 0
    if "outcome" in parts or "count" in parts:
        if res["outcome"] == "error":
            return ["raised " + res["error"]]
        if should_raise and res["outcome"] != "overlap":
            bad.append("two selected matches remove the same atom but no overlap error was raised")
        if not should_raise and res["outcome"] == "overlap":
            bad.append("overlap error raised although no atom would be removed twice")
    if res["outcome"] != "ok":
        return bad
    out = res["out"]
    if "count" in parts:
        M = res["found"]
        k = len(sel_idx)
        f = Fraction(frac)
        if res["k"] != k:
            bad.append("reported %d replaced matches, %d were selected" % (res["k"], k))
        if f >= 1:
            if k != M:
                bad.append("fraction >= 1 but %d of %d matches replaced" % (k, M))
        elif abs(k - f * M) > Fraction(1, 2):
            bad.append("%d matches replaced, %s of %d found" % (k, f, M))
        if not res["inputs_unmodified"]:
            bad.append("an input object (structure or a pattern) was modified")
        if any(m not in res["all_matches"] for m in sel_idx):
            bad.append("a replaced match was not among the found matches")
    if exp["overlap"] and nr > 0:
        return bad           # with the ignore flag the result is unspecified beyond 'each atom removed at most once'
    got_atoms = [resolved_atom(out, i) for i in range(len(out["pos"]))]
    if "atoms" in parts:
        if len(got_atoms) != len(exp["atoms"]):
            bad.append("%d atoms, expected %d" % (len(got_atoms), len(exp["atoms"])))
        else:
            for i, (g, e) in enumerate(zip(got_atoms, exp["atoms"])):
                ge = dict(g)
                if e["pos"] is None:
                    ge["pos"] = None
                keys = ("pos", "chg", "grp", "lab", "el", "mass") if "terms" not in parts else ("pos", "chg", "grp", "lab", "el", "mass", "pair", "xf")
                ge["xf"] = fill(g["xf"], exp["labels"])
                for kf in keys:
                    if ge[kf] != e[kf]:
                        bad.append("atom %d: %s is %r, expected %r" % (i, kf, ge[kf], e[kf]))
                        break
                if len(bad) > 4:
                    break
    if "terms" in parts:
        for k, *_ in KINDS:
            got = [(t["tup"], t["coef"], tuple(sorted(t["xf"].items()))) for t in resolved_terms(out, k)]
            ex = [(t["tup"], t["coef"], tuple(sorted(t["xf"].items()))) for t in exp["terms"][k]]
            if got != ex:
                bad.append("%s are %s, expected %s" % (k, [g[:2] for g in got][:5], [e[:2] for e in ex][:5]))
    return bad


def problem_json(p):
    return {"case": FG.case_json(p["case"]), "S": p["S"], "search": p["search"], "repl": p["repl"], "mode": p["mode"], "coeffs": p["coeffs"],
            "atol": [p["atol"].numerator, p["atol"].denominator], "hints": p["hints"], "cif_like": p.get("cif_like", False),
            "empty_keeps_tables": p.get("empty_keeps_tables", False)}


def problem_from_json(j):
    def fix(st):
        st = copy.deepcopy(st)
        st["pos"] = [tuple(x) for x in st["pos"]]
        if st.get("cell") is not None:
            st["cell"] = [tuple(r) for r in st["cell"]]
        for k, *_ in KINDS:
            st[k]["tup"] = [tuple(t) for t in st[k]["tup"]]
        return st
    return dict(case=FG.case_from_json(j["case"]), S=fix(j["S"]), search=fix(j["search"]), repl=fix(j["repl"]), mode=j["mode"], coeffs=j["coeffs"],
                atol=Fraction(j["atol"][0], j["atol"][1]), hints=tuple(j["hints"]) if j["hints"] else None, cif_like=j.get("cif_like", False), empty_keeps_tables=j.get("empty_keeps_tables", False))
