"""C15 -- P1 CIF files round-trip."""
import contextlib
import io
import json
import os
import re
import shutil
import sys

import numpy as np

from common import Run, corpus, gal, N, Some, GEN

KINDS = [("bonds", "bond_types", "extra_bond_fields", "extra_bond_labels", 2), ("angles", "angle_types", "extra_angle_fields", "extra_angle_labels", 3),
         ("dihedrals", "dihedral_types", "extra_dihedral_fields", "extra_dihedral_labels", 4), ("impropers", "improper_types", "extra_improper_fields", "extra_improper_labels", 4)]


def quiet():
    return contextlib.redirect_stderr(io.StringIO()), contextlib.redirect_stdout(io.StringIO())


def gen_struct(rng, k):
    n = rng.randint(1, 9)
    els = [rng.choice(["C", "H", "O", "N", "Zr", "Cu", "Cl"]) for _ in range(n)]
    ck = ["ortho", "tric", "tric-neg", "rotated", "ortho", "rot-ortho", "mono"][k % 7]
    L = [rng.uniform(6, 25) for _ in range(3)]
    cell = np.diag(L)
    if ck != "ortho":
        for (i, j) in ((1, 0), (2, 0), (2, 1)):
            cell[i, j] = (rng.choice([-1, 1]) if ck != "tric" else 1) * rng.uniform(0.05, 0.4) * L[j]
    if ck == "rotated":
        import findgen as FG
        cell = cell @ FG.qrot(FG.rand_quat(rng)).T
    if ck == "rot-ortho":
        # all angles exactly 90 degrees, vectors not along the coordinate axes (exact rotations / axis permutations)
        import findgen as FG
        cell = FG.make_cell(rng, 6.0, "rot-ortho")
    if ck == "mono":
        cell = np.diag(L)
        i, j = rng.choice([(1, 0), (2, 0), (2, 1)])
        cell[i, j] = rng.choice([-1, 1]) * rng.uniform(0.1, 0.4) * L[j]
    place = ["inside", "outside", "boundary", "inside"][(k // 5) % 4]
    frac = []
    for _ in range(n):
        if place == "inside":
            f = [rng.uniform(0.01, 0.99) for _ in range(3)]
        elif place == "outside":
            f = [rng.uniform(-2.5, 3.5) for _ in range(3)]
        else:
            f = [rng.choice([0.0, 1.0, 0.99996, 0.00004, -0.00003, rng.random()]) for _ in range(3)]
        frac.append(f)
    pos = np.array(frac) @ cell
    split = [rng.randrange(2) for _ in range(n)] if k % 2 == 1 else None
    st = dict(els=els, split=split, pos=pos.tolist(), cell=cell.tolist(), chg=[round(rng.uniform(-2, 2), rng.choice([1, 3, 6])) for _ in range(n)], ck=ck, place=place)
    with_imp = (k % 3 == 0)
    for name, t_, x_, l_, ar in KINDS:
        m = rng.randint(0, 3) if n >= ar else 0
        if name == "impropers" and not with_imp:
            m = 0
        st[name] = [tuple(rng.sample(range(n), ar)) for _ in range(m)]
    st["xa_labels"] = rng.choice([[], ["_atom_site_occupancy"], ["_atom_site_occupancy", "_atom_site_symmetry_multiplicity"]])
    st["xa"] = [["%d.%d" % (rng.randint(0, 1), rng.randint(0, 9)) if l.endswith("occupancy") else str(rng.randint(1, 4)) for l in st["xa_labels"]] for _ in range(n)]
    st["xb_labels"] = rng.choice([[], ["_geom_bond_distance"], ["_geom_bond_distance", "_ccdc_geom_bond_type"]])
    st["xb"] = [[("%.3f" % rng.uniform(0.9, 2.5)) if l.endswith("distance") else rng.choice(["S", "D", "A"]) for l in st["xb_labels"]] for _ in st["bonds"]]
    st["xg_labels"] = rng.choice([[], ["_geom_angle"]])
    st["xg"] = [["%.2f" % rng.uniform(60, 180) for l in st["xg_labels"]] for _ in st["angles"]]
    # extra per-torsion columns; the torsion loop lists dihedrals followed by impropers, impropers read back "." in those columns
    two = ["_geom_torsion", "_geom_torsion_publ_flag"]
    st["xd_labels"] = rng.choice([[], ["_geom_torsion"], two] + ([two, two] if st["impropers"] else []))
    st["xd"] = [[("%.1f" % rng.uniform(-180, 180)) if l == "_geom_torsion" else rng.choice(["y", "n"]) for l in st["xd_labels"]] for _ in st["dihedrals"]]
    # impropers may carry columns with the same labels in their own order (same, reversed, a subset, none)
    xd = st["xd_labels"]
    st["xi_labels"] = rng.choice([[], list(xd), list(xd[::-1]), list(xd[::-1]), list(xd[1:]), list(xd[:1])]) if (st["impropers"] and xd) else []
    st["xi"] = [[("%.1f" % rng.uniform(-180, 180)) if l == "_geom_torsion" else rng.choice(["Y", "N"]) for l in st["xi_labels"]] for _ in st["impropers"]]
    return st


NON_P1 = ["P 21/c", "P 1 21/c 1", "P -1", "P121/n1", "P 1 2/m 1", "P 1 1 2", "P 1 21 1", "P 1 c 1", "P-1", "C 2/m", "F m -3 m", "P 4/m m m", "P 2",
          "I 41/a m d", "P 1 1 21/b", "P 1 n 1", "R -3 c", "P 1 2 1", "C 1 2/c 1"]


def to_atoms(st):
    from mofun import Atoms
    kw = {}
    for name, t_, x_, l_, ar in KINDS:
        kw[name] = list(st[name])
        kw[t_] = [0] * len(st[name])
    o, e = quiet()
    if st.get("split"):
        # force-field typed structure: several atom types may share one element (e.g. C_R and C_3)
        tnames = []
        typ = []
        for i, el in enumerate(st["els"]):
            key = (el, st["split"][i])
            if key not in tnames:
                tnames.append(key)
            typ.append(tnames.index(key))
        from mofun.atomic_masses import ATOMIC_MASSES
        with o, e:
            return Atoms(atom_types=typ, atom_type_elements=[k[0] for k in tnames], atom_type_labels=["%s_%d" % k for k in tnames],
                         atom_type_masses=[ATOMIC_MASSES[k[0]] for k in tnames], positions=np.array(st["pos"], float), cell=np.array(st["cell"], float),
                         charges=list(st["chg"]), extra_atom_labels=st["xa_labels"], extra_atom_fields=st["xa"] if st["xa_labels"] else [],
                         extra_bond_labels=st["xb_labels"], extra_bond_fields=st["xb"] if (st["xb_labels"] and st["bonds"]) else [],
                         extra_angle_labels=st["xg_labels"], extra_angle_fields=st["xg"] if (st["xg_labels"] and st["angles"]) else [],
                         extra_dihedral_labels=st["xd_labels"], extra_dihedral_fields=st["xd"] if (st["xd_labels"] and st["dihedrals"]) else [],
                         extra_improper_labels=st.get("xi_labels", []), extra_improper_fields=st["xi"] if (st.get("xi_labels") and st["impropers"]) else [], **kw)
    with o, e:
        return Atoms(elements=list(st["els"]), positions=np.array(st["pos"], float), cell=np.array(st["cell"], float), charges=list(st["chg"]),
                     extra_atom_labels=st["xa_labels"], extra_atom_fields=st["xa"] if st["xa_labels"] else [],
                     extra_bond_labels=st["xb_labels"], extra_bond_fields=st["xb"] if (st["xb_labels"] and st["bonds"]) else [],
                     extra_angle_labels=st["xg_labels"], extra_angle_fields=st["xg"] if (st["xg_labels"] and st["angles"]) else [],
                     extra_dihedral_labels=st["xd_labels"], extra_dihedral_fields=st["xd"] if (st["xd_labels"] and st["dihedrals"]) else [],
                         extra_improper_labels=st.get("xi_labels", []), extra_improper_fields=st["xi"] if (st.get("xi_labels") and st["impropers"]) else [], **kw)


def write(a, fract=True):
    buf = io.StringIO()
    o, e = quiet()
    with o, e:
        a.save_p1_cif(buf, use_fract_coords=fract)
    return buf.getvalue()


def read(text):
    from mofun import Atoms
    o, e = quiet()
    with o, e:
        return Atoms.load_p1_cif(io.StringIO(text))


def both_coordinate_sets(text, cart, n):
    """add _atom_site_Cartn_x/y/z columns (the positions just read, 4 decimals) to the atom_site loop of a fractional-coordinate file"""
    lines = text.splitlines()
    try:
        i0 = next(i for i, l in enumerate(lines) if l.strip().lower() == "_atom_site_fract_z")
    except StopIteration:
        return None
    # the loop's tags end at the first line after i0 that does not start with '_'
    j = i0 + 1
    while j < len(lines) and lines[j].strip().startswith("_"):
        j += 1
    rows = lines[j:j + n]
    if len(rows) != n or any(not r.strip() or r.strip().startswith(("_", "loop_")) for r in rows):
        return None
    new = lines[:j] + ["  _atom_site_Cartn_x", "  _atom_site_Cartn_y", "  _atom_site_Cartn_z"]
    for r, p in zip(rows, cart):
        new.append(r.rstrip() + "  %.4f  %.4f  %.4f" % (p[0], p[1], p[2]))
    return "\n".join(new + lines[j + n:]) + "\n"


def cellpar(cell):
    c = np.array(cell, float)
    l = [np.linalg.norm(c[i]) for i in range(3)]
    ang = [np.degrees(np.arccos(np.clip(np.dot(c[i], c[j]) / (l[i] * l[j]), -1, 1))) for i, j in ((1, 2), (0, 2), (0, 1))]
    return l, ang


def circ(a, b):
    d = np.abs((np.array(a) - np.array(b)) % 1.0)
    return np.minimum(d, 1 - d).max() if len(d) else 0.0


def tuples(a, name, ar):
    return [tuple(int(v) for v in t) for t in np.array(getattr(a, name)).reshape(-1, ar)]


def compare(st, A, B):
    """C15's statement: B = read(write(A))"""
    bad = []
    if [str(e) for e in B.elements] != st["els"]:
        bad.append("elements / atom order changed: %s" % [str(e) for e in B.elements][:6])
    l0, a0 = cellpar(st["cell"])
    l1, a1 = cellpar(B.cell)
    if max(abs(x - y) for x, y in zip(l0, l1)) > 2e-6 or max(abs(x - y) for x, y in zip(a0, a1)) > 2e-4:
        bad.append("cell lengths/angles %s %s, expected %s %s" % (np.round(l1, 6), np.round(a1, 4), np.round(l0, 6), np.round(a0, 4)))
    f0 = np.array(st["pos"], float) @ np.linalg.inv(np.array(st["cell"], float))
    f1 = np.array(B.positions) @ np.linalg.inv(np.array(B.cell))
    if len(f0) == len(f1) and circ(f0, f1) > 6e-5:
        bad.append("fractional coordinates differ by %.2e (mod 1)" % circ(f0, f1))
    if len(f1) and (f1.min() < -1e-9 or f1.max() > 1 + 1e-9):
        bad.append("read coordinates are not wrapped into the cell")
    if len(B.charges) != len(st["chg"]) or any(abs(float(x) - y) > 1e-9 for x, y in zip(B.charges, st["chg"])):
        bad.append("charges changed")
    if tuples(B, "bonds", 2) != list(st["bonds"]):
        bad.append("bonds %s, expected %s" % (tuples(B, "bonds", 2)[:4], st["bonds"][:4]))
    if tuples(B, "angles", 3) != list(st["angles"]):
        bad.append("angles %s, expected %s" % (tuples(B, "angles", 3)[:4], st["angles"][:4]))
    if tuples(B, "dihedrals", 4) != list(st["dihedrals"]) + list(st["impropers"]):
        bad.append("torsions %s, expected dihedrals followed by impropers %s" % (tuples(B, "dihedrals", 4)[:4], (list(st["dihedrals"]) + list(st["impropers"]))[:4]))
    for lab, fields, got_l, got_f in (("atom", (st["xa_labels"], st["xa"]), B.extra_atom_labels, B.extra_atom_fields),
                                      ("bond", (st["xb_labels"], st["xb"] if st["bonds"] else []), B.extra_bond_labels, B.extra_bond_fields),
                                      ("angle", (st["xg_labels"], st["xg"] if st["angles"] else []), B.extra_angle_labels, B.extra_angle_fields),
                                      ("torsion", (st["xd_labels"], (st["xd"] if st["dihedrals"] else []) +
                                                   [[(r[st["xi_labels"].index(l)] if l in st.get("xi_labels", []) else ".") for l in st["xd_labels"]] for r in (st.get("xi") or [[] for _ in st["impropers"]])]),
                                       B.extra_dihedral_labels, B.extra_dihedral_fields)):
        exp_l, exp_f = fields
        if not exp_f and lab != "atom":
            continue
        if [str(x).lower() for x in got_l] != [x.lower() for x in exp_l]:
            bad.append("extra %s columns %s, expected %s" % (lab, list(got_l), exp_l))
        elif exp_l and [[str(x) for x in r] for r in np.array(got_f).tolist()] != [[str(x) for x in r] for r in exp_f]:
            bad.append("extra %s values changed" % lab)
    return bad


def pycif_rows(text):
    """labels and term label rows of the written file, through PyCifRW directly (not through mofun's reader)"""
    import CifFile
    d = os.path.join(GEN, "cif-%d" % os.getpid())
    os.makedirs(d, exist_ok=True)
    p = os.path.join(d, "w.cif")
    with open(p, "w") as f:
        f.write(text)
    cf = CifFile.ReadCif(p)
    os.remove(p)
    b = cf[cf.get_roots()[0][0]]
    labels = [str(x) for x in b["_atom_site_label"]]
    rows = []
    for tags in (["_geom_bond_atom_site_label_%d" % i for i in (1, 2)], ["_geom_angle_atom_site_label_%d" % i for i in (1, 2, 3)],
                 ["_geom_torsion_atom_site_label_%d" % i for i in (1, 2, 3, 4)]):
        if all(b.has_key(t) for t in tags):
            cols = [b[t] for t in tags]
            rows += [[str(c[i]) for c in cols] for i in range(len(cols[0]))]
    return labels, rows


def main(tier, seed, replay=None):
    run = Run("C15", tier, seed)
    ok_static = run.build_static()
    run.grep_gate()
    found_input = False
    if ok_static:
        run.compile_property("theories/Properties/C15.v")
        cases = []
        if replay:
            r = json.load(open(replay))
            if "input" in r:
                cases.append((r["input"], "replay"))
        for name, cj in corpus("C15"):
            cases.append((cj, "corpus:" + name))
        if not replay:
            n = 100 if tier == "quick" else 2000
            cases += [(gen_struct(run.rng, k), "generated") for k in range(n)]
        lits = []
        import ase.io
        for ci, (st, kind) in enumerate(cases):
            for name, *_ in KINDS:
                st[name] = [tuple(t) for t in st[name]]
            run.cov["evaluations"] += 1
            run.count("cell=" + st.get("ck", "?"))
            run.count("coordinates=" + st.get("place", "?"))
            bad = []
            labels = rows = None
            back = None
            acc_p1, guard_obs = True, []
            try:
                A = to_atoms(st)
                T1 = write(A)
                B = read(T1)
                bad += compare(st, A, B)
                T2 = write(B)
                C = read(T2)
                T3 = write(C)
                if T3 != T2:
                    bad.append("writing the re-read structure again does not give identical text (second vs third generation)")
                if st.get("place") == "inside" and st.get("ck") == "ortho" and T2 != T1:
                    bad.append("a structure already in normal form is not written identically after re-reading")
                labels, rows = pycif_rows(T1)
                back = tuples(B, "bonds", 2) + tuples(B, "angles", 3) + tuples(B, "dihedrals", 4)
                # an independent CIF reader agrees on cell and positions
                d = os.path.join(GEN, "cif-%d" % os.getpid())
                os.makedirs(d, exist_ok=True)
                p = os.path.join(d, "a.cif")
                with open(p, "w") as f:
                    f.write(T1)
                o, e = quiet()
                with o, e:
                    X = ase.io.read(p, format="cif")
                os.remove(p)
                lx, ax = cellpar(np.array(X.cell))
                lb, ab = cellpar(B.cell)
                if max(abs(x - y) for x, y in zip(lx, lb)) > 1e-6 or max(abs(x - y) for x, y in zip(ax, ab)) > 1e-6:
                    bad.append("cell differs from the one ASE's CIF reader obtains")
                if len(X) == len(B.positions) and circ(X.get_scaled_positions(wrap=False), np.array(B.positions) @ np.linalg.inv(np.array(B.cell))) > 1e-7:
                    bad.append("positions differ from those ASE's CIF reader obtains")
                # standard uncertainties in parentheses are accepted
                T_su = re.sub(r"^(\s*_cell_length_[abc]\s+)([0-9.]+)", r"\g<1>\g<2>(3)", T1, flags=re.M)
                T_su = re.sub(r"( -?\d+\.\d{4})(?= )", r"\g<1>(2)", T_su, count=3)
                Bsu = read(T_su)
                if not np.allclose(np.array(Bsu.positions), np.array(B.positions), atol=1e-9) or not np.allclose(np.array(Bsu.cell), np.array(B.cell), atol=1e-9):
                    bad.append("numbers with standard-uncertainty parentheses are not read as the same values")
                # Cartesian output / input
                Tc = write(A, fract=False)
                Bc = read(Tc)
                if not np.allclose(np.array(Bc.positions), np.round(np.array(st["pos"], float), 4), atol=1.1e-4):
                    bad.append("Cartesian-coordinate file is not read back at the written coordinates")
                if [str(x) for x in Bc.elements] != st["els"]:
                    bad.append("Cartesian-coordinate file changes elements")
                if [str(x).lower() for x in Bc.extra_atom_labels] != [x.lower() for x in st["xa_labels"]]:
                    bad.append("Cartesian-coordinate file read back with extra per-atom columns %s, written with %s" % (list(Bc.extra_atom_labels), st["xa_labels"]))
                if write(Bc, fract=False) != Tc:
                    bad.append("re-writing the re-read Cartesian-coordinate file does not give identical text")
                # read from a Cartesian file, move every atom, write fractional: the moved positions are what a reader must get
                Bm = read(Tc)
                Bm.positions = np.array(Bm.positions) + np.array([0.25, -0.125, 0.5])
                Bmm = read(write(Bm))
                f_want = (np.array(Bm.positions) @ np.linalg.inv(np.array(Bm.cell))) % 1.0
                f_got = np.array(Bmm.positions) @ np.linalg.inv(np.array(Bmm.cell))
                if len(f_want) == len(f_got) and circ(f_want, f_got) > 6e-5:
                    bad.append("a structure read from a Cartesian-coordinate file, moved and written with fractional coordinates is read back %.2e (fractional) away from where it was moved" % circ(f_want, f_got))
                # a file that carries fractional AND Cartesian coordinates of the same atoms (a legal layout some converters write)
                if ci % 3 == 0 and len(st["els"]):
                    Tb = both_coordinate_sets(T1, np.array(B.positions), n=len(st["els"]))
                    if Tb is not None:
                        Bb = read(Tb)
                        f1w = np.array(B.positions) @ np.linalg.inv(np.array(B.cell))
                        fb = np.array(Bb.positions) @ np.linalg.inv(np.array(Bb.cell))
                        if len(fb) != len(f1w) or circ(fb, f1w) > 6e-5:
                            bad.append("a file with both fractional and Cartesian coordinate columns is read %.2e (fractional) away from its atoms" % (circ(fb, f1w) if len(fb) == len(f1w) else 9.9))
                # the space-group guard: every declared name other than P1 / P 1 must be refused, whatever it starts with
                acc_p1 = True
                names = NON_P1 if ci == 0 else [NON_P1[0]] + [NON_P1[(2 * ci + j) % len(NON_P1)] for j in range(2)]
                for nm in names:
                    Tn = re.sub(r"(_symmetry_space_group_name_H-M\s+)('[^']*'|\"[^\"]*\"|\S+)", lambda mo: mo.group(1) + "'" + nm + "'", T1)
                    assert Tn != T1
                    try:
                        read(Tn)
                        guard_obs.append((nm, True))
                        bad.append("a file declaring space group %s was accepted" % nm)
                    except Exception:
                        guard_obs.append((nm, False))
                for nm in ("P1", "P 1"):
                    Tn = re.sub(r"(_symmetry_space_group_name_H-M\s+)('[^']*'|\"[^\"]*\"|\S+)", lambda mo: mo.group(1) + "'" + nm + "'", T1)
                    try:
                        read(Tn)
                        guard_obs.append((nm, True))
                    except Exception:
                        guard_obs.append((nm, False))
                        bad.append("a file declaring space group %s was refused" % nm)
            except Exception as ex:    # noqa
                bad.append("raised %s: %s" % (type(ex).__name__, ex))
            if bad:
                found_input = True
                run.violation("failing-input", {"input": st, "observed": bad[:6],
                                                "expected": "write/read reproduces elements, order, cell parameters, fractional coordinates mod 1 (1e-4), charges, terms (torsions = dihedrals ++ impropers), extra columns; re-writing is stable; uncertainties, Cartesian files accepted; non-P1 rejected",
                                                "case_kind": kind})
            if any(st[nm] for nm, *_ in KINDS) and len(set(st["els"])) >= 2:
                run.nontrivial(st)
            if labels is not None:
                terms = list(st["bonds"]) + list(st["angles"]) + list(st["dihedrals"]) + list(st["impropers"])
                for tag, acc in [(Some("P 1"), acc_p1)] + [(Some(nm), a) for nm, a in guard_obs]:
                    lits.append("mk_case %s %s %s %s %s %s %s" % (gal(st["els"]), gal(labels), gal([[N(v) for v in t] for t in terms]), gal(rows),
                                                                  gal(Some([[N(v) for v in t] for t in back])), gal(tag), gal(bool(acc))))
            if kind == "generated" and st.get("place") == "boundary":
                run.sample({"elements": st["els"], "cell_kind": st["ck"], "bonds": st["bonds"], "impropers": st["impropers"], "extra_atom_columns": st["xa_labels"]})
        header = "From Coq Require Import List Arith String.\nFrom Mofun Require Import Model.Cif Corr.CorrLib Corr.C15.\nImport ListNotations.\n"
        failing = run.correspond("c15", header, lits, shard=100)
        for f in failing:
            if f[0] == "case":
                run.notes.append("model/implementation disagreement on case %d" % f[1])
    shutil.rmtree(os.path.join(GEN, "cif-%d" % os.getpid()), ignore_errors=True)
    run.settle_broken(found_input)
    return run.finish(
        rule="generated structures: 1-9 atoms, orthorhombic / triclinic (both tilt signs) / arbitrarily rotated cells, fractional coordinates inside, "
             "far outside and on the boundary of the cell, charges, bonds / angles / dihedrals / impropers, extra per-atom / per-bond / per-angle / "
             "per-torsion columns.  Each is written, read back and compared with the statement; written three times over (second = third generation); "
             "read by ASE's independent CIF reader; re-read with standard-uncertainty parentheses; written and read in Cartesian form; altered to declare "
             "each of 19 non-P1 Hermann-Mauguin names, several of which begin with 'P 1' (all for the first structure, three per later structure; must be "
             "rejected) and P1 / P 1 (must be accepted); impropers carry extra columns labelled like the dihedrals' in the same, reversed or partial order.  The discrete part (labels, label rows, index lookup, guard) is compared with the Coq model.  Non-trivial = >= 1 term "
             "and >= 2 elements.",
        assumptions=["PyCifRW 5.0.1 (installed version) writes and parses the text; ASE's cellpar_to_cell builds the cell", "the numerical part is tested to the printed precision, not modelled"])


if __name__ == "__main__":
    sys.exit(main("quick", 1))
