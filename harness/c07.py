"""C07 -- overlapping replacements are refused, never silently corrupted."""
import sys
from fractions import Fraction

import numpy as np

import atoms_io as AIO
import findgen as FG
import replgen as RG
from replcheck import run_replace_property
from atoms_io import G, KINDS

CLUSTERS = {
    # name: (elements, coordinates (A, multiples of 1/16), search = indices into the cluster (pattern order))
    "CNNC": (["C", "N", "N", "C"], [[0, 0, 0], [1.25, 0, 0], [2.5, 0, 0], [3.75, 0, 0]], [1, 2, 3]),
    "NCN": (["N", "C", "N"], [[0, 0, 0], [1.25, 0, 0], [2.5, 0, 0]], [0, 1]),
    "star3": (["Zr", "O", "O", "O"], [[0, 0, 0], [1.5, 0, 0], [-0.75, 1.3125, 0], [-0.75, -1.3125, 0]], [0, 1, 2]),
    "zigzag5": (["H", "C", "C", "C", "H"], [[0, 0, 0], [1.0, 0.75, 0], [2.0, 0, 0], [3.0, 0.75, 0], [4.0, 0, 0]], [1, 2, 3]),
    "square": (["C", "C", "C", "C"], [[0, 0, 0], [1.5, 0, 0], [1.5, 1.5, 0], [0, 1.5, 0]], [0, 1, 2]),
    "CNNCNNC": (["C", "N", "N", "C", "N", "N", "C"], [[1.25 * i, 0, 0] for i in range(7)], [1, 2, 3]),
}


def make_overlap_problem(rng, k):
    name = list(CLUSTERS)[k % len(CLUSTERS)]
    el, xyz, sidx = CLUSTERS[name]
    xyz = np.array(xyz, float)
    if k % 3 != 0:
        # the cluster's atoms are stored in another order (any atom may come first, also one that two matches share)
        perm = list(range(len(el)))
        rng.shuffle(perm)
        if k % 3 == 1:
            shared = sorted(set(sidx))[1] if len(sidx) > 1 else sidx[0]
            perm.remove(shared)
            perm.insert(0, shared)
        new = {old: i for i, old in enumerate(perm)}
        el = [el[i] for i in perm]
        xyz = xyz[perm]
        sidx = [new[i] for i in sidx]
    ckind = ["ortho", "tric", "upper", "rotated", "rot-ortho", "mono-yz"][(k // 6) % 6]
    cell = FG.make_cell(rng, 13.0, ckind)
    inv = np.linalg.inv(cell)
    pos, els = [], []
    for copy_i in range(rng.randint(1, 2)):
        for _ in range(60):
            q = FG.rand_quat(rng, rng.choice(["random", "axis"]))
            fr = np.array([rng.choice([0.01, 0.99, rng.random()]) for _ in range(3)])
            cand = xyz @ FG.qrot(q).T + FG.grid(fr @ cell)
            cw = FG.place(rng, cell, inv, cand)
            if cw is None:
                continue
            if all(FG.min_image_dist(cell, inv, x, y) > 6.0 for x in pos for y in cw):
                pos += list(cw)
                els += el
                break
    if not pos:
        return None
    ncl = len(pos)
    for _ in range(rng.randint(2, 3)):      # bystanders listed AFTER the cluster atoms (their indices shift when cluster atoms go)
        for _ in range(40):
            b = FG.grid(np.array([rng.random() for _ in range(3)]) @ cell)
            ff = b @ inv
            if ff.min() > 1e-9 and ff.max() < 1 - 1e-9 and all(FG.min_image_dist(cell, inv, x, b) > 5.0 for x in pos[:ncl]):
                pos.append(b)
                els.append("Xe")
                break
    sel_el = [el[i] for i in sidx]
    sp = FG.grid(xyz[sidx])
    # replacement: per search atom keep it (shared), change its element (removed + inserted), or drop it; sometimes add an atom
    S = RG.mk_state(els, [FG.zv(p) for p in pos], [FG.zv(r) for r in cell], rng, "s", True, split_types=False, xlabels=())
    search = RG.mk_state(sel_el, [FG.zv(p) for p in sp], None, rng, "p", True, xlabels=())
    mode = rng.choice(["empty", "empty", "mixed", "mixed", "mixed", "all-kept", "all-changed"])
    rel, rpos = [], []
    if mode != "empty":
        for e, p in zip(sel_el, sp):
            r = rng.random()
            what = {"all-kept": "keep", "all-changed": "change"}.get(mode) or ("keep" if r < 0.35 else "nudge" if r < 0.5 else "change" if r < 0.8 else "drop")
            if what == "keep":
                rel.append(e)
                rpos.append(FG.zv(p))
            elif what == "nudge":
                # same element, moved by 0.02 - 0.09 A: NOT the same atom, it is removed and a new one is inserted next to it
                d = [rng.choice([-1, 1]) * rng.randrange(64, 256, 8) for _ in range(2)]
                z = FG.zv(p)
                rel.append(e)
                rpos.append((z[0] + d[0], z[1], z[2] + d[1]))
            elif what == "change":
                rel.append(rng.choice(["F", "S"]))
                rpos.append(FG.zv(p))
        if rng.random() < 0.3:
            rel.append("H")
            rpos.append(FG.zv(sp[0] + np.array([0.5, 0.5, 0.75])))
        if not rel:
            mode = "empty"
    repl = RG.mk_state(rel, rpos, None, rng, "r", True, xlabels=())
    if len(rel) >= 2:
        RG.add_terms(repl, rng, "r", True, {"bonds": [(0, 1)]}, xl=())
    byst = list(range(ncl, len(els)))
    tk = {"bonds": RG.rand_tuples(rng, list(range(len(els))), 2, 3) + RG.rand_tuples(rng, byst, 2, 2),
          "angles": RG.rand_tuples(rng, list(range(len(els))), 3, 2) + RG.rand_tuples(rng, byst, 3, 1)}
    for kk in tk:
        seen = []
        for t in tk[kk]:
            if t not in seen and t[::-1] not in seen:
                seen.append(t)
        tk[kk] = seen
    RG.add_terms(S, rng, "s", True, tk, xl=())
    case = dict(name="cluster:" + name, tags=[], els=els, pos=np.array(pos), cell=cell, pel=sel_el, pp=sp, atol=Fraction(1, 20), hints=None,
                planted=[], planted_offs=[], decoys=[], distractors=0, cellkind=ckind, crossing=[], k=k)
    return dict(case=case, S=S, search=search, repl=repl, mode="overlap-" + mode, coeffs=True, atol=Fraction(1, 20), hints=None, cif_like=False,
                empty_keeps_tables=(mode == "empty" and k % 2 == 1))


def make_runs(run):
    n = 72 if run.tier == "quick" else 360
    runs = []
    k = 0
    while len(runs) < n and k < 30 * n:
        p = make_overlap_problem(run.rng, k)
        k += 1
        if p is None:
            continue
        runs.append(dict(p=p, frac=Fraction(1), replace_all=(k % 4 == 0), ignore=(k % 5 == 0), seed=run.rng.randrange(1 << 30),
                         parts=("outcome", "count", "terms", "atoms"), kind="clusters"))
    return runs


def extra(r, res, run):
    bad = []
    p = r["p"]
    sel_idx = [s[0] for s in res["sel"]]
    exp = RG.expected(p, sel_idx, r["replace_all"])
    kinds = "shared-by-matches" if len(set(i for m in sel_idx for i in m)) < sum(len(m) for m in sel_idx) else "disjoint-matches"
    run.count(kinds)
    run.count("removed-twice=%s" % exp["overlap"])
    run.count("ignore=%s" % r["ignore"])
    if res["outcome"] == "ok":
        nr = len(p["repl"]["pos"])
        want = len(p["S"]["pos"]) - len(exp["removed"]) + exp["n_inserted"]
        if len(res["out"]["pos"]) != want:
            bad.append("%d atoms in the result, expected %d (each structure atom removed at most once)" % (len(res["out"]["pos"]), want))
        n = len(res["out"]["pos"])
        for kn, *_ in KINDS:
            if any(v < 0 or v >= n for t in res["out"][kn]["tup"] for v in t):
                bad.append("%s refer to atoms that do not exist" % kn)
    return bad


def main(tier, seed, replay=None):
    return run_replace_property(
        "C07", tier, seed, replay, ["theories/Properties/C07.v"], make_runs,
        rule="clusters whose pattern occurrences share atoms (C-N-N-C strings, N-C-N, a trigonal star, zig-zag and square rings) in orthorhombic, "
             "triclinic, upper-triangular and rotated cells, placed across boundaries; replacement patterns that keep / change / drop each search atom in "
             "every combination (shared atoms retained by both matches, removed by one, removed by both), empty replacements, an added atom; replace_all "
             "on/off, ignore flag on/off.  The expected outcome is computed from the selected matches by the statement (an atom in two removal sets "
             "=> dedicated error unless ignored or the replacement is empty).  Compared: outcome and full result with the Coq model; outcome, atom count "
             "and term validity with the statement.  Non-trivial = matches that share atoms.",
        assumptions=["which symmetric ordering the search returns is an input (recovered by re-seeding)"], extra=extra)


if __name__ == "__main__":
    sys.exit(main("quick", 1))
