"""Conversion between mofun.Atoms, a plain-dict state, and Gallina literals of Model.Atoms.atoms;
random structure / operation generators shared by C04-C13."""
import contextlib
import io
import json
import numpy as np

from common import gal, N, Some, Raw

G = 4096            # grid units per Angstrom
FINE = 2 ** 30       # fine units per Angstrom (positions of inserted atoms are arbitrary floats)
QS = 1024           # charges / masses are multiples of 1/QS
KINDS = [("bonds", "bond_types", "bond_type_coeffs", "extra_bond_fields", "extra_bond_labels", 2),
         ("angles", "angle_types", "angle_type_coeffs", "extra_angle_fields", "extra_angle_labels", 3),
         ("dihedrals", "dihedral_types", "dihedral_type_coeffs", "extra_dihedral_fields", "extra_dihedral_labels", 4),
         ("impropers", "improper_types", "improper_type_coeffs", "extra_improper_fields", "extra_improper_labels", 4)]


class Interner:
    def __init__(self):
        self.ids = {".": 0}
        self.names = ["."]

    def __call__(self, s):
        s = str(s)
        if s not in self.ids:
            self.ids[s] = len(self.names)
            self.names.append(s)
        return self.ids[s]


def quiet():
    return contextlib.redirect_stderr(io.StringIO())


def togrid(x, scale=G):
    v = x * scale
    r = round(v)
    if abs(v - r) > 1e-6:
        raise ValueError("value %r is not on the 1/%d grid" % (x, scale))
    return int(r)


def to_atoms(st, pos_scale=G):
    """dict state -> mofun.Atoms (positions in grid units / pos_scale, charges & masses / QS)"""
    from mofun import Atoms
    kw = {}
    for k, t_, c_, x_, l_, ar in KINDS:
        kk = st[k]
        kw[k] = [tuple(t) for t in kk["tup"]]
        kw[t_] = list(kk["typ"])
        kw[c_] = list(kk["coef"])
        kw[l_] = list(kk["xl"])
        kw[x_] = [list(r) for r in kk["xf"]] if (kk["xl"] and kk["tup"]) else []
    cell = None
    if st.get("cell") is not None:
        cell = np.array(st["cell"], dtype=float) / pos_scale
    with quiet(), contextlib.redirect_stdout(io.StringIO()):
        return Atoms(atom_types=list(st["typ"]), positions=[[c / pos_scale for c in p] for p in st["pos"]],
                     charges=[c / QS for c in st["chg"]], groups=list(st["grp"]),
                     atom_type_elements=list(st["t_el"]), atom_type_masses=[m / QS for m in st["t_mass"]],
                     atom_type_labels=list(st["t_lab"]), pair_coeffs=list(st["t_pair"]),
                     extra_atom_labels=list(st["xl"]), extra_atom_fields=[list(r) for r in st["xf"]] if (st["xl"] and st["pos"]) else [],
                     cell=cell, **kw)


def dump(a, pos_scale=G, strict=True):
    """mofun.Atoms -> dict state (raises ValueError when something is off the grid, unless strict=False: then positions are rounded)"""
    n = len(a.positions)
    pg = (lambda x: togrid(x, pos_scale)) if strict else (lambda x: int(round(x * pos_scale)))
    st = dict(pos=[tuple(pg(float(x)) for x in p) for p in np.array(a.positions).reshape(-1, 3)],
              typ=[int(x) for x in a.atom_types], chg=[togrid(float(x), QS) for x in a.charges],
              grp=[int(x) for x in a.groups],
              xl=[str(x) for x in a.extra_atom_labels],
              xf=[[str(x) for x in r] for r in np.array(a.extra_atom_fields).reshape(n, -1).tolist()] if n else [],
              t_el=[str(x) for x in a.atom_type_elements], t_mass=[togrid(float(x), QS) for x in a.atom_type_masses],
              t_lab=[str(x) for x in a.atom_type_labels], t_pair=[str(x) for x in a.pair_coeffs])
    for k, t_, c_, x_, l_, ar in KINDS:
        tup = [tuple(int(v) for v in t) for t in np.array(getattr(a, k)).reshape(-1, ar).tolist()]
        xf = np.array(getattr(a, x_))
        st[k] = dict(tup=tup, typ=[int(x) for x in getattr(a, t_)], coef=[str(x) for x in getattr(a, c_)],
                     xl=[str(x) for x in getattr(a, l_)],
                     xf=[[str(x) for x in r] for r in xf.reshape(len(tup), -1).tolist()] if len(tup) else [])
        if len(xf) != len(tup):
            raise ValueError("extra fields of %s have %d rows for %d terms" % (k, len(xf), len(tup)))
    st["cell"] = None if a.cell is None else [tuple(togrid(float(x), pos_scale) for x in row) for row in np.array(a.cell)]
    # derived views must describe the same atoms as the arrays
    if len(a) != n:
        raise ValueError("len() is %d for %d positions" % (len(a), n))
    der = [str(e) for e in a.elements]
    want = [st["t_el"][t] if 0 <= t < len(st["t_el"]) else "?" for t in st["typ"]]
    if der != want:
        raise ValueError("the elements property lists %s, the type arrays say %s" % (der[:8], want[:8]))
    return st


def observe(A):
    """what a caller may do between two operations: look at the object through its read-only views"""
    with quiet(), contextlib.redirect_stdout(io.StringIO()):
        try:
            _ = (A.elements, len(A), A.num_atom_types, A.num_bond_types, A.num_angle_types, A.num_dihedral_types, A.num_improper_types)
            if A.cell is not None:
                A.cell_is_orthorhombic()
            A.label_atoms(list(range(len(A))))
        except Exception:    # noqa
            pass


def gal_kind(kk, I):
    return "(mk_kind %s %s %s %s %s)" % (
        gal([[N(v) for v in t] for t in kk["tup"]]), gal([N(t) for t in kk["typ"]]),
        gal([[I(x) for x in r] for r in kk["xf"]]), gal([I(x) for x in kk["xl"]]), gal([I(x) for x in kk["coef"]]))


def gal_atoms(st, I):
    cell = "None" if st.get("cell") is None else "(Some %s)" % gal(tuple(tuple(r) for r in st["cell"]))
    return "(mk_atoms %s %s %s %s %s %s %s %s %s %s %s %s %s %s %s)" % (
        gal([tuple(p) for p in st["pos"]]), gal([N(t) for t in st["typ"]]), gal(list(st["chg"])), gal(list(st["grp"])),
        gal([[I(x) for x in r] for r in st["xf"]]), gal([I(x) for x in st["xl"]]),
        gal([I(x) for x in st["t_el"]]), gal(list(st["t_mass"])), gal([I(x) for x in st["t_lab"]]), gal([I(x) for x in st["t_pair"]]),
        gal_kind(st["bonds"], I), gal_kind(st["angles"], I), gal_kind(st["dihedrals"], I), gal_kind(st["impropers"], I), cell)


def rand_struct(rng, n, tag, coeffs=True, labels_pool=("x", "y"), cell=None, max_terms=3, rich=False, ntypes=None):
    """a random consistent structure with n atoms"""
    nt = ntypes or rng.randint(1, 3)
    typ = [rng.randrange(nt) for _ in range(n)]
    xl = [l for l in labels_pool if rng.random() < 0.5]
    st = dict(pos=[(rng.randrange(0, 40 * G, 64), rng.randrange(0, 40 * G, 64), rng.randrange(0, 40 * G, 64)) for _ in range(n)],
              typ=typ, chg=[rng.randrange(-3 * QS, 3 * QS, 64) for _ in range(n)], grp=[rng.randrange(0, 3) for _ in range(n)],
              xl=xl, xf=[["%s%d%s" % (tag, i, l) for l in xl] for i in range(n)],
              t_el=["E%s%d" % (tag, i) for i in range(nt)], t_mass=[(10 + i) * QS + 128 for i in range(nt)],
              t_lab=[("L%s%d" % (tag, i)) + ("_a_rather_long_type_label" if (n + i) % 4 == 1 else "") for i in range(nt)], t_pair=(["P%s%d" % (tag, i) for i in range(nt)] if coeffs else []),
              cell=cell)
    for k, t_, c_, x_, l_, ar in KINDS:
        m = (rng.randint(1 if rich else 0, max_terms) if n >= ar else 0)
        tups = []
        for _ in range(m):
            t = tuple(rng.sample(range(n), ar))
            if t not in tups and t[::-1] not in tups:
                tups.append(t)
        ntyp = rng.randint(1, 3)
        kl = [l for l in ("ka", "kb") if rng.random() < 0.4]
        st[k] = dict(tup=tups, typ=[rng.randrange(ntyp) for _ in tups],
                     coef=(["%s%s%d #c" % (tag, k[0], i) for i in range(ntyp)] if coeffs else []),
                     xl=kl, xf=[["%s%s%d%s" % (tag, k[0], i, l) for l in kl] for i in range(len(tups))])
    return st


def gal_op(op, I):
    k = op[0]
    if k in ("extend", "extend_shared"):
        return "(OExtend %s %s)" % (gal_atoms(op[1], I), gal([(N(a), N(b)) for a, b in op[2]]))
    if k == "extend_offs":
        return "(OExtendOffs %s (mk_offs %s) %s)" % (gal_atoms(op[1], I), " ".join(gal(N(x)) for x in op[2]),
                                                     gal([(N(a), N(b)) for a, b in op[3]]))
    if k == "extend_twice":
        return "(OExtendTwice %s)" % gal_atoms(op[1], I)
    if k == "del":
        return "(ODel %s)" % gal([N(x) for x in op[1]])
    if k == "pop":
        return "(OPop %s)" % gal(int(op[1]))
    if k == "replicate":
        return "(OReplicate %s)" % gal(tuple(N(x) for x in op[1]))
    if k == "subset":
        return "(OSubset %s)" % gal([N(x) for x in op[1]])
    if k == "copy":
        return "OCopy"
    raise ValueError(k)


def apply_op(A, op):
    """apply op to the implementation; returns the new Atoms (A may be mutated)"""
    k = op[0]
    with quiet(), contextlib.redirect_stdout(io.StringIO()):
        if k == "extend":
            A.extend(to_atoms(op[1]), structure_index_map=dict(op[2]))
        elif k == "extend_shared":
            # the caller keeps ONE identity-map object (and one fragment object) and passes it to every such step of the history
            key = json.dumps([op[1], op[2]], sort_keys=True, default=list)
            if key not in _SHARED:
                _SHARED[key] = (to_atoms(op[1]), dict(op[2]))
            O, d = _SHARED[key]
            A.extend(O, structure_index_map=d)
        elif k == "extend_offs":
            A.extend(to_atoms(op[1]), offsets=tuple(op[2]), structure_index_map=dict(op[3]))
        elif k == "extend_twice":
            O = to_atoms(op[1])
            offs = A.extend_types(O)
            A.extend(O, offsets=offs)
            A.extend(O, offsets=offs)
        elif k == "del":
            del A[list(op[1])]
        elif k == "pop":
            A.pop(op[1])
        elif k == "replicate":
            A = A.replicate(tuple(op[1]))
        elif k == "subset":
            A = A[list(op[1])]
        elif k == "copy":
            A = A.copy()
        else:
            raise ValueError(k)
    return A


_SHARED = {}


def bystanders():
    """two objects built with as few arguments as possible (everything else left to the constructor's defaults); returns them with a
    snapshot of their state"""
    from mofun import Atoms
    with quiet(), contextlib.redirect_stdout(io.StringIO()):
        b1 = Atoms()
        b2 = Atoms(elements=["C", "O"], positions=[[0., 0., 0.], [1.25, 0., 0.]])
    return [(b1, snapshot(b1)), (b2, snapshot(b2))]


def snapshot(a):
    out = {}
    for k, v in sorted(vars(a).items()):
        try:
            out[k] = np.array(v).tolist() if not isinstance(v, (str, int, float, type(None))) else v
        except Exception:    # noqa
            out[k] = repr(v)
    return json.dumps(out, sort_keys=True, default=str)


def run_history(init, ops):
    """run ops on the implementation; returns (list of dumped states or ('error', text), per-step error flag)"""
    others = bystanders()
    A = to_atoms(init)
    st0 = dump(A)
    out = []
    _SHARED.clear()
    for op in ops:
        try:
            observe(A)
            A = apply_op(A, op)
            A.assert_arrays_are_consistent_sizes()
            out.append(dump(A))
        except Exception as e:           # noqa
            out.append(("error", "%s: %s" % (type(e).__name__, e)))
            break
    for b, snap in others:
        if snapshot(b) != snap and out and not isinstance(out[-1], tuple):
            out[-1] = ("error", "an unrelated Atoms object built with default arguments changed while this one was operated on")
    return st0, out


def case_literal(st0, ops, states, I):
    obs = []
    for s in states:
        obs.append("None" if isinstance(s, tuple) else "(Some %s)" % gal_atoms(s, I))
    return "mk_case %s [%s] [%s]" % (gal_atoms(st0, I), "; ".join(gal_op(o, I) for o in ops), "; ".join(obs))


ATOMS_HEADER = ("From Coq Require Import ZArith List.\nFrom Mofun Require Import Lib.NP Model.Atoms Corr.CorrLib Corr.AtomsCorr.\n"
                "Import ListNotations.\nOpen Scope Z_scope.\n")
