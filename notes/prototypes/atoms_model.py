"""Pure-Python transliteration of the Gallina sketch in DESIGN.md Appendix A.2 (lists only, no numpy).
State = dict with per-atom lists, type tables, four kinds, labels.  Used to validate the sketch against mofun.Atoms."""
import copy
KINDS = ["bonds","angles","dihedrals","impropers"]
DOT = "."
def np_delete(l, idxs):
    s=set(idxs); return [x for i,x in enumerate(l) if i not in s]
def existing_topo(topo, new):
    if len(topo)==0: return []
    fwd=[i for i,t in enumerate(topo) for n in new if t==n]
    rev=[i for i,t in enumerate(topo) for n in new if t==n[::-1]]
    return fwd+rev
def merge_labels(ls, os):
    out=list(ls)
    for l in os:
        if l not in out: out.append(l)
    return out
def match_fields(labels, olabels, rows):
    return [[(r[olabels.index(l)] if l in olabels else DOT) for l in labels] for r in rows]
def pad_fields(w, rows): return [r+[DOT]*(w-len(r)) for r in rows]
def num_types(k): 
    if len(k["coef"])>0: return len(k["coef"])
    return (max(k["typ"])+1) if k["typ"] else 0
def num_atom_types(a): return len(a["t_el"])
def extend_types(a,o):
    offs=(num_atom_types(a),)+tuple(num_types(a[k]) for k in KINDS)
    for f in ["t_el","t_mass","t_lab","t_pair"]: a[f]=a[f]+o[f]
    for k in KINDS: a[k]["coef"]=a[k]["coef"]+o[k]["coef"]
    return offs
def extend(a,o,offs=None,m=None):
    m=dict(m or {}); n=len(a["pos"])
    if offs is None: offs=extend_types(a,o)
    # _extend_extra_fields: labels merged and self padded for ALL kinds, regardless of emptiness
    new_xl=merge_labels(a["xl"],o["xl"]); a["xf"]=pad_fields(len(new_xl),a["xf"]); xf_o=match_fields(new_xl,o["xl"],o["xf"]); a["xl"]=new_xl
    kxf={}
    for k in KINDS:
        nl=merge_labels(a[k]["xl"],o[k]["xl"]); a[k]["xf"]=pad_fields(len(nl),a[k]["xf"]); kxf[k]=match_fields(nl,o[k]["xl"],o[k]["xf"]); a[k]["xl"]=nl
    for ok,si in m.items():
        a["typ"][si]=o["typ"][ok]+offs[0]
        if len(a["xl"])>0 and len(a["xf"])>0: a["xf"][si]=list(xf_o[ok])
    to_add=[i for i in range(len(o["pos"])) if i not in m]
    a["pos"]+= [o["pos"][i] for i in to_add]; a["typ"]+=[o["typ"][i]+offs[0] for i in to_add]
    a["chg"]+=[o["chg"][i] for i in to_add]; a["grp"]+=[o["grp"][i] for i in to_add]; a["xf"]+=[list(xf_o[i]) for i in to_add]
    phi={k:n+i for i,k in enumerate(to_add)}; phi.update(m)
    for ki,k in enumerate(KINDS):
        ko=o[k]
        if len(ko["tup"])==0: continue
        new=[tuple(phi[i] for i in t) for t in ko["tup"]]
        dead=existing_topo(a[k]["tup"],new)
        a[k]["tup"]=np_delete(a[k]["tup"]+new,dead)
        a[k]["typ"]=np_delete(a[k]["typ"]+[t+offs[ki+1] for t in ko["typ"]],dead)
        a[k]["xf"]=np_delete(a[k]["xf"]+kxf[k],dead)
    return a
def delitem(a,ds):
    for f in ["pos","typ","chg","grp","xf"]: a[f]=np_delete(a[f],ds)
    sd=sorted(ds,reverse=True)
    for k in KINDS:
        kk=a[k]
        if len(kk["tup"])==0: continue
        dead=[i for i,t in enumerate(kk["tup"]) if any(v in sd for v in t)]
        tup=np_delete(kk["tup"],dead)
        for d in sd: tup=[tuple(v-1 if v>d else v for v in t) for t in tup]
        kk["tup"]=tup; kk["typ"]=np_delete(kk["typ"],dead); kk["xf"]=np_delete(kk["xf"],dead)
    return a
def ucmults(r):
    out=[]
    # np.array(np.meshgrid(range(ra),range(rb),range(rc))).T.reshape(-1,3): order determined empirically below
    import numpy as np
    m=np.array(np.meshgrid(*[range(x) for x in r])).T.reshape(-1,3)
    return [tuple(int(x) for x in row) for row in m if any(row)]
def replicate(a,r,cell):
    b=copy.deepcopy(a)
    for (i,j,k) in ucmults(r):
        t=copy.deepcopy(a); off=tuple(i*cell[0][c]+j*cell[1][c]+k*cell[2][c] for c in range(3))
        t["pos"]=[tuple(p[c]+off[c] for c in range(3)) for p in t["pos"]]
        extend(b,t,offs=(0,0,0,0,0),m={})
    newcell=[[cell[x][c]*r[x] for c in range(3)] for x in range(3)]
    return b,newcell
