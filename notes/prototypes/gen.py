import sys, io, numpy as np, random, time, json
sys.path.insert(0,'/repo')
from mofun import Atoms, find_pattern_in_structure
from scipy.spatial.transform import Rotation as R
from fractions import Fraction
G=12; U=2**G
def grid(x): return np.round(np.asarray(x,float)*U)/U
def Zv(v): return "(%d,%d,%d)" % tuple(int(round(c*U)) for c in v)
ELS={}
def eid(e): return ELS.setdefault(e,len(ELS))
def rat_rot(rng):
    if rng.random()<0.3:
        q=rng.choice([-1,0,1],4)
        if (q!=0).any(): return R.from_quat(q/np.linalg.norm(q))
    while True:
        q=rng.integers(-6,7,4)
        if (q!=0).any(): return R.from_quat(q/np.linalg.norm(q))
patterns = {
 "asym4": (["C","N","O","H"], [[0,0,0],[1.5,0,0],[1.5,1.25,0],[0.25,0.5,1.0]]),
 "chiral5": (["C","H","F","Cl","Br"], [[0,0,0],[0.625,0.625,0.625],[-0.75,-0.75,0.75],[-1.0,1.0,-1.0],[1.125,-1.125,-1.125]]),
 "pair": (["C","N"], [[0,0,0],[1.25,0,0]]),
 "single": (["Zr"], [[0,0,0]]),
 "collinear3": (["O","C","O"], [[-1.125,0,0],[0,0,0],[1.125,0,0]]),
 "planar_sym": (["C","C","C","C"], [[0,0,0],[1.5,0,0],[1.5,1.5,0],[0,1.5,0]]),
}
def make_case(case, rng):
    name=list(patterns)[case%len(patterns)]; el,pp=patterns[name]; pp=grid(pp); n=len(el)
    diam=max(np.linalg.norm(a-b) for a in pp for b in pp) if n>1 else 0
    atol_fr=[Fraction(1,20),Fraction(1,10),Fraction(1,50)][case%3]; atol=float(atol_fr)
    L=diam+2*atol+rng.uniform(0.5,4.0,3)+(3.0 if n==1 else 0)
    cell=np.diag(L); tric=(case//6)%2==1
    if tric:
        cell[1,0]=rng.uniform(-0.4,0.4)*L[0]; cell[2,0]=rng.uniform(-0.4,0.4)*L[0]; cell[2,1]=rng.uniform(-0.4,0.4)*L[1]; cell=cell*1.4
    cell=grid(cell); inv=np.linalg.inv(cell)
    pos=[]; els=[]
    for c in range(int(rng.integers(1,4))):
        for attempt in range(50):
            q=rat_rot(rng); frac=rng.random(3)
            if rng.random()<0.5: frac=np.where(rng.random(3)<0.5, rng.choice([0.01,0.99,0.5],3), frac)
            cand=q.apply(pp)+frac@cell; f=(cand@inv)%1.0; cw=grid(f@cell)
            ff=cw@inv
            if ff.min()<0 or ff.max()>=1: continue
            if all(np.linalg.norm(((y-x)@inv-np.round((y-x)@inv))@cell)>0.8 for x in pos for y in cw): break
        else: continue
        pos+=list(cw); els+=el
    if name=="chiral5":
        m=pp.copy(); m[:,0]*=-1
        q=rat_rot(rng); cand=q.apply(m)+rng.random(3)@cell; f=(cand@inv)%1.0; cw=grid(f@cell); ff=cw@inv
        if ff.min()>=0 and ff.max()<1 and all(np.linalg.norm(((y-x)@inv-np.round((y-x)@inv))@cell)>0.8 for x in pos for y in cw): pos+=list(cw); els+=el
    if not pos: return None
    return dict(name=name, els=els, pos=np.array(pos), cell=cell, pel=el, pp=pp, atol=atol_fr)
def run_impl(c, seed):
    S=Atoms(elements=c["els"], positions=c["pos"], cell=c["cell"]); P=Atoms(elements=c["pel"], positions=c["pp"])
    random.seed(seed); np.random.seed(seed)
    return find_pattern_in_structure(S,P,atol=float(c["atol"]), return_positions_and_quats=True)
def coq_case(c, res):
    idx,mpos,quats=res
    S="[%s]"%";".join("(%d%%nat,%s)"%(eid(e),Zv(p)) for e,p in zip(c["els"],c["pos"]))
    P="[%s]"%";".join("(%d%%nat,%s)"%(eid(e),Zv(p)) for e,p in zip(c["pel"],c["pp"]))
    cell="(%s,%s,%s)"%tuple(Zv(r) for r in c["cell"])
    tn=c["atol"].numerator*U; td=c["atol"].denominator
    keys="[%s]"%";".join("[%s]"%";".join("%d%%nat"%i for i in sorted(m)) for m in sorted(map(lambda m: tuple(sorted(m)), idx)))
    # impl outputs for accept check: idx, positions, quats (exact dyadic)
    outs=[]
    for m,mp,q in zip(idx,mpos,quats):
        qq=q.as_quat(); fr=[Fraction(float(x)) for x in qq]; den=max(f.denominator for f in fr); qi=[int(f*den) for f in fr]
        outs.append("([%s],[%s],(%d,%d,%d,%d))"%(";".join("%d%%nat"%i for i in m), ";".join(Zv(p) for p in mp), *qi))
    return "(%s, %s, %s, {| tn:=%d; td:=%d |}, %s, [%s])"%(S,cell,P,tn,td,keys,";".join(outs))
if __name__=="__main__":
    ncase=int(sys.argv[1]); rng=np.random.default_rng(int(sys.argv[2]) if len(sys.argv)>2 else 1)
    cases=[]; t0=time.time()
    for k in range(ncase):
        c=make_case(k,rng)
        if c is None: continue
        res=run_impl(c,k); cases.append(coq_case(c,res))
    print("(* impl time %.2fs for %d cases *)"%(time.time()-t0,len(cases)), file=sys.stderr)
    print("From Coq Require Import ZArith List Bool. Import ListNotations. Require Import Find. Open Scope Z_scope.")
    print("Definition cases := [\n%s\n]."%";\n".join(cases))
    print(r'''

Fixpoint lle (a b:list nat) : bool := match a,b with [],_ => true | _,[] => false | x::a',y::b' => if Nat.ltb x y then true else if Nat.ltb y x then false else lle a' b' end.
Fixpoint ins (x:list nat) (l:list (list nat)) := match l with [] => [x] | y::t => if lle x y then x::l else y::ins x t end.
Definition sortk l := fold_right ins [] l.
Fixpoint leqb2 (a b:list (list nat)) := match a,b with [],[] => true | x::a',y::b' => list_eqb x y && leqb2 a' b' | _,_ => false end.
Definition run_case (c : list atom * mat * list atom * tolr * list (list nat) * list (list nat * list vec * quat)) : bool*bool :=
  let '(St,cell,P,tol,keys,outs) := c in
  let a1 := a1 P None in let a2 := a2 P None in
  let res := find (rot_model None a1 a2) (fun _ => 0%nat) St cell P tol 100000 None in
  let mk := sortk (map (fun r => sort_nat (fst (fst r))) res) in
  let slack := {| tn := tn tol * 1000000001; td := td tol * 1000000000 |} in
  let ok_accept := forallb (fun o => let '(idx,pos,q) := o in
       match accept (fun _ _ => q) P slack 100000 None (combine idx pos) with Some _ => true | None => false end) outs in
  (leqb2 mk keys, ok_accept).
Time Eval vm_compute in (map run_case cases).
''')
