import sys, numpy as np, copy, random
sys.path.insert(0,'/tmp/scratch/repo'); sys.path.insert(0,'/tmp/am')
from mofun import Atoms
import atoms_model as M
KATTR={"bonds":("bonds","bond_types","bond_type_coeffs","extra_bond_fields","extra_bond_labels",2),"angles":("angles","angle_types","angle_type_coeffs","extra_angle_fields","extra_angle_labels",3),
 "dihedrals":("dihedrals","dihedral_types","dihedral_type_coeffs","extra_dihedral_fields","extra_dihedral_labels",4),"impropers":("impropers","improper_types","improper_type_coeffs","extra_improper_fields","extra_improper_labels",4)}
rng=np.random.default_rng(77)
def rand_state(n,tag,coeffs,labels_pool):
    nt=int(rng.integers(1,3)); typ=[int(x) for x in rng.integers(0,nt,n)]
    xl=[l for l in labels_pool if rng.random()<0.5]
    st=dict(pos=[tuple(int(x) for x in rng.integers(0,40,3)) for _ in range(n)], typ=typ, chg=[float(x) for x in rng.integers(-3,3,n)], grp=[int(x) for x in rng.integers(0,3,n)],
            xl=xl, xf=[["%s%d%s"%(tag,i,l) for l in xl] for i in range(n)],
            t_el=["E%s%d"%(tag,i) for i in range(nt)], t_mass=[10.0+i for i in range(nt)], t_lab=["L%s%d"%(tag,i) for i in range(nt)], t_pair=(["P%s%d"%(tag,i) for i in range(nt)] if coeffs else []))
    for k,(a_,t_,c_,x_,l_,ar) in KATTR.items():
        m=int(rng.integers(0,3)) if n>=ar else 0; tups=[]
        for _ in range(m):
            t=tuple(int(x) for x in rng.choice(n,ar,replace=False))
            if t not in tups and t[::-1] not in tups: tups.append(t)
        ntyp=int(rng.integers(1,3)); kl=[l for l in ["ka","kb"] if rng.random()<0.4]
        st[k]=dict(tup=tups, typ=[int(x) for x in rng.integers(0,ntyp,len(tups))], coef=(["%s%s%d"%(tag,k,i) for i in range(ntyp)] if coeffs else []),
                   xl=kl, xf=[["%s%s%d%s"%(tag,k,i,l) for l in kl] for i in range(len(tups))])
    return st
def to_atoms(st,cell):
    kw={}
    for k,(a_,t_,c_,x_,l_,ar) in KATTR.items():
        kw[a_]=st[k]["tup"]; kw[t_]=st[k]["typ"]; kw[c_]=st[k]["coef"]; kw[l_]=st[k]["xl"]; kw[x_]=st[k]["xf"] if (st[k]["xl"] and st[k]["tup"]) else []
    return Atoms(atom_types=st["typ"], positions=[list(map(float,p)) for p in st["pos"]], charges=st["chg"], groups=st["grp"], atom_type_elements=st["t_el"], atom_type_masses=st["t_mass"],
        atom_type_labels=st["t_lab"], pair_coeffs=st["t_pair"], extra_atom_labels=st["xl"], extra_atom_fields=st["xf"] if st["xl"] else [], cell=cell, **kw)
def from_atoms(a):
    st=dict(pos=[tuple(int(round(x)) for x in p) for p in a.positions], typ=[int(x) for x in a.atom_types], chg=[float(x) for x in a.charges], grp=[int(x) for x in a.groups],
        xl=list(a.extra_atom_labels), xf=[[str(x) for x in r] for r in np.array(a.extra_atom_fields).tolist()],
        t_el=[str(x) for x in a.atom_type_elements], t_mass=[float(x) for x in a.atom_type_masses], t_lab=[str(x) for x in a.atom_type_labels], t_pair=[str(x) for x in a.pair_coeffs])
    for k,(a_,t_,c_,x_,l_,ar) in KATTR.items():
        tup=[tuple(int(v) for v in t) for t in np.array(getattr(a,a_)).reshape(-1,ar).tolist()]
        st[k]=dict(tup=tup, typ=[int(x) for x in getattr(a,t_)], coef=[str(x) for x in getattr(a,c_)], xl=list(getattr(a,l_)), xf=[[str(x) for x in r] for r in np.array(getattr(a,x_)).tolist()])
    return st
def norm(st):
    st=copy.deepcopy(st)
    if not st["xl"]: st["xf"]=[[] for _ in st["pos"]]
    for k in M.KINDS:
        if not st[k]["xl"]: st[k]["xf"]=[[] for _ in st[k]["tup"]]
    return st
bad=0; nops=0
cell=[[40,0,0],[5,41,0],[-3,7,42]]
for hist in range(300):
    coeffs = hist%3!=2
    st=rand_state(int(rng.integers(1,5)),"a",coeffs,["x","y"]); A=to_atoms(st,np.array(cell,float))
    st=from_atoms(A)
    ops=[]
    try:
        for step in range(int(rng.integers(1,5))):
            op=rng.choice(["ext","extmap","extoffs","del","repl"])
            if op=="del" and len(st["pos"])>1:
                D=[int(x) for x in rng.choice(len(st["pos"]), int(rng.integers(1,len(st["pos"]))), replace=False)]
                del A[D]; M.delitem(st,D); ops.append(("del",D))
            elif op in ("ext","extmap","extoffs"):
                o=rand_state(int(rng.integers(1,4)),"o%d"%step,coeffs,["y","z"]); O=to_atoms(o,None); o=from_atoms(O)
                m={}
                if op=="extmap":
                    ks=list(rng.permutation(len(o["pos"])))[:int(rng.integers(1,len(o["pos"])+1))]; vs=list(rng.permutation(len(st["pos"])))[:len(ks)]
                    m={int(k):int(v) for k,v in zip(ks,vs)}
                if op=="extoffs":
                    offs=A.extend_types(O); offs_m=M.extend_types(st,o)
                    if tuple(offs)!=tuple(offs_m): bad+=1; print("offsets differ",hist,offs,offs_m)
                    A.extend(O,offsets=offs); A.extend(O,offsets=offs); M.extend(st,o,offs=offs_m); M.extend(st,o,offs=offs_m); ops.append(("extoffs",))
                else:
                    A.extend(O,structure_index_map=m); M.extend(st,o,m=m); ops.append((op,m))
            elif op=="repl" and len(st["pos"])<=8:
                r=tuple(int(x) for x in rng.integers(1,3,3)); A=A.replicate(r); st,_=M.replicate(st,r,cell); cell_new=None; ops.append(("repl",r))
                # keep cell fixed for subsequent replicate in model: use A.cell
                cell=[[int(round(x)) for x in row] for row in A.cell.tolist()]
            nops+=1
            got=norm(from_atoms(A)); exp=norm(st)
            if got!=exp:
                bad+=1; diff=[k for k in got if got[k]!=exp[k]]; print("MISMATCH hist",hist,ops,diff, {k:(got[k],exp[k]) for k in diff[:1]}); break
    except Exception as e:
        import traceback; bad+=1; print("EXC hist",hist,ops,type(e).__name__,e)
    cell=[[40,0,0],[5,41,0],[-3,7,42]]
print("histories 300 ops",nops,"bad",bad)
