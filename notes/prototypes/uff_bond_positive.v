From Coq Require Import Reals Lra Lia Psatz.
From Interval Require Import Tactic.
Open Scope R_scope.
Definition rBO (ri rj bo : R) := -0.1332 * (ri + rj) * ln bo.
Definition rEN (ri rj xi xj : R) := (ri * rj * (sqrt xi - sqrt xj)^2) / (xi * ri + xj * rj).
Definition rij (ri rj xi xj bo : R) := ri + rj + rBO ri rj bo - rEN ri rj xi xj.

Lemma rEN_bound ri rj xi xj : 0 < ri -> 0 < rj -> 2 <= xi <= 11.04 -> 2 <= xj <= 11.04 ->
  rEN ri rj xi xj <= 0.4554 * (ri + rj).
Proof.
  intros Hi Hj Hxi Hxj. unfold rEN.
  assert (Hs : 1.41421 <= sqrt xi <= 3.32266) by (split; interval).
  assert (Ht : 1.41421 <= sqrt xj <= 3.32266) by (split; interval).
  set (s := sqrt xi) in *. set (t := sqrt xj) in *.
  assert (Hd : 0 < xi * ri + xj * rj) by nra.
  assert (Hsq : (s - t)^2 <= 3.6427) by nra.
  assert (Hden : 2 * (ri + rj) <= xi * ri + xj * rj) by nra.
  apply (Rmult_le_reg_r (xi * ri + xj * rj)); [lra|]. unfold Rdiv. rewrite Rmult_assoc, Rinv_l by lra. rewrite Rmult_1_r.
  (* ri rj (s-t)^2 <= 0.4554 (ri+rj) (xi ri + xj rj) *)
  assert (H4 : 4 * (ri * rj) <= (ri + rj)^2) by (pose proof (pow2_ge_0 (ri - rj)); nra).
  assert (Hpos : 0 <= ri * rj) by nra.
  assert (A : ri * rj * (s - t)^2 <= ri * rj * 3.6427) by (apply Rmult_le_compat_l; lra).
  assert (B : 0.4554 * (ri + rj) * (2 * (ri + rj)) <= 0.4554 * (ri + rj) * (xi * ri + xj * rj)).
  { apply Rmult_le_compat_l; [nra|lra]. }
  nra.
Qed.

Lemma rij_positive ri rj xi xj bo : 0 < ri -> 0 < rj -> 2 <= xi <= 11.04 -> 2 <= xj <= 11.04 -> 1 <= bo <= 3 ->
  0.39 * (ri + rj) <= rij ri rj xi xj bo.
Proof.
  intros Hi Hj Hxi Hxj Hbo. unfold rij, rBO.
  pose proof (rEN_bound ri rj xi xj Hi Hj Hxi Hxj) as HE.
  assert (Hln : 0 <= ln bo <= 1.0987) by (split; interval).
  nra.
Qed.
Print Assumptions rij_positive.
