From Coq Require Import List Arith Bool Lia Permutation Sorting.
Import ListNotations.
Require Import NP.

Definition touches (ds:list nat) (t:list nat) : bool := existsb (fun v => memb v ds) t.
Definition dec1 (d v:nat) := if d <? v then v - 1 else v.
Definition dec_above (d:nat) (tups:list (list nat)) := map (map (dec1 d)) tups.
Fixpoint ins_desc (x:nat) (l:list nat) := match l with [] => [x] | y::t => if y <=? x then x::l else y :: ins_desc x t end.
Definition sort_desc (l:list nat) := fold_right ins_desc [] l.    (* sorted(indices, reverse=True) *)
Definition reindex (ds:list nat) (tups:list (list nat)) := fold_left (fun acc d => dec_above d acc) (sort_desc ds) tups.
(* Atoms._delete_and_reindex_atom_index_array *)
Definition delete_and_reindex (ds:list nat) (tups:list (list nat)) : list (list nat) * list nat :=
  let dead := find_idx (touches ds) tups in (reindex ds (np_delete tups dead), dead).

Definition count_below (D:list nat) (v:nat) := length (filter (fun d => d <? v) D).
Definition ren (D:list nat) (v:nat) := v - count_below D v.

Fixpoint sdesc (l:list nat) := match l with [] => True | x::t => Forall (fun y => y < x) t /\ sdesc t end.

Lemma ins_desc_perm x l : Permutation (x::l) (ins_desc x l).
Proof. induction l as [|y t IH]; simpl; auto. destruct (y <=? x); auto. eapply perm_trans; [apply perm_swap|]. constructor. exact IH. Qed.
Lemma sort_desc_perm l : Permutation l (sort_desc l).
Proof. induction l as [|x l IH]; simpl; auto. eapply perm_trans; [|apply ins_desc_perm]. constructor. exact IH. Qed.
Lemma ins_desc_sdesc x l : sdesc l -> ~ In x l -> sdesc (ins_desc x l).
Proof.
  induction l as [|y t IH]; simpl; intros Hs Hn; auto.
  destruct Hs as [Hf Hs]. destruct (y <=? x) eqn:E.
  - apply Nat.leb_le in E. simpl. split; [|split; assumption].
    constructor; [lia|]. eapply Forall_impl; [|exact Hf]. intros; simpl in *; lia.
  - apply Nat.leb_gt in E. simpl. split.
    + assert (P: Permutation (x::t) (ins_desc x t)) by apply ins_desc_perm.
      eapply Permutation_Forall; [exact P|]. constructor; [lia|exact Hf].
    + apply IH; auto.
Qed.
Lemma sort_desc_sdesc l : NoDup l -> sdesc (sort_desc l).
Proof. induction 1 as [|x l Hn Hd IH]; simpl; auto. apply ins_desc_sdesc; auto.
  intro Hin. apply Hn. eapply Permutation_in; [apply Permutation_sym, sort_desc_perm|exact Hin]. Qed.

Lemma count_below_perm D D' v : Permutation D D' -> count_below D v = count_below D' v.
Proof. intros P. unfold count_below. induction P; simpl; auto; repeat (match goal with |- context[if ?b then _ else _] => destruct b end); simpl; lia. Qed.

Lemma count_below_dec D v d : Forall (fun y => y < d) D -> d < v -> count_below D (v-1) = count_below D v.
Proof. unfold count_below. induction 1 as [|x D Hx HF IH]; intros Hv; simpl; auto.
  destruct (x <? v - 1) eqn:A, (x <? v) eqn:B; simpl; rewrite ?IH by assumption; auto;
  (apply Nat.ltb_lt in A || apply Nat.ltb_ge in A); (apply Nat.ltb_lt in B || apply Nat.ltb_ge in B); lia. Qed.

Lemma fold_dec_ren D v : sdesc D -> ~ In v D -> fold_left (fun a d => dec1 d a) D v = ren D v.
Proof.
  revert v. induction D as [|d D IH]; intros v Hs Hn; simpl.
  - unfold ren, count_below; simpl; lia.
  - destruct Hs as [Hlt Hs]. assert (Hd : v <> d) by (intro; subst; apply Hn; left; auto).
    unfold dec1 at 2. destruct (d <? v) eqn:E.
    + apply Nat.ltb_lt in E. rewrite IH.
      * unfold ren. rewrite (count_below_dec D v d) by assumption. unfold count_below at 2. simpl.
        assert (d <? v = true) by (apply Nat.ltb_lt; lia). rewrite H. simpl. fold (count_below D v).
        lia.
      * exact Hs.
      * intro Hin. rewrite Forall_forall in Hlt. specialize (Hlt _ Hin). lia.
    + apply Nat.ltb_ge in E. rewrite IH.
      * unfold ren, count_below. simpl. assert (d <? v = false) by (apply Nat.ltb_ge; lia). rewrite H. reflexivity.
      * exact Hs.
      * intro; apply Hn; right; auto.
Qed.

Lemma fold_dec_above_map D : forall tups, fold_left (fun acc d => dec_above d acc) D tups = map (map (fun v => fold_left (fun a d => dec1 d a) D v)) tups.
Proof.
  induction D as [|d D IH]; intros tups; simpl.
  - symmetry. erewrite map_ext; [apply map_id|]. intros t. simpl. apply map_id.
  - rewrite IH. unfold dec_above. rewrite map_map. apply map_ext. intros t. rewrite map_map. reflexivity.
Qed.

Lemma touches_false ds t : touches ds t = false -> forall v, In v t -> ~ In v ds.
Proof. unfold touches. intros H v Hv Hd. assert (existsb (fun v0 => memb v0 ds) t = true) by (apply existsb_exists; exists v; split; auto; apply memb_In; auto). congruence. Qed.

(* C10 core: the literal algorithm equals the specification *)
Theorem delete_and_reindex_spec ds tups : NoDup ds ->
  fst (delete_and_reindex ds tups) = map (map (ren ds)) (filter (fun t => negb (touches ds t)) tups).
Proof.
  intros Hnd. unfold delete_and_reindex, reindex. simpl. rewrite np_delete_find_idx, fold_dec_above_map.
  apply map_ext_in. intros t Ht. apply filter_In in Ht. destruct Ht as [_ Ht]. apply negb_true_iff in Ht.
  apply map_ext_in. intros v Hv.
  rewrite fold_dec_ren.
  - unfold ren. rewrite (count_below_perm _ _ v (Permutation_sym (sort_desc_perm ds))). reflexivity.
  - apply sort_desc_sdesc; auto.
  - intro Hin. eapply (touches_false ds t Ht v Hv). eapply Permutation_in; [apply Permutation_sym, sort_desc_perm|exact Hin].
Qed.
Print Assumptions delete_and_reindex_spec.

(* the mutation "process deleted indices in ascending order" is NOT correct: witness *)
Definition reindex_asc (ds:list nat) (tups:list (list nat)) := fold_left (fun acc d => dec_above d acc) (rev (sort_desc ds)) tups.
Example ascending_is_wrong : reindex_asc [1;2] [[0;3]] <> map (map (ren [1;2])) [[0;3]].
Proof. vm_compute. discriminate. Qed.
