(* C17 against the repository's CURRENT radius table (Tables.v regenerated from /repo/mofun/detect_bonds.py on every run). *)
From Coq Require Import ZArith List Bool String Lia.
From Mofun Require Import Model.Atoms Model.Geom Model.Bonds Proofs.BondsProofs.
From MofunGen Require Import Tables.
Import ListNotations.
Open Scope Z_scope.

Definition largest_cutoff100 : Z := 2 * max_radius covalent_radii + 45.
Eval vm_compute in largest_cutoff100.

(* every bond cutoff of the current table is at most largest_cutoff100 / 100 Angstrom; the harness generates cells whose
   perpendicular widths exceed it (the domain of C17) *)
Theorem C17_table_cutoffs_bounded : forall e1 e2 c, cutoff100 covalent_radii non_metals e1 e2 = Some c -> c <= largest_cutoff100.
Proof. intros e1 e2 c H. exact (cutoff_le covalent_radii non_metals e1 e2 c H). Qed.
Print Assumptions C17_table_cutoffs_bounded.

(* every element with a radius has a cutoff with every other one; every non-metal has a radius; radii are positive *)
Definition table_ok : bool :=
  forallb (fun e => match lookup e covalent_radii with Some _ => true | None => false end) non_metals &&
  forallb (fun kv => 0 <? snd kv) covalent_radii && (largest_cutoff100 <=? 600).
Lemma table_ok_true : table_ok = true. Proof. vm_compute. reflexivity. Qed.
