(* C14 against the repository's CURRENT mass table (Tables.v is regenerated from
   /repo/mofun/atomic_masses.py on every run; this file is recompiled on every run). *)
From Coq Require Import ZArith List String Bool Lia.
From Mofun Require Import Model.Guess Proofs.GuessProofs.
From MofunGen Require Import Tables.
Import ListNotations.
Open Scope Z_scope.

(* %10.6f of a mass given in units of 1/mass_scale, half-even is irrelevant away from ties: we bound the error *)
Definition unit6 : Z := mass_scale / 1000000.
Definition round6 (m : Z) : Z := ((2 * m + unit6) / (2 * unit6)) * unit6.   (* round half up to 6 decimals *)

Definition keys_nodup : bool :=
  (fix nd (l : list string) := match l with [] => true | x :: t => negb (existsb (String.eqb x) t) && nd t end)
    (map fst atomic_masses).

(* an element is distinguishable when every other entry's mass differs by more than 2 * (half a unit of the 6th decimal) *)
Definition distinguishable (e : string) (me : Z) : bool :=
  forallb (fun c => String.eqb (fst c) e || (unit6 <? adiff me (snd c))) atomic_masses.

Definition finder (delta : Z) : Z -> option string := fun m => find_element atomic_masses delta (round6 m).
Definition delta_01 : Z := mass_scale / 10.
Definition delta_001 : Z := mass_scale / 100.

Lemma roundtrip_ok_01 : sweep atomic_masses distinguishable (finder delta_01) = true.  Proof. vm_compute. reflexivity. Qed.
Lemma roundtrip_ok_001 : sweep atomic_masses distinguishable (finder delta_001) = true. Proof. vm_compute. reflexivity. Qed.
Lemma keys_nodup_ok : keys_nodup = true. Proof. vm_compute. reflexivity. Qed.

(* every distinguishable element of the current table is recovered from its own mass printed with six decimals,
   at both documented tolerances (finite table: forallb by vm_compute, lifted with forallb_forall) *)
Theorem C14_table_roundtrip : forall e me, In (e, me) atomic_masses -> distinguishable e me = true ->
  finder delta_01 me = Some e /\ finder delta_001 me = Some e.
Proof.
  intros e me Hin Hd. split.
  - exact (table_lift atomic_masses distinguishable (finder delta_01) roundtrip_ok_01 e me Hin Hd).
  - exact (table_lift atomic_masses distinguishable (finder delta_001) roundtrip_ok_001 e me Hin Hd).
Qed.
Print Assumptions C14_table_roundtrip.

(* which elements are NOT distinguishable in the current table (reported in the evidence) *)
Definition indistinguishable : list string :=
  map fst (filter (fun c => negb (distinguishable (fst c) (snd c))) atomic_masses).
Eval vm_compute in indistinguishable.

(* non-vacuity: most of the table is distinguishable *)
Example C14_table_nonvacuous : (100 <=? Z.of_nat (List.length (filter (fun c => distinguishable (fst c) (snd c)) atomic_masses))) = true.
Proof. vm_compute. reflexivity. Qed.
