(* C18 against the repository's CURRENT UFF4MOF table (Tables.v regenerated from /repo/mofun/uff4mof.py on every run). *)
From Coq Require Import Reals ZArith List String Bool Lra.
From Mofun Require Import Model.UFF Proofs.UFFProofs.
From MofunGen Require Import Tables.
Import ListNotations.

(* the boolean sweep: radii, electronegativities, effective charges, angles of every entry lie in the ranges the positivity proofs need *)
Lemma table_ok_now : table_ok uff4mof = true.
Proof. vm_compute. reflexivity. Qed.

Open Scope R_scope.
Theorem C18_table_bonds_positive : forall a1 a2 v1 v2 bo, lookup a1 uff4mof = Some v1 -> lookup a2 uff4mof = Some v2 -> 1 <= bo <= 3 ->
  0.39 * (getR uff4mof a1 0 + getR uff4mof a2 0) <= bond_length uff4mof a1 a2 bo <= getR uff4mof a1 0 + getR uff4mof a2 0
  /\ 0 < bond_length uff4mof a1 a2 bo /\ 0 < bond_force uff4mof a1 a2 bo.
Proof. exact (table_bond_positive uff4mof table_ok_now). Qed.
Print Assumptions C18_table_bonds_positive.

Theorem C18_table_angles_positive : forall a1 a2 a3 v1 v2 v3 b12 b23,
  lookup a1 uff4mof = Some v1 -> lookup a2 uff4mof = Some v2 -> lookup a3 uff4mof = Some v3 -> 1 <= b12 <= 3 -> 1 <= b23 <= 3 ->
  0 < angle_force uff4mof a1 a2 a3 b12 b23.
Proof. exact (table_angle_positive uff4mof table_ok_now). Qed.
Print Assumptions C18_table_angles_positive.

(* every entry whose angle is not 180 lies strictly between 0 and 180 degrees, so sin(theta0) <> 0 and the fourier coefficients are finite *)
Definition fourier_entries_ok : bool :=
  forallb (fun kv => let th := nth 1 (snd kv) 0%Z in (th =? 180000000)%Z || ((0 <? th)%Z && (th <? 180000000)%Z)) uff4mof.
Lemma fourier_entries_ok_now : fourier_entries_ok = true. Proof. vm_compute. reflexivity. Qed.
Eval vm_compute in (List.length uff4mof).
