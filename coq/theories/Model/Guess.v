(* Model of helpers.guess_elements_from_masses and of the element fallback in Atoms.load_lmpdat.
   Executable definitions only; proofs are in Proofs/GuessProofs.v. *)
From Coq Require Import ZArith List String DecimalString.
Import ListNotations.
Open Scope Z_scope.

(* masses and tolerances are exact decimals, scaled by a common power of ten *)
Definition adiff (m me : Z) : Z := Z.abs (m - me).

(* min(ATOMIC_MASSES.items(), key=lambda sm: abs(elmass - sm[1])): first entry with the smallest |diff| *)
Definition closer (m : Z) (best cand : string * Z) : string * Z :=
  if adiff m (snd cand) <? adiff m (snd best) then cand else best.
Definition nearest (tbl : list (string * Z)) (m : Z) : option (string * Z) :=
  match tbl with [] => None | e0 :: t => Some (fold_left (closer m) t e0) end.

Definition find_element (tbl : list (string * Z)) (delta m : Z) : option string :=
  match nearest tbl m with
  | Some (e, me) => if adiff m me <? delta then Some e else None
  | None => None
  end.

Fixpoint sequence {A} (l : list (option A)) : option (list A) :=
  match l with
  | [] => Some []
  | None :: _ => None
  | Some x :: t => match sequence t with Some r => Some (x :: r) | None => None end
  end.

(* guess_elements_from_masses: raises (None) as soon as one mass has no element *)
Definition guess (tbl : list (string * Z)) (delta : Z) (ms : list Z) : option (list string) :=
  sequence (map (find_element tbl delta) ms).

Definition string_of_nat (n : nat) : string := NilEmpty.string_of_uint (Nat.to_uint n).

(* load_lmpdat: elements := guess, or str(i+1) for every type if the guess fails *)
Definition load_elements (tbl : list (string * Z)) (delta : Z) (ms : list Z) : list string :=
  match guess tbl delta ms with
  | Some es => es
  | None => map (fun i => string_of_nat (S i)) (seq 0 (List.length ms))
  end.
