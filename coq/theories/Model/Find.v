(* Model of mofun.find_pattern_in_structure (and _get_positions_from_all_adjacent_unit_cells), exact integer arithmetic on the grid.
   `rot` (the quaternion construction) and `pick` (random.choice) are parameters.  Executable definitions only. *)
From Coq Require Import ZArith List Bool.
From Mofun Require Import Model.Atoms Model.Geom.
Import ListNotations.
Open Scope Z_scope.

Definition atom := (nat * vec)%type.   (* element id, position *)

Section Find.
Variable rot : list vec -> list vec -> quat.   (* pattern (relative to a1) -> candidate positions -> quaternion *)
Variable pick : nat -> nat.                    (* number of good orderings -> chosen index *)
Variable S : list atom.
Variable cell : mat.
Variable P : list atom.
Variable tol : tolr.
Variable rtol_den : Z.  (* 100000 *)
Variable U : Z.         (* grid units per Angstrom, for atol in allclose: atol = tn/td grid units already *)

Definition nS := length S.
Definition Ppos := map snd P.
Definition Dmax : Z := fold_left Z.max (flat_map (fun a => map (fun b => d2 a b) Ppos) Ppos) 0.

(* images: global index g = img*nS + i *)
Definition images : list (nat * atom) :=
  let offs := offsets27 cell in
  combine (seq 0 (length offs * nS)) (flat_map (fun o => map (fun a => (fst a, vadd (snd a) o)) S) offs).

(* cell_is_orthorhombic (after fix D17): diagonal matrix with a positive diagonal *)
Definition is_ortho : bool := let '((a,b,c),(d,e,f),(g,h,i)) := cell in
  (b=?0)&&(c=?0)&&(d=?0)&&(f=?0)&&(g=?0)&&(h=?0)&&(0<?a)&&(0<?e)&&(0<?i).

Definition near_ortho (p:vec) : bool := let '((Lx,_,_),(_,Ly,_),(_,_,Lz)) := cell in let '(x,y,z):=p in
  ge_neg_pl_b x Dmax tol && lt_L_pl_b x Lx Dmax tol && ge_neg_pl_b y Dmax tol && lt_L_pl_b y Ly Dmax tol &&
  ge_neg_pl_b z Dmax tol && lt_L_pl_b z Lz Dmax tol.

(* triclinic: window rounded up with Z.sqrt *)
Definition ceil_div (a b:Z) := (a + b - 1) / b.
Definition d_up : Z := Z.sqrt Dmax + 1 + ceil_div (2*tn tol) (td tol).
Definition near_tric (p:vec) : bool := let '(c0,c1,c2) := cell in
  let chk (n:vec) (c:vec) :=
     let nn := Z.sqrt (n2 n) + 1 in
     let center := dot n (vadd c0 (vadd c1 c2)) in   (* sign of center distance (times 2) *)
     let s := if 0 <? center then -1 else 1 in      (* nmults = -centerdist/|centerdist| *)
     let v := s * dot n p in
     (- Z.abs (dot c n) - d_up*nn <=? v) && (v <=? d_up*nn) in
  chk (cross c0 c1) c2 && chk (cross c0 c2) c1 && chk (cross c1 c2) c0.

Definition near : list (nat * atom) := filter (fun ga => if is_ortho then near_ortho (snd (snd ga)) else near_tric (snd (snd ga))) images.

Definition nearby (a:vec) : list (nat*atom) :=
  filter (fun ga => let '(x,y,z) := vsub (snd (snd ga)) a in within_pl_b x Dmax tol && within_pl_b y Dmax tol && within_pl_b z Dmax tol) near.

(* candidate growth: partial = list of (g, pos) in pattern order reversed? keep in order *)
Definition extend_partial (nb : list (nat*atom)) (k:nat) (pk : atom) (partial : list (nat*vec)) : list (list (nat*vec)) :=
  let prevP := firstn k Ppos in
  flat_map (fun ga => let '(g,(e,x)) := ga in
     if Nat.eqb e (fst pk) && forallb (fun pq => isclose_sqrt_b (d2 (snd pk) (fst pq)) (d2 x (snd (snd pq))) tol) (combine prevP partial)
     then [partial ++ [(g,x)]] else []) nb.

Fixpoint grow (nb : list (nat*atom)) (k:nat) (rest : list atom) (partials : list (list (nat*vec))) : list (list (nat*vec)) :=
  match rest with [] => partials | pk::rest' => grow nb (Datatypes.S k) rest' (flat_map (extend_partial nb k pk) partials) end.

Definition cands : list (list (nat*vec)) :=
  match P with [] => [] | p0::rest =>
    flat_map (fun ga => let '(g,(e,x)) := ga in
       if (Nat.ltb g nS) && Nat.eqb e (fst p0) then grow (nearby x) 1 rest [[(g,x)]] else []) near end.

(* axis points: first argmax of pairwise squared distances, row-major *)
Definition argmax_pair : nat*nat :=
  let n := length Ppos in
  let idx := flat_map (fun i => map (fun j => (i,j)) (seq 0 n)) (seq 0 n) in
  fst (fold_left (fun best ij => let v := d2 (nth (fst ij) Ppos (0,0,0)) (nth (snd ij) Ppos (0,0,0)) in
        if snd best <? v then (ij, v) else best) idx ((0%nat,0%nat), -1)).
Variable hints : option (nat*nat*nat).
Definition a1 : nat := match hints with Some (h1,_,_) => h1 | None => fst argmax_pair end.
Definition a2 : nat := match hints with Some (_,h2,_) => h2 | None => snd argmax_pair end.
Definition Prel : list vec := map (fun p => vsub p (nth a1 Ppos (0,0,0))) Ppos.

Definition allclose_comp (N lhs tgt : Z) : bool :=
  (* |lhs|/N <= tn/td + |tgt|/rtol_den   (all in grid units) *)
  Z.abs lhs * td tol * rtol_den <=? N * tn tol * rtol_den + td tol * Z.abs tgt.
Definition accept (c : list (nat*vec)) : option quat :=
  let xs := map snd c in
  let q := rot Prel xs in
  let N := qn2 q in
  if N =? 0 then None else
  let xa := nth a1 xs (0,0,0) in
  if forallb (fun px => let '(p,x) := px in
       (* chk = M p / N + xa ; compare with x ; target b = chk (numpy: allclose(atom_positions, chk)) *)
       let '(r1,r2,r3) := rotapply q p in let '(xa1,xa2,xa3) := xa in let '(x1,x2,x3) := x in
       allclose_comp N (r1 + N*(xa1-x1)) ((r1 + N*xa1)) && allclose_comp N (r2 + N*(xa2-x2)) (r2+N*xa2) && allclose_comp N (r3+N*(xa3-x3)) (r3+N*xa3))
     (combine Prel xs)
  then Some q else None.

Fixpoint insert_sorted (x:nat) (l:list nat) := match l with [] => [x] | y::t => if Nat.leb x y then x::l else y :: insert_sorted x t end.
Definition sort_nat (l:list nat) := fold_right insert_sorted [] l.
Definition key (c : list (nat*vec)) : list nat := sort_nat (map (fun gx => Nat.modulo (fst gx) nS) c).
Fixpoint list_eqb (a b:list nat) := match a,b with [],[] => true | x::a',y::b' => Nat.eqb x y && list_eqb a' b' | _,_ => false end.
Fixpoint group_add (k:list nat) (c:list (nat*vec)) (gs : list (list nat * list (list (nat*vec)))) :=
  match gs with [] => [(k,[c])] | (k',cs)::t => if list_eqb k k' then (k', cs ++ [c]) :: t else (k',cs) :: group_add k c t end.
Definition groups := fold_left (fun gs c => group_add (key c) c gs) cands [].

Definition find : list (list nat * list vec * quat) :=
  flat_map (fun kg => let good := flat_map (fun c => match accept c with Some q => [(c,q)] | None => [] end) (snd kg) in
     match good with [] => [] | _ =>
       let '(c,q) := nth (Nat.modulo (pick (length good)) (length good)) good ([], (0,0,0,1)) in
       [(map (fun gx => Nat.modulo (fst gx) nS) c, map snd c, q)] end) groups.
End Find.

(* ---------- rot_model ---------- *)
Definition vmaxabs (v:vec) := let '(a,b,c):=v in Z.max (Z.abs a) (Z.max (Z.abs b) (Z.abs c)).
Definition shrinkv (v:vec) : vec := let m := vmaxabs v in if m <? 2^44 then v else let s := Z.log2 m - 40 in let '(a,b,c):=v in (Z.shiftr a s, Z.shiftr b s, Z.shiftr c s).
Definition shrinkq (q:quat) : quat := let '(x,y,z,w):=q in let m := Z.max (vmaxabs (x,y,z)) (Z.abs w) in
  if m <? 2^44 then q else let s := Z.log2 m - 40 in (Z.shiftr x s, Z.shiftr y s, Z.shiftr z s, Z.shiftr w s).
Definition perp (v:vec) : vec := let '(a,b,c):=v in if (Z.abs a <=? Z.abs b) && (Z.abs a <=? Z.abs c) then cross v (1,0,0) else if Z.abs b <=? Z.abs c then cross v (0,1,0) else cross v (0,0,1).
(* quaternion taking direction a to direction b *)
Definition q_two (fallback : option vec) (a b:vec) : quat :=
  let a := shrinkv (vscale (2^20) a) in let b := shrinkv (vscale (2^20) b) in
  let s := Z.sqrt (n2 a * n2 b) in let d := dot a b in let '(c1,c2,c3) := cross a b in
  if (s + d) * 1000000000000 <? s then (* antiparallel *) let '(p1,p2,p3) := match fallback with Some ax => ax | None => perp a end in (p1,p2,p3,0)
  else shrinkq (c1,c2,c3,s+d).
Definition proj_perp (v u:vec) : vec := vsub (vscale (n2 u) v) (vscale (dot v u) u).
Definition farthest_from_axis (Prel : list vec) (u:vec) : nat :=
  fst (fold_left (fun best ip => let v := n2 (cross (snd ip) u) in if snd best <? v then (fst ip, v) else best) (combine (seq 0 (length Prel)) Prel) (0%nat,-1)).
Definition rot_model (hints: option (nat*nat*nat)) (a1 a2:nat) (Prel xs : list vec) : quat :=
  match length Prel with 0%nat | 1%nat => (0,0,0,1) | _ =>
  let up := nth a2 Prel (0,0,0) in let xa := nth a1 xs (0,0,0) in
  let ux := vsub (nth a2 xs (0,0,0)) xa in
  let q1 := q_two None up ux in
  match length Prel with 2%nat => q1 | _ =>
    let o := match hints with Some (_,_,h) => h | None => farthest_from_axis Prel up end in
    let wp := shrinkv (proj_perp (shrinkv (rotapply q1 (nth o Prel (0,0,0)))) (shrinkv ux)) in
    let wx := shrinkv (proj_perp (vsub (nth o xs (0,0,0)) xa) (shrinkv ux)) in
    if (n2 wp =? 0) || (n2 wx =? 0) then q1 else shrinkq (qmul (q_two (Some (shrinkv ux)) wp wx) q1)
  end end.
