(* Model of helpers.typekey, rough_uff.calc_angles / calc_dihedrals / delete_if_all_in_set and of the type-assignment scheme shared by
   assign_bond_types / assign_angle_types / assign_dihedral_types.  Labels (UFF atom types) are natural numbers: the harness replaces
   every type string by its rank in the sorted set of strings, which preserves all comparisons.  Executable definitions only. *)
From Coq Require Import List Arith Bool.
Import ListNotations.

(* Python tuple comparison: lexicographic *)
Fixpoint lex_leb (a b : list nat) : bool :=
  match a, b with
  | [], _ => true
  | _ :: _, [] => false
  | x :: a', y :: b' => if x <? y then true else if y <? x then false else lex_leb a' b'
  end.
(* helpers.typekey: the smaller of the sequence and its reversal *)
Definition typekey (t : list nat) : list nat := if lex_leb (rev t) t then rev t else t.

(* undirected simple graph from a bond list (nx.Graph): adjacency of n = the distinct other ends, self-loops ignored *)
Definition memn (x : nat) (l : list nat) : bool := existsb (Nat.eqb x) l.
Fixpoint dedup (l : list nat) : list nat := match l with [] => [] | x :: t => if memn x t then dedup t else x :: dedup t end.
Definition nodes (bonds : list (nat * nat)) : list nat := dedup (flat_map (fun b => [fst b; snd b]) bonds).
Definition adj (bonds : list (nat * nat)) (n : nat) : list nat :=
  dedup (flat_map (fun b => if Nat.eqb (fst b) n then (if Nat.eqb (snd b) n then [] else [snd b])
                            else if Nat.eqb (snd b) n then [fst b] else []) bonds).

Fixpoint combinations2 (l : list nat) : list (nat * nat) :=
  match l with [] => [] | x :: t => map (fun y => (x, y)) t ++ combinations2 t end.

(* calc_angles: for every node, every unordered pair of its neighbours *)
Definition calc_angles (bonds : list (nat * nat)) : list (list nat) :=
  flat_map (fun n => map (fun ab => [fst ab; n; snd ab]) (combinations2 (adj bonds n))) (nodes bonds).

(* calc_dihedrals: for every edge {j,k} once (j before k in node order), every neighbour of j other than k and of k other than j *)
Definition edges (bonds : list (nat * nat)) : list (nat * nat) :=
  let ns := nodes bonds in
  (fix go (seen : list nat) (rest : list nat) : list (nat * nat) :=
     match rest with
     | [] => []
     | j :: rest' => map (fun k => (j, k)) (filter (fun k => negb (memn k seen)) (adj bonds j)) ++ go (j :: seen) rest'
     end) [] ns.
Definition calc_dihedrals (bonds : list (nat * nat)) : list (list nat) :=
  flat_map (fun jk => let '(j, k) := jk in
     flat_map (fun i => map (fun l => [i; j; k; l]) (filter (fun l => negb (Nat.eqb l j)) (adj bonds k)))
              (filter (fun i => negb (Nat.eqb i k)) (adj bonds j))) (edges bonds).

(* delete_if_all_in_set *)
Definition delete_if_all_in_set (terms : list (list nat)) (s : list nat) : list (list nat) :=
  filter (fun t => negb (forallb (fun v => memn v s) t)) terms.
Definition apply_exclude (arity : nat) (terms : list (list nat)) (exclude : option (list nat)) : list (list nat) :=
  match exclude with
  | Some s => if arity <=? length (dedup s) then delete_if_all_in_set terms s else terms
  | None => terms
  end.

(* type assignment: types are numbered in order of first appearance of their key *)
Fixpoint list_eqb (a b : list nat) : bool :=
  match a, b with [], [] => true | x :: a', y :: b' => Nat.eqb x y && list_eqb a' b' | _, _ => false end.
Fixpoint uniq_keys (l : list (list nat)) : list (list nat) :=
  match l with [] => [] | x :: t => x :: filter (fun y => negb (list_eqb x y)) (uniq_keys t) end.
Fixpoint index_of_key (k : list nat) (u : list (list nat)) : nat :=
  match u with [] => 0 | x :: t => if list_eqb k x then 0 else S (index_of_key k t) end.
Definition assign (keys : list (list nat)) : list nat * list (list nat) :=
  let u := uniq_keys keys in (map (fun k => index_of_key k u) keys, u).

Definition types_of (uff : list nat) (t : list nat) : list nat := map (fun a => nth a uff 0) t.
Definition bond_keys (uff : list nat) (terms : list (list nat)) : list (list nat) := map (fun t => typekey (types_of uff t)) terms.
(* dihedral key: type sequence up to reversal, plus the number of torsions about the central bond counted BEFORE the exclusion *)
Definition central (t : list nat) : list nat := typekey [nth 1 t 0; nth 2 t 0].
Definition count_central (all : list (list nat)) (t : list nat) : nat := length (filter (fun u => list_eqb (central u) (central t)) all).
Definition dihedral_keys (uff : list nat) (all terms : list (list nat)) : list (list nat) :=
  map (fun t => typekey (types_of uff t) ++ [count_central all t]) terms.
