(* Model of the discrete part of Atoms.save_p1_cif / load_p1_cif: atom-site labels ("%s%d" % (element, running count per element)),
   terms written as label tuples and read back through list.index, torsions = dihedrals followed by impropers, and the space-group guard.
   Numbers (cell parameters, fractional coordinates, "%.4f") and the CIF text itself (PyCifRW) are outside the model and exercised by the
   correspondence run.  Executable definitions only. *)
From Coq Require Import List Arith Bool String Ascii DecimalString.
Import ListNotations.
Open Scope string_scope.

Definition string_of_nat (n : nat) : string := NilEmpty.string_of_uint (Nat.to_uint n).

(* running count of each element: the k-th atom of element e gets e ++ str(k) *)
Fixpoint count_eq (e : string) (l : list string) : nat :=
  match l with [] => 0 | x :: t => (if String.eqb x e then 1 else 0) + count_eq e t end.
Fixpoint labels_from (seen : list string) (els : list string) : list string :=
  match els with
  | [] => []
  | e :: t => (e ++ string_of_nat (S (count_eq e seen))) :: labels_from (seen ++ [e]) t
  end.
Definition labels (els : list string) : list string := labels_from [] els.

(* list.index *)
Fixpoint index_of (x : string) (l : list string) : option nat :=
  match l with [] => None | y :: t => if String.eqb x y then Some 0 else option_map S (index_of x t) end.

Definition write_terms (labs : list string) (terms : list (list nat)) : list (list string) := map (map (fun i => nth i labs "")) terms.
Fixpoint sequence {A} (l : list (option A)) : option (list A) :=
  match l with [] => Some [] | None :: _ => None | Some x :: t => match sequence t with Some r => Some (x :: r) | None => None end end.
Definition read_terms (labs : list string) (rows : list (list string)) : option (list (list nat)) :=
  sequence (map (fun r => sequence (map (fun s => index_of s labs) r)) rows).

(* torsions: dihedrals followed by impropers; read back all as dihedrals *)
Definition write_torsions (dihedrals impropers : list (list nat)) : list (list nat) := dihedrals ++ impropers.

(* the guard: a _symmetry_space_group_name_H-M other than "P1" / "P 1" is rejected; a missing tag is accepted *)
Definition accepts_space_group (tag : option string) : bool :=
  match tag with None => true | Some s => String.eqb s "P1" || String.eqb s "P 1" end.
