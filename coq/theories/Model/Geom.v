(* Integer geometry on the dyadic grid: vectors, the 27 neighbour offsets, quaternion rotation (scaled by |q|^2),
   exact square-root-free comparisons.  Executable definitions only. *)
From Coq Require Import ZArith List Bool.
From Mofun Require Import Model.Atoms.
Import ListNotations.
Open Scope Z_scope.

Definition vsub (a b:vec) : vec := let '(a1,a2,a3):=a in let '(b1,b2,b3):=b in (a1-b1,a2-b2,a3-b3).
Definition dot (a b:vec) : Z := let '(a1,a2,a3):=a in let '(b1,b2,b3):=b in a1*b1+a2*b2+a3*b3.
Definition cross (a b:vec) : vec := let '(a1,a2,a3):=a in let '(b1,b2,b3):=b in (a2*b3-a3*b2, a3*b1-a1*b3, a1*b2-a2*b1).
Definition n2 (a:vec) := dot a a.
Definition d2 (a b:vec) := n2 (vsub a b).
Definition m11 := [-1;0;1].
Definition offsets27 (c:mat) : list vec :=
  (0,0,0) :: flat_map (fun i => flat_map (fun j => flat_map (fun k =>
     if (i =? 0) && (j =? 0) && (k =? 0) then [] else [lattice c i j k]) m11) m11) m11.

(* quaternion scalar-last *)
Definition quat := (Z*Z*Z*Z)%type.
Definition qn2 (q:quat) := let '(x,y,z,w):=q in x*x+y*y+z*z+w*w.
Definition rotapply (q:quat) (p:vec) : vec :=   (* M(q) p, scaled by |q|^2 *)
  let '(x,y,z,w):=q in let '(p1,p2,p3):=p in
  ((w*w+x*x-y*y-z*z)*p1 + 2*(x*y-w*z)*p2 + 2*(x*z+w*y)*p3,
   2*(x*y+w*z)*p1 + (w*w-x*x+y*y-z*z)*p2 + 2*(y*z-w*x)*p3,
   2*(x*z-w*y)*p1 + 2*(y*z+w*x)*p2 + (w*w-x*x-y*y+z*z)*p3).
Definition qmul (a b:quat) : quat :=  (* Hamilton product a*b: apply b then a *)
  let '(ax,ay,az,aw):=a in let '(bx,by_,bz,bw):=b in
  (aw*bx+ax*bw+ay*bz-az*by_, aw*by_-ax*bz+ay*bw+az*bx, aw*bz+ax*by_-ay*bx+az*bw, aw*bw-ax*bx-ay*by_-az*bz).

(* tolerance t = tn/td in grid units *)
Record tolr := { tn : Z; td : Z }.
(* |sqrt A - sqrt B| <= t *)
Definition isclose_sqrt_b (A B:Z) (t:tolr) : bool :=
  let s := (A+B)*(td t)*(td t) - (tn t)*(tn t) in
  (s <=? 0) || (s*s <=? 4*A*B*(td t)*(td t)*(td t)*(td t)).
(* |x| <= sqrt D + 2t *)
Definition within_pl_b (x D:Z) (t:tolr) : bool :=
  let a := Z.abs x * td t - 2*tn t in (a <=? 0) || (a*a <=? D*td t*td t).
(* x >= -(sqrt D + 2t) *)
Definition ge_neg_pl_b (x D:Z) (t:tolr) : bool :=
  let a := x*td t + 2*tn t in (0 <=? a) || (a*a <=? D*td t*td t).
(* x < L + sqrt D + 2t *)
Definition lt_L_pl_b (x L D:Z) (t:tolr) : bool :=
  let b := (x-L)*td t - 2*tn t in (b <? 0) || (b*b <? D*td t*td t).

