(* Model of Atoms.save_lmpdat / Atoms.load_lmpdat at the level of the file's CONTENT: header counts, box, and the sections as lists of
   records of numbers / interned strings.  What is not modelled (and is exercised by the correspondence instead): the text layout --
   "%"-formatting, blank-line section detection, str.split, float().
   Numbers: the structure's positions, cell, masses and charges are integers over a common denominator D (the harness uses D = 4096 for
   the original structure); the file holds them rounded to six decimals (units of 1e-6); a structure read from a file has D = 10^6.
   Coefficient strings are interned by their normal form (token list + at most one trailing comment).  Executable definitions only. *)
From Coq Require Import ZArith List Bool Arith.
From Mofun Require Import Model.Atoms.
Import ListNotations.
Open Scope Z_scope.

(* "%10.6f" % (n / d): round the exact value to the nearest multiple of 1e-6, ties to even *)
Definition round6 (d n : Z) : Z :=
  let q := (n * 1000000) / d in let r := (n * 1000000) mod d in
  if 2 * r <? d then q else if d <? 2 * r then q + 1 else if Z.even q then q else q + 1.

Inductive style := Full | Atomic.

Record aline := mk_aline { al_id : nat; al_grp : Z; al_typ : nat; al_chg : Z; al_pos : vec }.   (* ids and types 1-based; group = groups + 1 *)
Record tline := mk_tline { tl_id : nat; tl_typ : nat; tl_atoms : list nat }.                   (* all 1-based *)

Record lfile := mk_lfile {
  f_counts : nat * nat * nat * nat * nat;                       (* atoms bonds angles dihedrals impropers *)
  f_ntypes : list (option nat);                                  (* atom, bond, angle, dihedral, improper types; None = line not written *)
  f_box : option (vec * option vec);                             (* (xhi, yhi, zhi) with lo = 0; tilt (xy, xz, yz) *)
  f_masses : list (nat * Z * Z);                                 (* id, mass (1e-6), label comment *)
  f_pair : list (nat * Z); f_bondc : list (nat * Z); f_anglec : list (nat * Z); f_dihc : list (nat * Z); f_impc : list (nat * Z);
  f_atoms : list aline;
  f_bonds : list tline; f_angles : list tline; f_dihedrals : list tline; f_impropers : list tline
}.

Definition opt_count (n : nat) : option nat := if Nat.eqb n 0 then None else Some n.
Definition numbered {A} (l : list A) : list (nat * A) := combine (seq 1 (length l)) l.

Definition is_orthorhombic (c : mat) : bool :=
  let '((a, b, c0), (d, e, f), (g, h, i)) := c in (b =? 0) && (c0 =? 0) && (d =? 0) && (f =? 0) && (g =? 0) && (h =? 0).
(* the writer refuses a tilted cell that is not LAMMPS-oriented *)
Definition lammps_oriented (c : mat) : bool := let '((a, b, c0), (d, e, f), (g, h, i)) := c in (b =? 0) && (c0 =? 0) && (f =? 0).

Definition r6v (d : Z) (v : vec) : vec := let '(x, y, z) := v in (round6 d x, round6 d y, round6 d z).

Definition save_terms (k : kind) : list tline :=
  map (fun itt => mk_tline (fst itt) (S (fst (snd itt))) (map S (snd (snd itt)))) (numbered (combine (k_typ k) (k_tup k))).

Definition save (d : Z) (st : style) (a : atoms) : option lfile :=
  let box := match a_cell a with
             | None => Some None
             | Some c =>
               let '((ax, _, _), (bx, by_, _), (cx, cy, cz)) := c in
               if is_orthorhombic c then Some (Some (r6v d (ax, by_, cz), None))
               else if lammps_oriented c then Some (Some (r6v d (ax, by_, cz), Some (r6v d (bx, cx, cy))))
               else None
             end in
  match box with
  | None => None
  | Some b =>
    Some (mk_lfile
      (length (a_typ a), length (k_typ (bonds a)), length (k_typ (angles a)), length (k_typ (dihedrals a)), length (k_typ (impropers a)))
      [opt_count (num_atom_types a); opt_count (num_types (bonds a)); opt_count (num_types (angles a));
       opt_count (num_types (dihedrals a)); opt_count (num_types (impropers a))]
      b
      (map (fun iml => (fst iml, round6 d (fst (snd iml)), snd (snd iml))) (numbered (combine (t_mass a) (t_lab a))))
      (numbered (t_pair a)) (numbered (k_coef (bonds a))) (numbered (k_coef (angles a))) (numbered (k_coef (dihedrals a))) (numbered (k_coef (impropers a)))
      (map (fun ir => let '(i, (p, (t, (q, g)))) := ir in
                      mk_aline i (match st with Full => g + 1 | Atomic => 0 end) (S t) (match st with Full => round6 d q | Atomic => 0 end) (r6v d p))
           (numbered (combine (a_pos a) (combine (a_typ a) (combine (a_chg a) (a_grp a))))))
      (save_terms (bonds a)) (save_terms (angles a)) (save_terms (dihedrals a)) (save_terms (impropers a)))
  end.

Definition load_terms (ts : list tline) (coef : list (nat * Z)) : kind :=
  mk_kind (map (fun t => map Nat.pred (tl_atoms t)) ts) (map (fun t => Nat.pred (tl_typ t)) ts) (map (fun _ => []) ts) [] (map snd coef).

(* els: the elements the reader assigns (guessed from the masses, or type numbers -- property C14) *)
Definition load (st : style) (els : list Z) (f : lfile) : atoms :=
  let cell := match f_box f with
              | None => None
              | Some ((cx, cy, cz), tilt) =>
                if (0 <? cx) && (0 <? cy) && (0 <? cz) then
                  match tilt with
                  | Some (xy, xz, yz) => if (xy =? 0) && (xz =? 0) && (yz =? 0) then Some ((cx, 0, 0), (0, cy, 0), (0, 0, cz))
                                         else Some ((cx, 0, 0), (xy, cy, 0), (xz, yz, cz))
                  | None => Some ((cx, 0, 0), (0, cy, 0), (0, 0, cz))
                  end
                else None
              end in
  mk_atoms (map al_pos (f_atoms f)) (map (fun l => Nat.pred (al_typ l)) (f_atoms f))
           (map (fun l => match st with Full => al_chg l | Atomic => 0 end) (f_atoms f))
           (map (fun l => match st with Full => al_grp l - 1 | Atomic => 0 end) (f_atoms f))
           (map (fun _ => []) (f_atoms f)) []
           els (map (fun m => snd (fst m)) (f_masses f)) (map snd (f_masses f)) (map snd (f_pair f))
           (load_terms (f_bonds f) (f_bondc f)) (load_terms (f_angles f) (f_anglec f))
           (load_terms (f_dihedrals f) (f_dihc f)) (load_terms (f_impropers f) (f_impc f)) cell.

(* what a structure looks like after one trip through a file *)
Definition norm_kind (k : kind) : kind := mk_kind (k_tup k) (k_typ k) (map (fun _ => []) (k_typ k)) [] (k_coef k).
Definition normalise (d : Z) (st : style) (els : list Z) (a : atoms) : atoms :=
  mk_atoms (map (r6v d) (a_pos a)) (a_typ a)
           (map (fun q => match st with Full => round6 d q | Atomic => 0 end) (a_chg a))
           (map (fun g => match st with Full => g | Atomic => 0 end) (a_grp a))
           (map (fun _ => []) (a_pos a)) [] els (map (round6 d) (t_mass a)) (t_lab a) (t_pair a)
           (norm_kind (bonds a)) (norm_kind (angles a)) (norm_kind (dihedrals a)) (norm_kind (impropers a))
           (match a_cell a with
            | None => None
            | Some ((ax, _, _), (bx, by_, _), (cx, cy, cz)) => Some ((round6 d ax, 0, 0), (round6 d bx, round6 d by_, 0), (round6 d cx, round6 d cy, round6 d cz))
            end).
