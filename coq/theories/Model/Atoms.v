(* Model of mofun.atoms.Atoms: construction defaults, extend_types, _extend_extra_fields, extend,
   _delete_and_reindex_atom_index_array, __delitem__, pop, replicate, __getitem__, num_*_types.
   Executable definitions only.  Strings (labels, coefficient text, extra-field cells) are interned to Z by
   the harness ("." is 0); positions are integer grid vectors; charges and masses are scaled integers. *)
From Coq Require Import ZArith List Bool Arith.
From Mofun Require Import Lib.NP.
Import ListNotations.

Definition vec := (Z * Z * Z)%type.
Definition mat := (vec * vec * vec)%type.
Definition vadd (a b : vec) : vec := let '(a1, a2, a3) := a in let '(b1, b2, b3) := b in ((a1 + b1)%Z, (a2 + b2)%Z, (a3 + b3)%Z).
Definition vscale (k : Z) (a : vec) : vec := let '(a1, a2, a3) := a in ((k * a1)%Z, (k * a2)%Z, (k * a3)%Z).
Definition lattice (c : mat) (i j k : Z) : vec :=
  let '(c0, c1, c2) := c in vadd (vscale i c0) (vadd (vscale j c1) (vscale k c2)).

Definition DOT : Z := 0%Z.

Record kind := mk_kind {
  k_tup : list (list nat);      (* atom index tuples *)
  k_typ : list nat;             (* type id per term *)
  k_xf : list (list Z);         (* extra fields, one row per term *)
  k_xl : list Z;                (* extra field labels *)
  k_coef : list Z               (* coefficient text per type id *)
}.

Record atoms := mk_atoms {
  a_pos : list vec; a_typ : list nat; a_chg : list Z; a_grp : list Z;
  a_xf : list (list Z); a_xl : list Z;
  t_el : list Z; t_mass : list Z; t_lab : list Z; t_pair : list Z;
  bonds : kind; angles : kind; dihedrals : kind; impropers : kind;
  a_cell : option mat
}.

Definition natoms (a : atoms) : nat := length (a_pos a).
Definition empty_kind : kind := mk_kind [] [] [] [] [].

(* ---- small list operations that mirror Python/numpy *)
Definition memZ (x : Z) (l : list Z) : bool := existsb (Z.eqb x) l.
Fixpoint index_ofZ (x : Z) (l : list Z) : option nat :=          (* list.index *)
  match l with [] => None | y :: t => if Z.eqb x y then Some 0 else option_map S (index_ofZ x t) end.
Fixpoint uniq_first (l : list Z) : list Z :=                      (* order-preserving de-duplication (OrderedSet) *)
  match l with [] => [] | x :: t => x :: filter (fun y => negb (Z.eqb x y)) (uniq_first t) end.
Definition merge_labels (ls os : list Z) : list Z :=              (* OrderedSet |= *)
  ls ++ filter (fun l => negb (memZ l ls)) (uniq_first os).
Definition match_fields (labels olabels : list Z) (rows : list (list Z)) : list (list Z) :=
  map (fun r => map (fun l => match index_ofZ l olabels with Some j => nth j r DOT | None => DOT end) labels) rows.
Definition pad_fields (w : nat) (rows : list (list Z)) : list (list Z) :=
  map (fun r => r ++ repeat DOT (w - length r)) rows.
Definition max_list (l : list nat) : nat := fold_right Nat.max 0 l.
Definition np_take {A} (d : A) (l : list A) (idxs : list nat) : list A := map (fun i => nth i l d) idxs.
Fixpoint list_nat_eqb (a b : list nat) : bool :=
  match a, b with [], [] => true | x :: a', y :: b' => Nat.eqb x y && list_nat_eqb a' b' | _, _ => false end.

(* Atoms.extend.find_existing_topo: row indices of topo equal to some new row (with multiplicity), forwards then reversed *)
Definition hits (topo : list (list nat)) (f : list nat -> list nat) (new : list (list nat)) : list nat :=
  flat_map (fun it => map (fun _ => fst it) (filter (fun n => list_nat_eqb (snd it) (f n)) new))
           (combine (seq 0 (length topo)) topo).
Definition existing_topo (topo new : list (list nat)) : list nat :=
  match topo with [] => [] | _ => hits topo (fun n => n) new ++ hits topo (@rev nat) new end.

(* ---- type counts (after fix D7) *)
Definition num_types (k : kind) : nat :=
  match k_coef k with
  | [] => match k_typ k with [] => 0 | ts => S (max_list ts) end
  | cs => length cs
  end.
Definition num_atom_types (a : atoms) : nat := length (t_el a).

Record offsets := mk_offs { o_atom : nat; o_bond : nat; o_angle : nat; o_dih : nat; o_imp : nat }.
Definition zero_offsets := mk_offs 0 0 0 0 0.

Definition with_coef (k : kind) (c : list Z) : kind := mk_kind (k_tup k) (k_typ k) (k_xf k) (k_xl k) c.

Definition extend_types (a o : atoms) : atoms * offsets :=
  (mk_atoms (a_pos a) (a_typ a) (a_chg a) (a_grp a) (a_xf a) (a_xl a)
            (t_el a ++ t_el o) (t_mass a ++ t_mass o) (t_lab a ++ t_lab o) (t_pair a ++ t_pair o)
            (with_coef (bonds a) (k_coef (bonds a) ++ k_coef (bonds o)))
            (with_coef (angles a) (k_coef (angles a) ++ k_coef (angles o)))
            (with_coef (dihedrals a) (k_coef (dihedrals a) ++ k_coef (dihedrals o)))
            (with_coef (impropers a) (k_coef (impropers a) ++ k_coef (impropers o)))
            (a_cell a),
   mk_offs (num_atom_types a) (num_types (bonds a)) (num_types (angles a)) (num_types (dihedrals a)) (num_types (impropers a))).

(* ---- extend *)
Fixpoint assoc (k : nat) (m : list (nat * nat)) : option nat :=    (* dict lookup; later bindings of the same key win in Python,
                                                                      the harness only passes maps with distinct keys *)
  match m with [] => None | (k', v) :: t => if Nat.eqb k k' then Some v else assoc k t end.
Definition mem_key (k : nat) (m : list (nat * nat)) : bool := existsb (fun kv => Nat.eqb k (fst kv)) m.
Fixpoint rank (k : nat) (l : list nat) : nat :=                     (* position of k in l *)
  match l with [] => 0 | x :: t => if Nat.eqb k x then 0 else S (rank k t) end.

Fixpoint set_nth {A} (i : nat) (x : A) (l : list A) : list A :=
  match l, i with [], _ => [] | _ :: t, 0 => x :: t | y :: t, S i' => y :: set_nth i' x t end.

(* _extend_extra_fields for one family of (labels, rows): merged labels, self rows padded, other rows matched *)
Definition merge_xf (xl : list Z) (xf : list (list Z)) (oxl : list Z) (oxf : list (list Z)) :
  list Z * list (list Z) * list (list Z) :=
  let nl := merge_labels xl oxl in (nl, pad_fields (length nl) xf, match_fields nl oxl oxf).

Definition extend_kind (off : nat) (phi : nat -> nat) (k ko : kind) : kind :=
  let '(nl, xf_s, xf_o) := merge_xf (k_xl k) (k_xf k) (k_xl ko) (k_xf ko) in
  match k_tup ko with
  | [] => mk_kind (k_tup k) (k_typ k) xf_s nl (k_coef k)
  | _ =>
    let new := map (map phi) (k_tup ko) in
    let dead := existing_topo (k_tup k) new in
    mk_kind (np_delete (k_tup k ++ new) dead)
            (np_delete (k_typ k ++ map (Nat.add off) (k_typ ko)) dead)
            (np_delete (xf_s ++ xf_o) dead) nl (k_coef k)
  end.

Definition extend_with (a o : atoms) (offs : offsets) (m : list (nat * nat)) : atoms :=
  let n := natoms a in
  let '(nl, xf_s, xf_o) := merge_xf (a_xl a) (a_xf a) (a_xl o) (a_xf o) in
  let overwrite := negb (Nat.eqb (length nl) 0) && negb (Nat.eqb n 0) in        (* extra_atom_fields.size > 0 *)
  let typ1 := fold_left (fun t kv => set_nth (snd kv) (nth (fst kv) (a_typ o) 0 + o_atom offs) t) m (a_typ a) in
  let xf1 := if overwrite then fold_left (fun x kv => set_nth (snd kv) (nth (fst kv) xf_o []) x) m xf_s else xf_s in
  let to_add := filter (fun i => negb (mem_key i m)) (seq 0 (natoms o)) in
  let phi k := match assoc k m with Some i => i | None => n + rank k to_add end in
  mk_atoms (a_pos a ++ np_take (0, 0, 0)%Z (a_pos o) to_add)
           (typ1 ++ map (fun i => nth i (a_typ o) 0 + o_atom offs) to_add)
           (a_chg a ++ np_take 0%Z (a_chg o) to_add)
           (a_grp a ++ np_take 0%Z (a_grp o) to_add)
           (xf1 ++ np_take [] xf_o to_add) nl
           (t_el a) (t_mass a) (t_lab a) (t_pair a)
           (extend_kind (o_bond offs) phi (bonds a) (bonds o))
           (extend_kind (o_angle offs) phi (angles a) (angles o))
           (extend_kind (o_dih offs) phi (dihedrals a) (dihedrals o))
           (extend_kind (o_imp offs) phi (impropers a) (impropers o))
           (a_cell a).

Definition extend (a o : atoms) (offs : option offsets) (m : list (nat * nat)) : atoms :=
  match offs with
  | Some f => extend_with a o f m
  | None => let '(a', f) := extend_types a o in extend_with a' o f m
  end.

(* ---- __delitem__ *)
Definition touches (ds : list nat) (t : list nat) : bool := existsb (fun v => memb v ds) t.
Definition dec1 (d v : nat) := if d <? v then v - 1 else v.
Definition dec_above (d : nat) (tups : list (list nat)) := map (map (dec1 d)) tups.
Fixpoint ins_desc (x : nat) (l : list nat) :=
  match l with [] => [x] | y :: t => if y <=? x then x :: l else y :: ins_desc x t end.
Definition sort_desc (l : list nat) := fold_right ins_desc [] l.              (* sorted(indices, reverse=True) *)
Definition reindex (ds : list nat) (tups : list (list nat)) :=
  fold_left (fun acc d => dec_above d acc) (sort_desc ds) tups.
Definition delete_and_reindex (ds : list nat) (tups : list (list nat)) : list (list nat) * list nat :=
  let dead := find_idx (touches ds) tups in (reindex ds (np_delete tups dead), dead).

Definition delitem_kind (ds : list nat) (k : kind) : kind :=
  match k_tup k with
  | [] => k
  | _ => let '(tups, dead) := delete_and_reindex ds (k_tup k) in
         mk_kind tups (np_delete (k_typ k) dead) (np_delete (k_xf k) dead) (k_xl k) (k_coef k)
  end.
Definition delitem (a : atoms) (ds : list nat) : atoms :=
  mk_atoms (np_delete (a_pos a) ds) (np_delete (a_typ a) ds) (np_delete (a_chg a) ds) (np_delete (a_grp a) ds)
           (np_delete (a_xf a) ds) (a_xl a) (t_el a) (t_mass a) (t_lab a) (t_pair a)
           (delitem_kind ds (bonds a)) (delitem_kind ds (angles a)) (delitem_kind ds (dihedrals a)) (delitem_kind ds (impropers a))
           (a_cell a).
(* pop (after fix D2): negative positions count from the end *)
Definition pop (a : atoms) (pos : Z) : atoms :=
  let p := if (pos <? 0)%Z then (pos + Z.of_nat (natoms a))%Z else pos in delitem a [Z.to_nat p].

(* ---- replicate (after fixes D3, D4) *)
Definition nonzero3 (t : nat * nat * nat) : bool := let '(i, j, k) := t in negb (Nat.eqb i 0 && Nat.eqb j 0 && Nat.eqb k 0).
(* np.array(np.meshgrid(range(ra), range(rb), range(rc))).T.reshape(-1, 3): k outermost, then i, then j *)
Definition ucmults (r : nat * nat * nat) : list (nat * nat * nat) :=
  let '(ra, rb, rc) := r in
  filter nonzero3 (flat_map (fun k => flat_map (fun i => map (fun j => (i, j, k)) (seq 0 rb)) (seq 0 ra)) (seq 0 rc)).
Definition translate (a : atoms) (d : vec) : atoms :=
  mk_atoms (map (fun p => vadd p d) (a_pos a)) (a_typ a) (a_chg a) (a_grp a) (a_xf a) (a_xl a)
           (t_el a) (t_mass a) (t_lab a) (t_pair a) (bonds a) (angles a) (dihedrals a) (impropers a) (a_cell a).
Definition set_cell (a : atoms) (c : option mat) : atoms :=
  mk_atoms (a_pos a) (a_typ a) (a_chg a) (a_grp a) (a_xf a) (a_xl a)
           (t_el a) (t_mass a) (t_lab a) (t_pair a) (bonds a) (angles a) (dihedrals a) (impropers a) c.
Definition scale_rows (c : mat) (r : nat * nat * nat) : mat :=
  let '(c0, c1, c2) := c in let '(ra, rb, rc) := r in
  (vscale (Z.of_nat ra) c0, vscale (Z.of_nat rb) c1, vscale (Z.of_nat rc) c2).
Definition replicate (a : atoms) (r : nat * nat * nat) : option atoms :=
  match a_cell a with
  | None => None
  | Some c =>
    let body := fold_left (fun acc m => let '(i, j, k) := m in
                  extend acc (translate a (lattice c (Z.of_nat i) (Z.of_nat j) (Z.of_nat k))) (Some zero_offsets) [])
                (ucmults r) a in
    Some (set_cell body (Some (scale_rows c r)))
  end.

(* ---- __getitem__ (after fixes D8, D15): type tables kept, no terms, no extra fields *)
Definition getitem (a : atoms) (idxs : list nat) : atoms :=
  mk_atoms (np_take (0, 0, 0)%Z (a_pos a) idxs) (np_take 0 (a_typ a) idxs) (np_take 0%Z (a_chg a) idxs)
           (np_take 0%Z (a_grp a) idxs) (map (fun _ => []) idxs) []
           (t_el a) (t_mass a) (t_lab a) (t_pair a)
           empty_kind empty_kind empty_kind empty_kind (a_cell a).

(* ---- resolution of type ids ("meaning") *)
Definition coef_of (k : kind) (j : nat) : Z := nth (nth j (k_typ k) 0) (k_coef k) DOT.
Definition label_of (a : atoms) (i : nat) : Z := nth (nth i (a_typ a) 0) (t_lab a) DOT.
Definition element_of (a : atoms) (i : nat) : Z := nth (nth i (a_typ a) 0) (t_el a) DOT.
Definition mass_of (a : atoms) (i : nat) : Z := nth (nth i (a_typ a) 0) (t_mass a) DOT.
Definition pair_of (a : atoms) (i : nat) : Z := nth (nth i (a_typ a) 0) (t_pair a) DOT.
