(* Model of mofun.rough_uff: guess_bond_order, bond_params, angle_params, dihedral_params, pair_coeffs -- the published UFF functional
   forms (Rappe et al. 1992, eqs. 2-4, 13, 16-17) with the code's bond-order guesses and special cases.
   Magnitudes are real numbers (Coq Reals); the case analysis (potential style, n, b, d, undefined / unsupported) is computable and works
   on the type strings and on the integer table (entries x 10^6, regenerated from /repo/mofun/uff4mof.py on every run). *)
From Coq Require Import Reals ZArith List String Ascii Bool.
Import ListNotations.
Open Scope R_scope.

(* ------------------------------------------------------------------ magnitudes, as functions of the table numbers *)
Definition rBO (ri rj bo : R) : R := -0.1332 * (ri + rj) * ln bo.
Definition rEN (ri rj xi xj : R) : R := (ri * rj * (sqrt xi - sqrt xj) ^ 2) / (xi * ri + xj * rj).
Definition bond_r (ri rj xi xj bo : R) : R := ri + rj + rBO ri rj bo - rEN ri rj xi xj.
Definition bond_k (zi zj rij : R) : R := 664.12 * zi * zj / (rij ^ 3) / 2.             (* the code returns kij / 2 *)

Definition rad (deg : R) : R := deg * 2 * PI / 360.
Definition r_ik (rij rjk th : R) : R := sqrt (rij ^ 2 + rjk ^ 2 - 2 * rij * rjk * cos th).
Definition angle_k (zi zk rij rjk th : R) : R :=
  664.12 * (zi * zk / (r_ik rij rjk th) ^ 5) * (3 * rij * rjk * (1 - cos th ^ 2) - (r_ik rij rjk th) ^ 2 * cos th).
Definition four_c2 (th : R) : R := 1 / (4 * sin th ^ 2).
Definition four_c1 (th : R) : R := -4 * four_c2 th * cos th.
Definition four_c0 (th : R) : R := four_c2 th * (2 * cos th ^ 2 + 1).

Definition tors_sp3 (v1 v2 m : R) : R := sqrt (v1 * v2) / m / 2.                         (* eq 16: V/2 *)
Definition tors_sp2 (u2 u3 bo m : R) : R := 5 * sqrt (u2 * u3) * (1 + 4.18 * ln bo) / m / 2.   (* eq 17: V/2 *)
Definition tors_const (v m : R) : R := v / m / 2.

Definition lj_sigma (x1 : R) : R := x1 * Rpower 2 (- (1 / 6)).

(* ------------------------------------------------------------------ the table *)
Section WithTable.
Variable T : list (string * list Z).            (* r1, theta0, x1, D1, zeta, Z1, Vi, Uj, Xi, Hard, Radius -- each x 10^6 *)

Fixpoint lookup (a : string) (t : list (string * list Z)) : option (list Z) :=
  match t with [] => None | (k, v) :: r => if String.eqb a k then Some v else lookup a r end.
Definition getZ (a : string) (k : nat) : Z := match lookup a T with Some v => nth k v 0%Z | None => 0%Z end.
Definition getR (a : string) (k : nat) : R := IZR (getZ a k) / 1000000.

(* ------------------------------------------------------------------ bond order *)
Inductive border := BO1 | BO15 | BO2 | BOuser (num den : Z).
Definition bo_R (b : border) : R :=
  match b with BO1 => 1 | BO15 => 3 / 2 | BO2 => 2 | BOuser n d => IZR n / IZR d end.

Definition mem (a : string) (l : list string) : bool := existsb (String.eqb a) l.
Definition single_bonded : list string := ["H_"; "F_"; "Cl"; "Br"; "I_"; "C_3"; "N_3"; "O_3"]%string.
(* a user rule: the set {s1, s2} of atom types -> a bond order *)
Definition rule := (string * string * border)%type.
Definition rule_matches (a1 a2 : string) (r : rule) : bool :=
  let '(s1, s2, _) := r in
  (String.eqb a1 s1 || String.eqb a1 s2) && (String.eqb a2 s1 || String.eqb a2 s2) &&
  (String.eqb s1 a1 || String.eqb s1 a2) && (String.eqb s2 a1 || String.eqb s2 a2).
Fixpoint first_rule (a1 a2 : string) (rs : list rule) : option border :=
  match rs with [] => None | r :: t => if rule_matches a1 a2 r then Some (snd r) else first_rule a1 a2 t end.
Definition guess_bond_order (a1 a2 : string) (rules : list rule) : border :=
  match first_rule a1 a2 rules with
  | Some b => b
  | None =>
    if mem a1 single_bonded || mem a2 single_bonded then BO1
    else if String.eqb a1 a2 && mem a1 ["C_2"; "N_2"; "O_2"]%string then BO2
    else if String.eqb a1 a2 && mem a1 ["C_R"; "N_R"; "O_R"]%string then BO15
    else BO1
  end.

(* ------------------------------------------------------------------ bonds *)
Definition bond_length (a1 a2 : string) (bo : R) : R := bond_r (getR a1 0) (getR a2 0) (getR a1 8) (getR a2 8) bo.
Definition bond_force (a1 a2 : string) (bo : R) : R := bond_k (getR a1 5) (getR a2 5) (bond_length a1 a2 bo).

(* ------------------------------------------------------------------ angles *)
Inductive astyle := CosPeriodic (b : Z) (n : Z) | Fourier | AngleUnsupported.
Definition third_char (a : string) : option ascii := String.get 2 a.
Definition is_char (c : option ascii) (x : ascii) : bool := match c with Some y => Ascii.eqb y x | None => false end.
Definition angle_style (a2 : string) : astyle :=
  let th := getZ a2 1 in
  if (th =? 180000000)%Z then CosPeriodic 1 1
  else if (th =? 120000000)%Z then CosPeriodic (-1) 3
  else if (th =? 90000000)%Z then (if is_char (third_char a2) "3"%char then CosPeriodic (-1) 2 else CosPeriodic 1 4)
  else Fourier.
Definition angle_theta (a2 : string) : R := rad (getR a2 1).
Definition angle_force (a1 a2 a3 : string) (bo12 bo23 : R) : R :=
  angle_k (getR a1 5) (getR a3 5) (bond_length a1 a2 bo12) (bond_length a2 a3 bo23) (angle_theta a2).

(* ------------------------------------------------------------------ torsions *)
Definition elem (a : string) : string :=          (* s[0:2].strip('_') *)
  match a with
  | String c1 (String c2 _) => if Ascii.eqb c1 "_"%char then (if Ascii.eqb c2 "_"%char then EmptyString else String c2 EmptyString)
                               else if Ascii.eqb c2 "_"%char then String c1 EmptyString else String c1 (String c2 EmptyString)
  | String c1 EmptyString => if Ascii.eqb c1 "_"%char then EmptyString else String c1 EmptyString
  | EmptyString => EmptyString
  end.
Definition oxygen_group : list string := ["O"; "S"; "Se"; "Te"; "Po"]%string.
Variable main_group : list string.

Inductive tors := TorsHarmonic (kind : nat) (d : Z) (n : Z) | TorsNone | TorsUnsupported.
(* kind: which magnitude formula -- 0: sp3-sp3 (Vi), 1: sp3-sp3 both oxygen column (2 / 6.8), 2: sp2-sp2 (eq 17), 3: sp2 next to sp2 (2),
   4: sp3 oxygen column - sp2 (eq 17), 5: default sp2-sp3 (1) *)
Definition h_is (a : string) (x : ascii) : bool := is_char (third_char a) x.
Definition h_in23R (a : string) (allow3 : bool) : bool := h_is a "2"%char || h_is a "R"%char || (allow3 && h_is a "3"%char).
Definition tors_case (a1 a2 a3 a4 : string) : tors :=
  let e2 := elem a2 in let e3 := elem a3 in
  if h_is a2 "3"%char && h_is a3 "3"%char then
    (if mem e2 oxygen_group && mem e3 oxygen_group then TorsHarmonic 1 1 2 else TorsHarmonic 0 1 3)
  else if h_in23R a2 false && h_in23R a3 false then TorsHarmonic 2 (-1) 2
  else if h_in23R a2 true && h_in23R a3 true then
    (if (h_is a1 "2"%char && h_is a2 "2"%char) || (h_is a3 "2"%char && h_is a4 "2"%char) then TorsHarmonic 3 1 3
     else if (h_is a2 "3"%char && mem e2 oxygen_group && negb (mem e3 oxygen_group)) ||
             (h_is a3 "3"%char && mem e3 oxygen_group && negb (mem e2 oxygen_group)) then TorsHarmonic 4 1 2
     else TorsHarmonic 5 (-1) 6)
  else if h_is a2 "1"%char || h_is a3 "1"%char then TorsNone
  else if negb (mem e2 main_group && mem e3 main_group) then TorsNone
  else TorsUnsupported.
Definition oxy_v (e : string) : R := if String.eqb e "O" then 2 else 6.8.
Definition tors_force (a1 a2 a3 a4 : string) (bo m : R) : R :=
  match tors_case a1 a2 a3 a4 with
  | TorsHarmonic 0 _ _ => tors_sp3 (getR a2 6) (getR a3 6) m
  | TorsHarmonic 1 _ _ => tors_sp3 (oxy_v (elem a2)) (oxy_v (elem a3)) m
  | TorsHarmonic 2 _ _ => tors_sp2 (getR a2 7) (getR a3 7) bo m
  | TorsHarmonic 3 _ _ => tors_const 2 m
  | TorsHarmonic 4 _ _ => tors_sp2 (getR a2 7) (getR a3 7) bo m
  | TorsHarmonic _ _ _ => tors_const 1 m
  | _ => 0
  end.

Definition pair_sigma (a : string) : R := lj_sigma (getR a 2).
Definition pair_epsilon (a : string) : R := getR a 3.
End WithTable.
