(* Model of mofun.cli.mofun_cli: which API operations are performed, in which order, with which option values.
   Paths, element names and numbers are opaque tokens (Z).  Executable definitions only. *)
From Coq Require Import ZArith List Bool.
Import ListNotations.

Record options := mk_options {
  o_in : Z; o_out : Z;
  o_find : option Z; o_replace : option Z;
  o_frac : Z; o_atol : Z;                                   (* values are tokens: the harness keeps the table token -> number *)
  o_ap1 : option Z; o_ap2 : option Z; o_op : option Z;
  o_dump : option Z; o_uc : option Z; o_charges : option Z;
  o_replicate : option (Z * Z * Z); o_mic : option Z;
  o_framework : option Z; o_pp : bool
}.

Inductive call :=
| Load (p : Z)                                  (* Atoms.load / ASE reader *)
| SetCell (p : Z)                               (* atoms.cell = Atoms.load(p).cell *)
| SetPositions (p : Z)                          (* positions from a LAMMPS dump *)
| SetCharges (f : Z)
| Replicate (r : Z * Z * Z)                     (* atoms.replicate(r) *)
| Mic (c : Z)                                   (* replicate by ceil(2 c / cell length) per axis if the cell is orthorhombic *)
| AssignPP                                      (* UFF pair coefficients and labels from the elements *)
| Find (pat : Z) (atol : Z)                     (* find_pattern_in_structure(atoms, pat, atol=atol); print count and matches *)
| Replace (pat rep : Z) (atol : Z) (ap1 ap2 op : option Z) (frac : Z)
| MsgNoFind                                     (* "Cannot perform a replace operation without a find operation" *)
| FrameworkElement (e : Z)
| Save (p : Z).

Definition opt {A} (f : A -> call) (o : option A) : list call := match o with Some x => [f x] | None => [] end.

Definition plan (o : options) : list call :=
  [Load (o_in o)] ++ opt SetCell (o_uc o) ++ opt SetPositions (o_dump o) ++ opt SetCharges (o_charges o) ++
  opt Replicate (o_replicate o) ++ opt Mic (o_mic o) ++ (if o_pp o then [AssignPP] else []) ++
  (match o_find o, o_replace o with
   | Some f, Some r => [Replace f r (o_atol o) (o_ap1 o) (o_ap2 o) (o_op o) (o_frac o)]
   | Some f, None => [Find f (o_atol o)]
   | None, Some _ => [MsgNoFind]
   | None, None => []
   end) ++
  opt FrameworkElement (o_framework o) ++ [Save (o_out o)].

(* does a call change the structure that will be written? *)
Definition modifies (c : call) : bool :=
  match c with Load _ | Find _ _ | MsgNoFind | Save _ => false | _ => true end.
