(* Model of Atoms.load_cml at the level of the parsed document: a list of atom entries (id, element, coordinates) and a list of
   bond entries (two atom references).  Ids / elements are interned strings; coordinates are scaled integers.  ElementTree (XML
   parsing) and float() are outside the model.  Executable definitions only. *)
From Coq Require Import ZArith List Bool Arith.
From Mofun Require Import Model.Atoms.
Import ListNotations.

(* {id: i for i, id in enumerate(ids)}[r]: the LAST atom carrying this id *)
Fixpoint lookup_from (r : Z) (i : nat) (ids : list Z) (found : option nat) : option nat :=
  match ids with [] => found | x :: t => lookup_from r (S i) t (if Z.eqb x r then Some i else found) end.
Definition id_to_idx (ids : list Z) (r : Z) : option nat := lookup_from r 0 ids None.

Record cml := mk_cml { cml_atoms : list (Z * Z * vec); cml_bonds : list (Z * Z) }.
Record loaded := mk_loaded { l_elements : list Z; l_positions : list vec; l_bonds : list (nat * nat) }.

Fixpoint resolve (ids : list Z) (bs : list (Z * Z)) : option (list (nat * nat)) :=
  match bs with
  | [] => Some []
  | (r1, r2) :: t =>
    match id_to_idx ids r1, id_to_idx ids r2, resolve ids t with
    | Some i, Some j, Some rest => Some ((i, j) :: rest)
    | _, _, _ => None          (* KeyError: a reference to an atom id that does not exist *)
    end
  end.

Definition load (d : cml) : option loaded :=
  let ids := map (fun a => fst (fst a)) (cml_atoms d) in
  match resolve ids (cml_bonds d) with
  | Some bs => Some (mk_loaded (map (fun a => snd (fst a)) (cml_atoms d)) (map snd (cml_atoms d)) bs)
  | None => None
  end.
