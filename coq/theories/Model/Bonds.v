(* Model of mofun.detect_bonds (max_bond_length, detect_bonds).  Executable definitions only.
   Positions are integer grid vectors (U grid units per Angstrom), radii are in 1/100 Angstrom (table scale). *)
From Coq Require Import ZArith List Bool String.
From Mofun Require Import Model.Atoms Model.Geom.
Import ListNotations.
Open Scope Z_scope.

Section WithTables.
Variable radii : list (string * Z).      (* COVALENT_RADII, times 100 *)
Variable non_metals : list string.        (* NON_METALS *)
Variable U : Z.                           (* grid units per Angstrom *)

Fixpoint lookup (e : string) (t : list (string * Z)) : option Z :=
  match t with [] => None | (k, v) :: r => if String.eqb e k then Some v else lookup e r end.
Definition is_nonmetal (e : string) : bool := existsb (String.eqb e) non_metals.

(* max_bond_length, times 100; None when an element has no radius (the implementation raises KeyError) *)
Definition cutoff100 (e1 e2 : string) : option Z :=
  match lookup e1 radii, lookup e2 radii with
  | Some r1, Some r2 => Some (r1 + r2 + (if is_nonmetal e1 || is_nonmetal e2 then 45 else 0))
  | _, _ => None
  end.

(* distance below the cutoff, squared and cross-multiplied:  d^2 / U^2 < (c/100)^2 *)
Definition within (d2v c100 : Z) : bool := d2v * 10000 <? c100 * c100 * U * U.

Definition offsets (cell : option mat) : list vec := match cell with Some c => offsets27 c | None => [(0, 0, 0)] end.

Definition bonded (cell : option mat) (a b : string * vec) : option bool :=
  match cutoff100 (fst a) (fst b) with
  | None => None
  | Some c => Some (existsb (fun o => within (d2 (vadd (snd a) o) (snd b)) c) (offsets cell))
  end.

(* pairs i<j in lexicographic order; None if some needed radius is missing *)
Fixpoint pairs_from (cell : option mat) (i : nat) (a : string * vec) (j : nat) (rest : list (string * vec)) : option (list (nat * nat)) :=
  match rest with
  | [] => Some []
  | b :: rest' =>
    match bonded cell a b, pairs_from cell i a (S j) rest' with
    | Some hit, Some tl => Some (if hit then (i, j) :: tl else tl)
    | _, _ => None
    end
  end.
Fixpoint detect_from (cell : option mat) (i : nat) (atoms : list (string * vec)) : option (list (nat * nat)) :=
  match atoms with
  | [] => Some []
  | a :: rest =>
    match pairs_from cell i a (S i) rest, detect_from cell (S i) rest with
    | Some l1, Some l2 => Some (l1 ++ l2)
    | _, _ => None
    end
  end.
Definition detect (cell : option mat) (atoms : list (string * vec)) : option (list (nat * nat)) := detect_from cell 0 atoms.
End WithTables.
