(* Model of mofun.replace_pattern_in_structure (and atoms.find_unchanged_atom_pairs).
   The match list handed over by the search, the sub-selection made by random.sample and the placed coordinates of the inserted
   atoms are PARAMETERS: the index/type/term bookkeeping is what is modelled here; the placement itself is specified separately
   (place / C05).  Executable definitions only. *)
From Coq Require Import ZArith List Bool Arith.
From Mofun Require Import Lib.NP Model.Atoms Model.Geom.
Import ListNotations.
Close Scope Z_scope.

Definition vec_eqb (a b : vec) : bool := let '(a1, a2, a3) := a in let '(b1, b2, b3) := b in ((a1 =? b1) && (a2 =? b2) && (a3 =? b3))%Z.

(* find_unchanged_atom_pairs(replace_pattern, search_pattern): for each replacement atom the FIRST search atom with the same
   coordinates (on the grid: identical) and the same element *)
Fixpoint first_same (e : Z) (p : vec) (j : nat) (els : list Z) (ps : list vec) : option nat :=
  match els, ps with
  | e' :: els', p' :: ps' => if vec_eqb p p' && (e =? e')%Z then Some j else first_same e p (S j) els' ps'
  | _, _ => None
  end.
Definition elements_of (a : atoms) : list Z := map (fun t => nth t (t_el a) DOT) (a_typ a).
Definition unchanged (repl search : atoms) : list (nat * nat) :=
  flat_map (fun iep => match first_same (fst (snd iep)) (snd (snd iep)) 0 (elements_of search) (a_pos search) with
                       | Some j => [(fst iep, j)] | None => [] end)
           (combine (seq 0 (natoms repl)) (combine (elements_of repl) (a_pos repl))).

Definition memn (x : nat) (l : list nat) : bool := existsb (Nat.eqb x) l.
Definition disjointb (a b : list nat) : bool := forallb (fun x => negb (memn x b)) a.
Definition union (a b : list nat) : list nat := a ++ filter (fun x => negb (memn x a)) (nodup Nat.eq_dec b).

Inductive outcome := Ok (a : atoms) (k : nat) | Overlap.

Definition with_pos (a : atoms) (ps : list vec) : atoms :=
  mk_atoms ps (a_typ a) (a_chg a) (a_grp a) (a_xf a) (a_xl a) (t_el a) (t_mass a) (t_lab a) (t_pair a)
           (bonds a) (angles a) (dihedrals a) (impropers a) (a_cell a).

(* one selected match: the structure indices of the matched atoms, and the coordinates at which the implementation placed the
   replacement pattern's atoms for this match *)
Record smatch := mk_smatch { m_idx : list nat; m_placed : list vec }.

Definition index_map (replace_all : bool) (repl search : atoms) (m : smatch) : list (nat * nat) :=
  if replace_all then [] else map (fun kv => (fst kv, nth (snd kv) (m_idx m) 0)) (unchanged repl search).
Definition dels (replace_all : bool) (repl search : atoms) (m : smatch) : list nat :=
  nodup Nat.eq_dec (filter (fun i => negb (memn i (map snd (index_map replace_all repl search m)))) (m_idx m)).

Fixpoint rstep (replace_all ignore : bool) (repl search : atoms) (offs : offsets) (sel : list smatch) (acc : atoms) (del : list nat)
  : option (atoms * list nat) :=
  match sel with
  | [] => Some (acc, del)
  | m :: rest =>
    let mp := index_map replace_all repl search m in
    let acc' := extend acc (with_pos repl (m_placed m)) (Some offs) mp in
    let d := dels replace_all repl search m in
    if disjointb del d || ignore then rstep replace_all ignore repl search offs rest acc' (union del d) else None
  end.

Definition replace_from (S search repl : atoms) (replace_all ignore : bool) (sel : list smatch) : outcome :=
  match natoms repl with
  | 0 => Ok (delitem S (fold_left (fun acc m => union acc (m_idx m)) sel [])) (length sel)
  | _ =>
    let '(S1, offs) := extend_types S repl in
    match rstep replace_all ignore repl search offs sel S1 [] with
    | Some (a, del) => Ok (delitem a del) (length sel)
    | None => Overlap
    end
  end.

(* exact placement of a replacement-pattern coordinate r (already relative to the search pattern's first atom) for a match with
   quaternion q and first matched position x0: (M(q) r + N x0) / N with N = |q|^2, before wrapping into the cell *)
Definition place (q : quat) (x0 r : vec) : vec * Z := (vadd (rotapply q r) (vscale (qn2 q) x0), qn2 q).
