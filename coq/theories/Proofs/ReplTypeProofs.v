(* Replacement keeps structures consistent and typed (C09 "replacing", C04, C06): the result of replace_pattern_in_structure's model on
   consistent, typed, mutually compatible inputs and well-formed selected matches is consistent and typed. *)
From Coq Require Import List Arith Bool Lia ZArith.
From Mofun Require Import Lib.NP Model.Atoms Model.Geom Model.Replace Proofs.DelProofs Proofs.ExtProofs Proofs.ReplProofs Proofs.WFProofs
  Proofs.TypeProofs Proofs.ReplaceProofs.
Import ListNotations.

(* the default-offset case of Typed_extend, split in two: the tables after extend_types and what other's ids resolve to *)
Lemma Typed_extend_types a o : Typed a -> Typed o -> compat a o ->
  Typed (fst (extend_types a o)) /\ resolves_in (fst (extend_types a o)) o (snd (extend_types a o)).
Proof.
  intros Ha Ho Hc. unfold extend_types. cbn [fst snd].
  destruct Ha as [[T1 [T2 T3]] [A [B [C [D F]]]]]. destruct Ho as [[U1 [U2 U3]] [A' _]]. destruct Hc as [Hp [Kb [Ka [Kd Ki]]]].
  destruct (with_coef_typed _ _ Kb) as [Wb Rb]. destruct (with_coef_typed _ _ Ka) as [Wa Ra].
  destruct (with_coef_typed _ _ Kd) as [Wd Rd]. destruct (with_coef_typed _ _ Ki) as [Wi Ri]. split.
  - unfold Typed, tables_ok. cbn [t_mass t_el t_lab t_pair a_typ bonds angles dihedrals impropers]. rewrite !app_length.
    split; [split; [lia|split; [lia|]]|].
    + destruct Hp as [[P1 P2]|[P1 P2]]; [left; rewrite P1, P2; reflexivity|right; lia].
    + split; [eapply Forall_impl; [|exact A]; cbn; intros t Ht; lia|]. repeat split; assumption.
  - unfold resolves_in. cbn [t_el bonds angles dihedrals impropers o_atom o_bond o_angle o_dih o_imp]. unfold num_atom_types.
    split; [rewrite app_length; eapply Forall_impl; [|exact A']; cbn; intros t Ht; lia|]. repeat split; assumption.
Qed.

(* a selected match names existing atoms, one per search-pattern atom, and carries one placed coordinate per replacement atom *)
Definition match_ok (S search repl : atoms) (m : smatch) : Prop :=
  length (m_idx m) = natoms search /\ Forall (fun i => i < natoms S) (m_idx m) /\ length (m_placed m) = natoms repl.

Lemma first_same_lt e p : forall els ps j r, first_same e p j els ps = Some r -> j <= r < j + length ps.
Proof.
  induction els as [|e' els IH]; intros [|p' ps] j r H; cbn in H; try discriminate.
  destruct (Replace.vec_eqb p p' && (e =? e')%Z); [injection H as <-; cbn; lia|]. apply IH in H. cbn. lia.
Qed.
Lemma unchanged_range repl search kv : In kv (unchanged repl search) -> fst kv < natoms repl /\ snd kv < natoms search.
Proof.
  unfold unchanged. intros H. apply in_flat_map in H. destruct H as [[i [e p]] [Hin H]]. cbn [fst snd] in H.
  destruct (first_same e p 0 (elements_of search) (a_pos search)) as [j|] eqn:E; [|destruct H]. destruct H as [<-|[]]. cbn [fst snd].
  apply first_same_lt in E. split; [|unfold natoms; lia].
  apply in_combine_l in Hin. apply in_seq in Hin. lia.
Qed.

Lemma index_map_ok ra S search repl m acc : match_ok S search repl m -> natoms S <= natoms acc ->
  map_ok acc (index_map ra repl search m) /\ map_dom (with_pos repl (m_placed m)) (index_map ra repl search m).
Proof.
  intros [L [F P]] Hle. unfold index_map. destruct ra; [split; intros ? ? []|]. split.
  - intros k i Hin. apply in_map_iff in Hin. destruct Hin as [kv [E Hkv]]. injection E as <- <-. apply unchanged_range in Hkv. destruct Hkv as [_ Hs].
    rewrite Forall_forall in F. assert (nth (snd kv) (m_idx m) 0 < natoms S) by (apply F, nth_In; lia). lia.
  - intros k i Hin. apply in_map_iff in Hin. destruct Hin as [kv [E Hkv]]. injection E as <- <-. apply unchanged_range in Hkv. destruct Hkv as [Hr _].
    unfold natoms, with_pos. cbn [a_pos]. unfold natoms in P, Hr. lia.
Qed.

Lemma WF_with_pos a ps : WF a -> length ps = natoms a -> WF (with_pos a ps).
Proof.
  intros [[S1 [S2 [S3 S4]]] K] L. unfold WF, atoms_sized, natoms, with_pos in *. cbn [a_pos a_typ a_chg a_grp a_xf bonds angles dihedrals impropers].
  rewrite L. split; [repeat split; assumption|exact K].
Qed.
Lemma Typed_with_pos a ps : Typed a -> Typed (with_pos a ps).
Proof. intros H. exact H. Qed.

Lemma same_tables_refl a : same_tables a a.
Proof. repeat split. Qed.
Lemma resolves_in_same a acc o f : same_tables a acc -> resolves_in a o f -> resolves_in acc o f.
Proof.
  intros [Q1 [Q2 [Q3 [Q4 Q5]]]] [R1 [R2 [R3 [R4 R5]]]]. unfold resolves_in, kind_resolves in *. rewrite Q1, Q2, Q3, Q4, Q5. repeat split; assumption.
Qed.

Lemma rstep_inv ra ig repl search offs S S1 : WF repl -> Typed repl -> resolves_in S1 repl offs -> forall sel acc del a del',
  Forall (match_ok S search repl) sel -> WF acc -> Typed acc -> same_tables S1 acc -> natoms S <= natoms acc -> NoDup del ->
  rstep ra ig repl search offs sel acc del = Some (a, del') -> WF a /\ Typed a /\ NoDup del'.
Proof.
  intros Wr Tr Rs. induction sel as [|m sel IH]; intros acc del a del' Hm Wa Ta Sa Hle Hnd H; cbn [rstep] in H.
  - injection H as <- <-. auto.
  - inversion Hm as [|? ? Hm1 Hms]; subst. destruct (disjointb del (dels ra repl search m) || ig); [|discriminate].
    destruct (index_map_ok ra S search repl m acc Hm1 Hle) as [Mo Md]. destruct Hm1 as [_ [_ Lp]].
    set (o := with_pos repl (m_placed m)) in *. assert (Wo : WF o) by (apply WF_with_pos; assumption).
    apply (IH _ _ _ _ Hms) in H; [exact H| | | | |].
    + apply WF_extend; assumption.
    + apply (Typed_extend acc o (Some offs)); [exact Ta|apply Typed_with_pos; exact Tr|destruct Wo as [So _]; exact So|exact Md|].
      apply (resolves_in_same S1); [exact Sa|]. exact Rs.
    + destruct Sa as [Q1 [Q2 [Q3 [Q4 Q5]]]]. unfold extend.
      destruct (extend_with_atoms acc o offs (index_map ra repl search m)) as [_ [_ [_ [_ [_ [E1 [_ [_ [_ [_ [Eb [Ea [Ed Ei]]]]]]]]]]]]]. cbv zeta in *.
      unfold same_tables. rewrite E1, Eb, Ea, Ed, Ei, !extend_kind_coef. repeat split; assumption.
    + unfold extend. rewrite extend_with_natoms. lia.
    + apply union_nodup. exact Hnd.
Qed.

Lemma fold_union_nodup (sel : list smatch) : forall acc, NoDup acc -> NoDup (fold_left (fun acc m => union acc (m_idx m)) sel acc).
Proof. induction sel as [|m sel IH]; intros acc H; cbn; [exact H|]. apply IH. apply union_nodup. exact H. Qed.

Theorem replace_WF_Typed S search repl ra ig sel S' k : WF S -> Typed S -> WF repl -> Typed repl -> compat S repl ->
  Forall (match_ok S search repl) sel -> replace_from S search repl ra ig sel = Ok S' k -> WF S' /\ Typed S'.
Proof.
  intros Ws Ts Wr Tr Hc Hm H. unfold replace_from in H. destruct (natoms repl) as [|n] eqn:En.
  - injection H as <- _. split; [apply WF_delitem; [exact Ws|apply fold_union_nodup; constructor]|apply Typed_delitem; exact Ts].
  - destruct (Typed_extend_types S repl Ts Tr Hc) as [T1 R1]. destruct (extend_types S repl) as [S1 offs] eqn:E. cbn [fst snd] in *.
    destruct (rstep ra ig repl search offs sel S1 []) as [[a del]|] eqn:Er; [|discriminate]. injection H as <- _.
    assert (W1 : WF S1) by (pose proof (proj1 (WF_extend_types S repl Ws)) as W; rewrite E in W; exact W).
    assert (N1 : natoms S1 = natoms S) by (pose proof (proj2 (WF_extend_types S repl Ws)) as W; rewrite E in W; exact W).
    destruct (rstep_inv ra ig repl search offs S S1 Wr Tr R1 sel S1 [] a del Hm W1 T1 (same_tables_refl S1)) as [Wa [Ta Hnd]]; [lia|constructor|exact Er|].
    split; [apply WF_delitem; assumption|apply Typed_delitem; exact Ta].
Qed.
