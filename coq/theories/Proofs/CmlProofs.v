From Coq Require Import ZArith List Bool Arith Lia.
From Mofun Require Import Model.Atoms Model.Cml.
Import ListNotations.

Lemma lookup_from_notin r ids : forall i found, ~ In r ids -> lookup_from r i ids found = found.
Proof.
  induction ids as [|x t IH]; intros i found H; cbn; [reflexivity|].
  destruct (Z.eqb x r) eqn:E; [apply Z.eqb_eq in E; subst; exfalso; apply H; left; reflexivity|].
  apply IH. intros Hin. apply H. right; exact Hin.
Qed.

(* with distinct ids, the id of the k-th atom entry resolves to k *)
Lemma lookup_from_nodup ids : forall i found k r, NoDup ids -> nth_error ids k = Some r -> lookup_from r i ids found = Some (i + k).
Proof.
  induction ids as [|x t IH]; intros i found k r Hnd Hk; [destruct k; discriminate|].
  inversion Hnd as [|? ? Hn Ht]; subst. destruct k as [|k]; cbn in Hk.
  - injection Hk as ->. cbn. rewrite Z.eqb_refl. rewrite lookup_from_notin by exact Hn. f_equal. lia.
  - cbn. destruct (Z.eqb x r) eqn:E.
    + apply Z.eqb_eq in E. subst. exfalso. apply Hn. apply (nth_error_In _ _ Hk).
    + rewrite (IH (S i) found k r Ht Hk). f_equal. lia.
Qed.
Theorem id_to_idx_nodup ids k r : NoDup ids -> nth_error ids k = Some r -> id_to_idx ids r = Some k.
Proof. intros H1 H2. unfold id_to_idx. rewrite (lookup_from_nodup ids 0 None k r H1 H2). reflexivity. Qed.

(* one atom per atom entry, in document order, with the stated element and coordinates; one bond per bond entry joining the atoms its
   references name; no bond entries -> zero bonds *)
Theorem load_spec d l : load d = Some l ->
  l_elements l = map (fun a => snd (fst a)) (cml_atoms d) /\ l_positions l = map snd (cml_atoms d) /\
  length (l_bonds l) = length (cml_bonds d) /\
  forall j r1 r2, nth_error (cml_bonds d) j = Some (r1, r2) ->
    exists a b, nth_error (l_bonds l) j = Some (a, b) /\
                id_to_idx (map (fun a => fst (fst a)) (cml_atoms d)) r1 = Some a /\ id_to_idx (map (fun a => fst (fst a)) (cml_atoms d)) r2 = Some b.
Proof.
  unfold load. set (ids := map (fun a => fst (fst a)) (cml_atoms d)).
  destruct (resolve ids (cml_bonds d)) as [bs|] eqn:R; [|discriminate]. intros H; injection H as <-. cbn [l_elements l_positions l_bonds].
  split; [reflexivity|]. split; [reflexivity|].
  revert bs R. induction (cml_bonds d) as [|[r1 r2] t IH]; intros bs R; cbn [resolve] in R.
  - injection R as <-. split; [reflexivity|]. intros j r1 r2 H. destruct j; discriminate.
  - destruct (id_to_idx ids r1) as [i|] eqn:E1; [|discriminate]. destruct (id_to_idx ids r2) as [j0|] eqn:E2; [|discriminate].
    destruct (resolve ids t) as [rest|] eqn:E3; [|discriminate]. injection R as <-. destruct (IH rest eq_refl) as [L Hn].
    split; [cbn; f_equal; exact L|]. intros j s1 s2 H. destruct j as [|j]; cbn in H.
    + injection H as <- <-. exists i, j0. repeat split; assumption.
    + apply (Hn j s1 s2 H).
Qed.

Theorem load_no_bonds atoms : load (mk_cml atoms []) = Some (mk_loaded (map (fun a => snd (fst a)) atoms) (map snd atoms) []).
Proof. reflexivity. Qed.

(* a molecule whose references all name existing atoms always loads *)
Theorem load_total d : (forall r1 r2, In (r1, r2) (cml_bonds d) -> In r1 (map (fun a => fst (fst a)) (cml_atoms d)) /\ In r2 (map (fun a => fst (fst a)) (cml_atoms d))) ->
  exists l, load d = Some l.
Proof.
  intros H. unfold load. set (ids := map (fun a => fst (fst a)) (cml_atoms d)) in *.
  assert (T : forall r, In r ids -> exists i, id_to_idx ids r = Some i).
  { intros r Hr. unfold id_to_idx. assert (G : forall l i found, In r l -> exists k, lookup_from r i l found = Some k).
    { induction l as [|x t IHl]; intros i found Hin; [destruct Hin|]. cbn. destruct (Z.eqb x r) eqn:E.
      - destruct (in_dec Z.eq_dec r t) as [Ht|Ht]; [apply IHl; exact Ht|rewrite lookup_from_notin by exact Ht; eexists; reflexivity].
      - destruct Hin as [Hx|Ht]; [subst; rewrite Z.eqb_refl in E; discriminate|apply IHl; exact Ht]. }
    apply G. exact Hr. }
  assert (R : exists bs, resolve ids (cml_bonds d) = Some bs).
  { induction (cml_bonds d) as [|[r1 r2] t IH]; [eexists; reflexivity|]. cbn [resolve].
    destruct (H r1 r2 (or_introl eq_refl)) as [A B]. destruct (T r1 A) as [i ->]. destruct (T r2 B) as [j ->].
    destruct IH as [rest ->]; [intros s1 s2 Hs; apply H; right; exact Hs|]. eexists; reflexivity. }
  destruct R as [bs ->]. eexists; reflexivity.
Qed.
