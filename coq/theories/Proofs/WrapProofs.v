(* Wrapping a point into the unit cell (C05, C15): the representative of p modulo the lattice whose fractional coordinates lie in [0,1)
   exists, is reached by subtracting floor(fractional coordinates) lattice vectors, and is unique. *)
From Coq Require Import ZArith List Bool Lia.
From Mofun Require Import Model.Atoms Model.Geom Proofs.BondsProofs.
Import ListNotations.
Open Scope Z_scope.

(* positions % 1.0 in fractional coordinates, by Cramer's rule: frac_i = (p . dual_i) / det *)
Definition wrap (c : mat) (p : vec) : vec :=
  let D := det3 c in vsub p (lattice c (dot p (dual0 c) / D) (dot p (dual1 c) / D) (dot p (dual2 c) / D)).

Lemma mod_range a D : 0 < D -> 0 <= a - a / D * D < D.
Proof. intros HD. pose proof (Z.mod_pos_bound a D HD). pose proof (Z.div_mod a D). lia. Qed.

Theorem wrap_inside c p : 0 < det3 c -> inside c (wrap c p).
Proof.
  intros HD. unfold inside, wrap. cbv zeta. rewrite !dot_vsub_l, dot_lattice_dual0, dot_lattice_dual1, dot_lattice_dual2.
  repeat split; apply mod_range; exact HD.
Qed.
Theorem wrap_same_site c p : exists i j k, wrap c p = vsub p (lattice c i j k).
Proof. unfold wrap. eexists; eexists; eexists; reflexivity. Qed.

Lemma lattice_coeffs_zero c i j k x : 0 < det3 c -> inside c x -> inside c (vsub x (lattice c i j k)) -> i = 0 /\ j = 0 /\ k = 0.
Proof.
  intros HD [A [B C]] [A' [B' C']]. rewrite dot_vsub_l in A', B', C'. rewrite dot_lattice_dual0 in A'. rewrite dot_lattice_dual1 in B'. rewrite dot_lattice_dual2 in C'.
  assert (Z0 : forall a n, 0 <= a < det3 c -> 0 <= a - n * det3 c < det3 c -> n = 0).
  { intros a n Ha Hn. destruct (Z_lt_le_dec n 0) as [Hneg|Hge].
    - assert (n * det3 c <= -1 * det3 c) by (apply Z.mul_le_mono_nonneg_r; lia). lia.
    - destruct (Z_lt_le_dec 0 n) as [Hpos|]; [|lia]. assert (1 * det3 c <= n * det3 c) by (apply Z.mul_le_mono_nonneg_r; lia). lia. }
  split; [exact (Z0 _ i A A')|split; [exact (Z0 _ j B B')|exact (Z0 _ k C C')]].
Qed.
Lemma lattice_zero c : lattice c 0 0 0 = (0, 0, 0).
Proof. destruct c as [[[[a b] c0] [[d e] f]] [[g h] l]]. reflexivity. Qed.
Lemma vsub_zero x : vsub x (0, 0, 0) = x.
Proof. destruct x as [[a b] c]. unfold vsub. f_equal; [f_equal|]; ring. Qed.

(* the representative inside the cell is unique: two points inside the cell that differ by a lattice vector are equal *)
Theorem inside_unique c x i j k : 0 < det3 c -> inside c x -> inside c (vsub x (lattice c i j k)) -> vsub x (lattice c i j k) = x.
Proof. intros HD Hx Hy. destruct (lattice_coeffs_zero c i j k x HD Hx Hy) as [-> [-> ->]]. rewrite lattice_zero. apply vsub_zero. Qed.
Theorem wrap_idempotent c p : 0 < det3 c -> inside c p -> wrap c p = p.
Proof. intros HD Hp. unfold wrap. cbv zeta. apply inside_unique; [exact HD|exact Hp|]. exact (wrap_inside c p HD). Qed.
(* hence: a point inside the cell that is a lattice translate of p IS wrap c p *)
Theorem wrap_characterised c p y i j k : 0 < det3 c -> inside c y -> y = vsub p (lattice c i j k) -> y = wrap c p.
Proof.
  intros HD Hy E. pose proof (wrap_inside c p HD) as Hw. unfold wrap in *. cbv zeta in *.
  set (a := dot p (dual0 c) / det3 c) in *. set (b := dot p (dual1 c) / det3 c) in *. set (d := dot p (dual2 c) / det3 c) in *.
  assert (E2 : vsub p (lattice c a b d) = vsub y (lattice c (a - i) (b - j) (d - k))).
  { rewrite E. destruct c as [[[[c1 c2] c3] [[c4 c5] c6]] [[c7 c8] c9]]. destruct p as [[p1 p2] p3]. unfold vsub, lattice, vadd, vscale. f_equal; [f_equal|]; ring. }
  rewrite E2 in Hw. rewrite E2. symmetry. apply inside_unique; assumption.
Qed.
