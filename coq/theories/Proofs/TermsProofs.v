(* Proofs about type keys, pair enumeration and type assignment (C19) *)
From Coq Require Import List Arith Bool Lia.
From Mofun Require Import Model.Terms.
Import ListNotations.

(* ---------- lexicographic order and typekey ---------- *)
Lemma lex_leb_refl a : lex_leb a a = true.
Proof. induction a as [|x a IH]; cbn [lex_leb]; [reflexivity|]. rewrite Nat.ltb_irrefl. exact IH. Qed.
Lemma lex_leb_total a : forall b, lex_leb a b = true \/ lex_leb b a = true.
Proof.
  induction a as [|x a IH]; intros [|y b]; cbn [lex_leb]; auto.
  destruct (x <? y) eqn:A; [left; reflexivity|]. destruct (y <? x) eqn:B; [right; reflexivity|]. apply IH.
Qed.
Lemma lex_leb_antisym a : forall b, lex_leb a b = true -> lex_leb b a = true -> a = b.
Proof.
  induction a as [|x a IH]; intros [|y b]; cbn [lex_leb]; intros H1 H2; try reflexivity; try discriminate.
  destruct (x <? y) eqn:A, (y <? x) eqn:B; try discriminate.
  - apply Nat.ltb_lt in A, B. lia.
  - apply Nat.ltb_ge in A, B. assert (x = y) by lia. subst. f_equal. apply IH; assumption.
Qed.

Theorem typekey_choice t : typekey t = t \/ typekey t = rev t.
Proof. unfold typekey. destruct (lex_leb (rev t) t); [right|left]; reflexivity. Qed.
Theorem typekey_rev t : typekey (rev t) = typekey t.
Proof.
  unfold typekey. rewrite rev_involutive. destruct (lex_leb (rev t) t) eqn:A, (lex_leb t (rev t)) eqn:B; try reflexivity.
  - symmetry. apply lex_leb_antisym; assumption.
  - destruct (lex_leb_total t (rev t)); congruence.
Qed.
(* two sequences get the same key exactly when they agree up to reversal *)
Theorem typekey_eq_iff t u : typekey t = typekey u <-> (t = u \/ t = rev u).
Proof.
  split.
  - intros H. destruct (typekey_choice t) as [A|A], (typekey_choice u) as [B|B]; rewrite A, B in H.
    + left; exact H.
    + right; exact H.
    + right. rewrite <- H. symmetry. apply rev_involutive.
    + left. apply (f_equal (@rev nat)) in H. rewrite !rev_involutive in H. exact H.
  - intros [E|E]; subst; [reflexivity|apply typekey_rev].
Qed.

(* ---------- every unordered pair exactly once ---------- *)
Lemma in_combinations2 l a b : In (a, b) (combinations2 l) <-> exists l1 l2 l3, l = l1 ++ a :: l2 ++ b :: l3.
Proof.
  induction l as [|x t IH]; cbn [combinations2].
  - split; [intros []|intros [l1 [l2 [l3 H]]]; destruct l1; discriminate].
  - rewrite in_app_iff, in_map_iff, IH. split.
    + intros [[y [E Hy]]|[l1 [l2 [l3 H]]]].
      * injection E as <- <-. apply in_split in Hy. destruct Hy as [l2 [l3 ->]]. exists [], l2, l3. reflexivity.
      * exists (x :: l1), l2, l3. rewrite H. reflexivity.
    + intros [l1 [l2 [l3 H]]]. destruct l1 as [|z l1]; cbn in H; injection H as -> ->.
      * left. exists b. split; [reflexivity|]. apply in_or_app. right. left. reflexivity.
      * right. exists l1, l2, l3. reflexivity.
Qed.

Lemma combinations2_nodup l : NoDup l -> NoDup (combinations2 l).
Proof.
  induction 1 as [|x t Hn Hnd IH]; cbn [combinations2]; [constructor|].
  assert (N1 : NoDup (map (fun y => (x, y)) t)).
  { clear IH Hn. induction Hnd as [|y t Hy Ht IHt]; cbn; constructor; [|exact IHt].
    intros Hin. apply in_map_iff in Hin. destruct Hin as [z [E Hz]]. injection E as ->. contradiction. }
  assert (D : forall p, In p (map (fun y => (x, y)) t) -> ~ In p (combinations2 t)).
  { intros [a b] Ha Hb. apply in_map_iff in Ha. destruct Ha as [y [E _]]. injection E as <- <-.
    apply in_combinations2 in Hb. destruct Hb as [l1 [l2 [l3 ->]]]. apply Hn. apply in_or_app. right. left. reflexivity. }
  clear Hn. induction (map (fun y => (x, y)) t) as [|p m IHm]; cbn; [exact IH|].
  inversion N1 as [|? ? Hp Hm]; subst. constructor.
  - rewrite in_app_iff. intros [H|H]; [contradiction|]. apply (D p (or_introl eq_refl) H).
  - apply IHm; [exact Hm|]. intros q Hq. apply D. right; exact Hq.
Qed.

(* for a duplicate-free neighbour list, each unordered pair of distinct neighbours yields exactly one of (a,b), (b,a) -- never both, never none *)
Theorem pair_exactly_once l a b : NoDup l -> In a l -> In b l -> a <> b ->
  (In (a, b) (combinations2 l) /\ ~ In (b, a) (combinations2 l)) \/ (In (b, a) (combinations2 l) /\ ~ In (a, b) (combinations2 l)).
Proof.
  intros Hnd Ha Hb Hne.
  assert (Hex : In (a, b) (combinations2 l) \/ In (b, a) (combinations2 l)).
  { apply in_split in Ha. destruct Ha as [l1 [l2 ->]]. apply in_app_or in Hb. destruct Hb as [Hb|[Hb|Hb]]; [|congruence|].
    - right. apply in_split in Hb. destruct Hb as [m1 [m2 ->]]. apply in_combinations2. exists m1, m2, l2. rewrite <- app_assoc. reflexivity.
    - left. apply in_split in Hb. destruct Hb as [m1 [m2 ->]]. apply in_combinations2. exists l1, m1, m2. reflexivity. }
  assert (Hnot : ~ (In (a, b) (combinations2 l) /\ In (b, a) (combinations2 l))).
  { intros [H1 H2]. apply in_combinations2 in H1, H2. destruct H1 as [l1 [l2 [l3 E1]]]. destruct H2 as [m1 [m2 [m3 E2]]].
    (* a occurs before b and b before a in a duplicate-free list *)
    assert (Ia : forall (l : list nat) x, NoDup l -> forall p1 s1 p2 s2, l = p1 ++ x :: s1 -> l = p2 ++ x :: s2 -> length p1 = length p2).
    { clear. intros l x Hnd. induction Hnd as [|y t Hy Ht IH]; intros p1 s1 p2 s2 A B; [destruct p1; discriminate|].
      destruct p1 as [|z p1], p2 as [|w p2]; cbn in *; try reflexivity.
      - injection A as -> ->. injection B as -> B. exfalso. apply Hy. rewrite B. apply in_or_app. right. left. reflexivity.
      - injection A as -> A. injection B as -> ->. exfalso. apply Hy. rewrite A. apply in_or_app. right. left. reflexivity.
      - injection A as -> A. injection B as _ B. f_equal. apply (IH p1 s1 p2 s2 A B). }
    pose proof (Ia l a Hnd l1 (l2 ++ b :: l3) (m1 ++ b :: m2) m3 E1) as La. rewrite <- app_assoc in La. specialize (La E2).
    pose proof (Ia l b Hnd (l1 ++ a :: l2) l3 m1 (m2 ++ a :: m3)) as Lb. rewrite <- app_assoc in Lb. specialize (Lb E1 E2).
    rewrite !app_length in *. cbn [length] in *. lia. }
  destruct Hex as [H|H]; [left|right]; (split; [exact H|]); intros H'; apply Hnot; split; assumption.
Qed.

(* ---------- type assignment: same type id <-> same key ---------- *)
Lemma list_eqb_eq a : forall b, list_eqb a b = true <-> a = b.
Proof.
  induction a as [|x a IH]; intros [|y b]; cbn; split; intros H; try reflexivity; try discriminate.
  - apply andb_true_iff in H. destruct H as [H1 H2]. apply Nat.eqb_eq in H1. apply IH in H2. subst. reflexivity.
  - injection H as -> ->. rewrite Nat.eqb_refl. apply IH. reflexivity.
Qed.

Lemma in_uniq_keys k l : In k (uniq_keys l) <-> In k l.
Proof.
  induction l as [|x t IH]; cbn [uniq_keys]; [tauto|]. cbn [In]. rewrite filter_In, IH. split.
  - intros [H|[H _]]; [left|right]; exact H.
  - intros [H|H]; [left; exact H|]. destruct (list_eqb x k) eqn:E; [left; apply list_eqb_eq; exact E|right; split; [exact H|reflexivity]].
Qed.

Lemma nth_index_of_key k u : In k u -> nth (index_of_key k u) u [] = k /\ index_of_key k u < length u.
Proof.
  induction u as [|x t IH]; intros H; [destruct H|]. cbn [index_of_key]. destruct (list_eqb k x) eqn:E.
  - apply list_eqb_eq in E. subst. cbn. split; [reflexivity|lia].
  - destruct H as [H|H]; [subst; rewrite (proj2 (list_eqb_eq k k) eq_refl) in E; discriminate|]. destruct (IH H) as [A B]. cbn. split; [exact A|lia].
Qed.

(* two terms get the same type id exactly when their keys are equal, and the id-th entry of the unique list is the term's key (so the
   coefficient computed for that entry is the one of the term's own type sequence) *)
Theorem assign_same_type_iff keys i j ki kj : nth_error keys i = Some ki -> nth_error keys j = Some kj ->
  (nth i (fst (assign keys)) 0 = nth j (fst (assign keys)) 0 <-> ki = kj) /\ nth (nth i (fst (assign keys)) 0) (snd (assign keys)) [] = ki.
Proof.
  intros Hi Hj. unfold assign. cbn [fst snd].
  assert (Ni : nth i (map (fun k => index_of_key k (uniq_keys keys)) keys) 0 = index_of_key ki (uniq_keys keys)).
  { apply nth_error_nth. rewrite nth_error_map, Hi. reflexivity. }
  assert (Nj : nth j (map (fun k => index_of_key k (uniq_keys keys)) keys) 0 = index_of_key kj (uniq_keys keys)).
  { apply nth_error_nth. rewrite nth_error_map, Hj. reflexivity. }
  rewrite Ni, Nj.
  assert (Ui : In ki (uniq_keys keys)) by (apply in_uniq_keys; apply (nth_error_In _ _ Hi)).
  assert (Uj : In kj (uniq_keys keys)) by (apply in_uniq_keys; apply (nth_error_In _ _ Hj)).
  destruct (nth_index_of_key ki _ Ui) as [A _]. destruct (nth_index_of_key kj _ Uj) as [B _].
  split; [|exact A]. split; [intros E; rewrite <- A, <- B, E; reflexivity|intros ->; reflexivity].
Qed.
