(* A match lists DISTINCT atoms (C01), on the property's domain: pattern atoms pairwise farther apart than the tolerance, and every
   non-zero lattice vector with coefficients in -2..2 longer than the pattern diameter plus the tolerance. *)
From Coq Require Import ZArith List Bool Arith Lia.
From Mofun Require Import Model.Atoms Model.Geom Model.Find Proofs.FindProofs Proofs.BondsProofs Proofs.FindComplete.
Import ListNotations.
Open Scope Z_scope.

(* ---------- what the pairwise screen means ---------- *)
(* isclose(sqrt A, sqrt B) within t = tn/td, for 0 <= A <= R^2:  B td^2 <= (R td + tn)^2 *)
Lemma isclose_upper A B R t : 0 <= A -> 0 <= B -> 0 <= R -> A <= R * R -> 0 < td t -> 0 <= tn t ->
  isclose_sqrt_b A B t = true -> B * (td t * td t) <= (R * td t + tn t) * (R * td t + tn t).
Proof.
  intros HA HB HR HAR Htd Htn H. unfold isclose_sqrt_b in H. cbv zeta in H.
  set (d := td t) in *. set (n := tn t) in *.
  destruct (Z_le_gt_dec (B * (d * d)) ((R * d + n) * (R * d + n))) as [|Hgt]; [assumption|exfalso].
  set (M := R * d). set (X := B * (d * d)). set (Y := A * (d * d)).
  assert (HM : 0 <= M) by (apply Z.mul_nonneg_nonneg; lia).
  assert (HY : Y <= M * M). { unfold Y, M. replace (R * d * (R * d)) with (R * R * (d * d)) by ring. apply Z.mul_le_mono_nonneg_r; [apply Z.mul_nonneg_nonneg; lia|exact HAR]. }
  assert (HY0 : 0 <= Y) by (apply Z.mul_nonneg_nonneg; [lia|apply Z.mul_nonneg_nonneg; lia]).
  set (e := X - (M + n) * (M + n)). set (dd := M * M - Y).
  assert (He : 1 <= e) by (unfold e, X, M; lia). assert (Hd : 0 <= dd) by (unfold dd; lia).
  set (s := (A + B) * d * d - n * n) in *.
  assert (Es : s = X + Y - n * n) by (unfold s, X, Y; ring).
  assert (E4 : 4 * A * B * d * d * d * d = 4 * X * Y) by (unfold X, Y; ring).
  assert (Key : s * s - 4 * X * Y = e * e + 4 * M * n * e + dd * dd + 2 * dd * (2 * M * n + 2 * (n * n) + e)).
  { rewrite Es. replace X with ((M + n) * (M + n) + e) by (unfold e; ring). replace Y with (M * M - dd) by (unfold dd; ring). ring. }
  assert (P1 : 1 <= e * e) by (replace 1 with (1 * 1) by ring; apply Z.mul_le_mono_nonneg; lia).
  assert (P2 : 0 <= 4 * M * n * e) by (apply Z.mul_nonneg_nonneg; [apply Z.mul_nonneg_nonneg; [lia|lia]|lia]).
  assert (P3 : 0 <= dd * dd) by (apply Z.mul_nonneg_nonneg; lia).
  assert (P4 : 0 <= 2 * dd * (2 * M * n + 2 * (n * n) + e)).
  { apply Z.mul_nonneg_nonneg; [lia|]. assert (0 <= M * n) by (apply Z.mul_nonneg_nonneg; lia). assert (0 <= n * n) by (apply Z.mul_nonneg_nonneg; lia). lia. }
  assert (Hpos : 4 * X * Y < s * s) by lia.
  assert (Hs0 : 0 < s). { rewrite Es. unfold e in He. assert (0 <= M * n) by (apply Z.mul_nonneg_nonneg; lia). assert (0 <= M * M) by (apply Z.mul_nonneg_nonneg; lia). lia. }
  apply orb_prop in H. destruct H as [H|H]; [apply Z.leb_le in H; lia|apply Z.leb_le in H; rewrite E4 in H; lia].
Qed.
(* isclose(sqrt A, 0):  A td^2 <= tn^2 *)
Lemma isclose_zero A t : 0 <= A -> isclose_sqrt_b A 0 t = true -> A * (td t * td t) <= tn t * tn t.
Proof.
  intros HA H. unfold isclose_sqrt_b in H. cbv zeta in H. rewrite Z.add_0_r, Z.mul_0_r, !Z.mul_0_l in H.
  apply orb_prop in H. destruct H as [H|H]; apply Z.leb_le in H; [lia|].
  set (s := A * td t * td t - tn t * tn t) in *. pose proof (Z.square_nonneg s) as Hsq. assert (E : s * s = 0) by lia.
  apply Z.mul_eq_0 in E. unfold s in E. lia.
Qed.

Section Distinct.
Variable S : list atom.
Variable cell : mat.
Variable P : list atom.
Variable tol : tolr.
Notation Ppos := (Ppos P).
Notation dall := (dist_ok P tol 0).

(* ---------- every candidate passed the pairwise screen for every pair ---------- *)
Lemma extend_partial_sound nb k pk partial c : In c (extend_partial P tol nb k pk partial) ->
  exists g x, c = partial ++ [(g, x)] /\
    forallb (fun pq => isclose_sqrt_b (d2 (snd pk) (fst pq)) (d2 x (snd (snd pq))) tol) (combine (firstn k Ppos) partial) = true.
Proof.
  unfold extend_partial. intros Hin. apply in_flat_map in Hin. destruct Hin as [[g [e x]] [_ Hc]].
  match type of Hc with In _ (if ?b then _ else _) => destruct b eqn:E end; [|destruct Hc].
  destruct Hc as [<-|[]]. apply andb_prop in E. destruct E as [_ E]. exists g, x. split; [reflexivity|exact E].
Qed.

Lemma grow_dist nb : forall rest k partials c Pdone, P = Pdone ++ rest -> length Pdone = k ->
  (forall p, In p partials -> length p = k /\ dall p) -> In c (grow P tol nb k rest partials) ->
  dall c /\ length c = (k + length rest)%nat.
Proof.
  induction rest as [|pk rest IH]; intros k partials c Pdone EP LP Hps Hin; cbn [grow] in Hin.
  - destruct (Hps c Hin) as [L D]. split; [exact D|cbn; lia].
  - assert (Lpos : length Ppos = (length Pdone + Datatypes.S (length rest))%nat) by (unfold Find.Ppos; rewrite EP, map_length, app_length; reflexivity).
    destruct (IH (Datatypes.S k) (flat_map (extend_partial P tol nb k pk) partials) c (Pdone ++ [pk])) as [D L]; [rewrite <- app_assoc; exact EP|rewrite app_length; cbn; lia| |exact Hin|split; [exact D|cbn [length]; lia]].
    intros p' Hp'. apply in_flat_map in Hp'. destruct Hp' as [p [Hp Hp']]. destruct (Hps p Hp) as [Lp Dp].
    apply extend_partial_sound in Hp'. destruct Hp' as [g [x [-> Hf]]]. split; [rewrite app_length; cbn; lia|].
    intros j i Hji Hi _. rewrite app_length in Hi. cbn [length] in Hi.
    destruct (Nat.eq_dec i (length p)) as [->|Hne].
    + rewrite (app_nth2 p _ dv (le_n _)), Nat.sub_diag. cbn [nth snd]. rewrite (app_nth1 p _ dv Hji).
      rewrite forallb_forall in Hf.
      assert (Hin2 : In (nth j (firstn k Ppos) (0, 0, 0), nth j p dv) (combine (firstn k Ppos) p)).
      { rewrite <- (combine_nth (firstn k Ppos) p j (0, 0, 0) dv) by (rewrite firstn_length; lia). apply nth_In. rewrite combine_length, firstn_length. lia. }
      specialize (Hf _ Hin2). cbn [fst snd] in Hf.
      assert (E1 : nth j (firstn k Ppos) (0, 0, 0) = nth j Ppos (0, 0, 0)).
      { rewrite <- (firstn_skipn k Ppos) at 2. rewrite app_nth1 by (rewrite firstn_length; lia). reflexivity. }
      assert (E2 : snd pk = nth (length p) Ppos (0, 0, 0)).
      { unfold Find.Ppos. rewrite EP, map_app, app_nth2 by (rewrite map_length; lia). rewrite map_length. replace (length p - length Pdone)%nat with 0%nat by lia. reflexivity. }
      unfold vec in *. rewrite E1, E2 in Hf. exact Hf.
    + assert (Hi' : (i < length p)%nat) by lia. rewrite (app_nth1 p _ dv Hi'), (app_nth1 p _ dv) by lia. apply Dp; lia.
Qed.

Lemma cands_dist c : In c (cands S cell P tol) -> dall c /\ length c = length P.
Proof.
  unfold cands. destruct P as [|p0 rest] eqn:EP; [intros []|]. rewrite <- EP. intros Hin. apply in_flat_map in Hin. destruct Hin as [[g [e x]] [_ Hc]].
  match type of Hc with In _ (if ?b then _ else _) => destruct b end; [|destruct Hc].
  destruct (grow_dist (nearby S cell P tol x) rest 1%nat [[(g, x)]] c [p0] EP eq_refl) as [D L]; [|exact Hc|split; [exact D|rewrite L, EP; reflexivity]].
  intros p [<-|[]]. split; [reflexivity|]. intros j i Hji Hi _. cbn in Hi. lia.
Qed.

(* ---------- images ---------- *)
Lemma offsets27_inv o : In o (offsets27 cell) -> exists i j k, o = lattice cell i j k /\ -1 <= i <= 1 /\ -1 <= j <= 1 /\ -1 <= k <= 1.
Proof.
  intros Ho. unfold offsets27, m11 in Ho. cbn [flat_map app Z.eqb andb In] in Ho.
  destruct Ho as [<-|Ho]; [exists 0, 0, 0; split; [symmetry; apply lattice_zero'|lia]|].
  repeat (destruct Ho as [<-|Ho]; [eexists; eexists; eexists; split; [reflexivity|lia]|]). destruct Ho.
Qed.
Lemma Forall2_nth {A B} (R : A -> B -> Prop) l1 l2 d1 d2 : Forall2 R l1 l2 -> forall i, (i < length l1)%nat -> R (nth i l1 d1) (nth i l2 d2).
Proof. induction 1 as [|a b l1 l2 Hab HF IH]; intros i Hi; cbn in Hi; [lia|]. destruct i; cbn; [exact Hab|apply IH; lia]. Qed.

Lemma lattice_diff i j k i' j' k' : vsub (lattice cell i j k) (lattice cell i' j' k') = lattice cell (i - i') (j - j') (k - k').
Proof. destruct cell as [[[[a b] c0] [[d e] f]] [[g h] l]]. unfold lattice, vsub, vadd, vscale. f_equal; [f_equal|]; ring. Qed.
Lemma vsub_vadd_same a o o' : vsub (vadd a o) (vadd a o') = vsub o o'.
Proof. destruct a as [[a1 a2] a3], o as [[o1 o2] o3], o' as [[p1 p2] p3]. unfold vsub, vadd. f_equal; [f_equal|]; ring. Qed.

(* the domain: R bounds the pattern diameter; pattern atoms are farther apart than the tolerance; every short non-zero lattice vector
   is longer than the pattern diameter plus the tolerance *)
Variable R : Z.
Hypothesis HR : 0 <= R.
Hypothesis Htd : 0 < td tol.
Hypothesis Htn : 0 <= tn tol.
Hypothesis diam : forall i j, (i < length P)%nat -> (j < length P)%nat -> d2 (nth i Ppos (0, 0, 0)) (nth j Ppos (0, 0, 0)) <= R * R.
Hypothesis sep : forall i j, (j < i)%nat -> (i < length P)%nat -> tn tol * tn tol < d2 (nth i Ppos (0, 0, 0)) (nth j Ppos (0, 0, 0)) * (td tol * td tol).
Hypothesis wide : forall i j k, -2 <= i <= 2 -> -2 <= j <= 2 -> -2 <= k <= 2 -> (i, j, k) <> (0, 0, 0) ->
  (R * td tol + tn tol) * (R * td tol + tn tol) < n2 (lattice cell i j k) * (td tol * td tol).

Lemma n2_nonneg' v : 0 <= n2 v.
Proof. apply n2_nonneg. Qed.

Theorem cands_distinct c : In c (cands S cell P tol) -> NoDup (map (fun gx => (fst gx mod nS S)%nat) c).
Proof.
  intros Hc. destruct (cands_dist c Hc) as [D L]. destruct (cands_spec S cell P tol c Hc) as [F _].
  apply (NoDup_nth _ 0%nat). intros i j Hi Hj E. rewrite map_length in Hi, Hj.
  destruct (Nat.eq_dec i j) as [|Hne]; [assumption|exfalso].
  (* wlog j < i *)
  assert (W : forall i j, (j < i)%nat -> (i < length c)%nat ->
              nth i (map (fun gx => (fst gx mod nS S)%nat) c) 0%nat = nth j (map (fun gx => (fst gx mod nS S)%nat) c) 0%nat -> False).
  { clear i j Hi Hj E Hne. intros i j Hji Hi E.
    assert (Hj : (j < length c)%nat) by lia.
    assert (K : forall n, (n < length c)%nat -> nth n (map (fun gx : nat * vec => (fst gx mod nS S)%nat) c) 0%nat = (fst (nth n c dv) mod nS S)%nat).
    { intros n Hn. set (f := fun gx : nat * vec => (fst gx mod nS S)%nat). rewrite (nth_indep _ 0%nat (f dv)) by (rewrite map_length; exact Hn). apply (map_nth f). }
    rewrite (K i Hi), (K j Hj) in E.
    pose proof (Forall2_nth _ _ _ dv dflt_atom F i Hi) as Mi. pose proof (Forall2_nth _ _ _ dv dflt_atom F j Hj) as Mj.
    unfold member_of in Mi, Mj. apply images_spec in Mi, Mj.
    destruct Mi as [oi [Hoi [_ [_ Xi]]]]. destruct Mj as [oj [Hoj [_ [_ Xj]]]]. unfold nS in E. rewrite <- E in Xj.
    destruct (offsets27_inv oi Hoi) as [a1 [a2 [a3 [-> [B1 [B2 B3]]]]]]. destruct (offsets27_inv oj Hoj) as [b1 [b2 [b3 [-> [C1 [C2 C3]]]]]].
    assert (Ed : d2 (snd (nth i c dv)) (snd (nth j c dv)) = n2 (lattice cell (a1 - b1) (a2 - b2) (a3 - b3))).
    { unfold d2. rewrite Xi, Xj, vsub_vadd_same, lattice_diff. reflexivity. }
    specialize (D j i Hji Hi (Nat.le_0_l _)). rewrite Ed in D.
    assert (Hip : (i < length P)%nat) by lia. assert (Hjp : (j < length P)%nat) by lia.
    set (A := d2 (nth i Ppos (0, 0, 0)) (nth j Ppos (0, 0, 0))) in *.
    assert (HA : 0 <= A) by (unfold A, d2; apply n2_nonneg).
    destruct (Z.eq_dec (a1 - b1) 0) as [E1|N1]; [destruct (Z.eq_dec (a2 - b2) 0) as [E2|N2]; [destruct (Z.eq_dec (a3 - b3) 0) as [E3|N3]|]|].
    - rewrite E1, E2, E3, lattice_zero' in D. change (n2 (0, 0, 0)) with 0 in D. apply isclose_zero in D; [|exact HA]. specialize (sep i j Hji Hip). fold A in sep. lia.
    - pose proof (isclose_upper A _ R tol HA (n2_nonneg _) HR (diam i j Hip Hjp) Htd Htn D) as U.
      assert (Wd := wide (a1 - b1) (a2 - b2) (a3 - b3)). specialize (Wd ltac:(lia) ltac:(lia) ltac:(lia)). assert (Hnz : (a1 - b1, a2 - b2, a3 - b3) <> (0, 0, 0)) by (intros Q; injection Q; lia). specialize (Wd Hnz). lia.
    - pose proof (isclose_upper A _ R tol HA (n2_nonneg _) HR (diam i j Hip Hjp) Htd Htn D) as U.
      assert (Wd := wide (a1 - b1) (a2 - b2) (a3 - b3)). specialize (Wd ltac:(lia) ltac:(lia) ltac:(lia)). assert (Hnz : (a1 - b1, a2 - b2, a3 - b3) <> (0, 0, 0)) by (intros Q; injection Q; lia). specialize (Wd Hnz). lia.
    - pose proof (isclose_upper A _ R tol HA (n2_nonneg _) HR (diam i j Hip Hjp) Htd Htn D) as U.
      assert (Wd := wide (a1 - b1) (a2 - b2) (a3 - b3)). specialize (Wd ltac:(lia) ltac:(lia) ltac:(lia)). assert (Hnz : (a1 - b1, a2 - b2, a3 - b3) <> (0, 0, 0)) by (intros Q; injection Q; lia). specialize (Wd Hnz). lia. }
  destruct (Nat.lt_ge_cases j i) as [Hlt|Hge]; [apply (W i j Hlt Hi E)|apply (W j i); [lia|exact Hj|symmetry; exact E]].
Qed.

(* every reported match lists pairwise different atoms *)
Theorem find_distinct rot pick rtol hints idx pos q : In (idx, pos, q) (find rot pick S cell P tol rtol hints) -> NoDup idx.
Proof.
  unfold find. intros Hin. apply in_flat_map in Hin. destruct Hin as [[k cs] [Hg Hin]]. cbn [snd] in Hin.
  fold (good_of rot P tol rtol hints cs) in Hin. destruct (good_of rot P tol rtol hints cs) as [|g0 good'] eqn:EG; [destruct Hin|]. rewrite <- EG in Hin.
  remember (nth (pick (length (good_of rot P tol rtol hints cs)) mod length (good_of rot P tol rtol hints cs)) (good_of rot P tol rtol hints cs) ([], (0,0,0,1))) as cq eqn:Ecq.
  assert (Hcq : In cq (good_of rot P tol rtol hints cs)). { subst cq. apply nth_In. apply Nat.mod_upper_bound. rewrite EG. cbn. lia. }
  destruct cq as [c q']. destruct Hin as [Hin|[]]. injection Hin as <- _ _.
  apply good_of_in in Hcq. apply cands_distinct. apply (groups_in_cands S cell P tol k cs c Hg Hcq).
Qed.
End Distinct.

(* ---------- the domain as a computable test, so that it can be evaluated on concrete inputs ---------- *)
Definition m22 : list Z := [-2; -1; 0; 1; 2].
Definition wide_b (cell : mat) (tol : tolr) (R : Z) : bool :=
  forallb (fun i => forallb (fun j => forallb (fun k =>
    ((i =? 0) && (j =? 0) && (k =? 0)) || ((R * td tol + tn tol) * (R * td tol + tn tol) <? n2 (lattice cell i j k) * (td tol * td tol))) m22) m22) m22.
Definition pairs_b (P : list atom) (f : vec -> vec -> bool) : bool :=
  forallb (fun a => forallb (fun b => f a b) (Ppos P)) (Ppos P).
Definition diam_b (P : list atom) (R : Z) : bool := pairs_b P (fun a b => d2 a b <=? R * R).
Fixpoint sep_list (t : tolr) (l : list vec) : bool :=
  match l with [] => true | a :: r => forallb (fun b => tn t * tn t <? d2 b a * (td t * td t)) r && sep_list t r end.
Definition domain_b (cell : mat) (P : list atom) (tol : tolr) (R : Z) : bool :=
  (0 <=? R) && (0 <? td tol) && (0 <=? tn tol) && diam_b P R && sep_list tol (Ppos P) && wide_b cell tol R.

Lemma in_m22 i : -2 <= i <= 2 -> In i m22.
Proof. intros H. unfold m22. assert (i = -2 \/ i = -1 \/ i = 0 \/ i = 1 \/ i = 2) as [E|[E|[E|[E|E]]]] by lia; subst i; cbn; tauto. Qed.
Lemma wide_b_spec cell tol R : wide_b cell tol R = true -> forall i j k, -2 <= i <= 2 -> -2 <= j <= 2 -> -2 <= k <= 2 -> (i, j, k) <> (0, 0, 0) ->
  (R * td tol + tn tol) * (R * td tol + tn tol) < n2 (lattice cell i j k) * (td tol * td tol).
Proof.
  intros H i j k Hi Hj Hk Hnz. unfold wide_b in H. rewrite forallb_forall in H. specialize (H i (in_m22 i Hi)).
  rewrite forallb_forall in H. specialize (H j (in_m22 j Hj)). rewrite forallb_forall in H. specialize (H k (in_m22 k Hk)).
  apply orb_prop in H. destruct H as [H|H]; [|apply Z.ltb_lt; exact H].
  apply andb_prop in H. destruct H as [H H3]. apply andb_prop in H. destruct H as [H1 H2]. apply Z.eqb_eq in H1, H2, H3. subst. contradiction.
Qed.
Lemma diam_b_spec P R : diam_b P R = true -> forall i j, (i < length P)%nat -> (j < length P)%nat ->
  d2 (nth i (Ppos P) (0, 0, 0)) (nth j (Ppos P) (0, 0, 0)) <= R * R.
Proof.
  intros H i j Hi Hj. unfold diam_b, pairs_b in H. rewrite forallb_forall in H.
  assert (Li : (i < length (Ppos P))%nat) by (unfold Ppos; rewrite map_length; exact Hi). assert (Lj : (j < length (Ppos P))%nat) by (unfold Ppos; rewrite map_length; exact Hj).
  specialize (H _ (nth_In _ (0, 0, 0) Li)). rewrite forallb_forall in H. specialize (H _ (nth_In _ (0, 0, 0) Lj)). apply Z.leb_le. exact H.
Qed.
Lemma sep_list_spec t l : sep_list t l = true -> forall i j, (j < i)%nat -> (i < length l)%nat ->
  tn t * tn t < d2 (nth i l (0, 0, 0)) (nth j l (0, 0, 0)) * (td t * td t).
Proof.
  induction l as [|a r IH]; intros H i j Hji Hi; cbn in Hi; [lia|]. cbn [sep_list] in H. apply andb_prop in H. destruct H as [H1 H2].
  destruct i as [|i]; [lia|]. destruct j as [|j]; cbn [nth].
  - rewrite forallb_forall in H1. apply Z.ltb_lt. apply H1. apply nth_In. lia.
  - apply IH; [exact H2|lia|lia].
Qed.
Theorem find_distinct_b S cell P tol R rot pick rtol hints idx pos q : domain_b cell P tol R = true ->
  In (idx, pos, q) (find rot pick S cell P tol rtol hints) -> NoDup idx.
Proof.
  intros H. unfold domain_b in H. repeat (apply andb_prop in H; let H' := fresh "D" in destruct H as [H H']).
  apply Z.leb_le in H. apply Z.ltb_lt in D3. apply Z.leb_le in D2.
  apply (find_distinct S cell P tol R H D3 D2 (diam_b_spec P R D1)); [|apply wide_b_spec; exact D].
  intros i j Hji Hi. apply sep_list_spec; [exact D0|exact Hji|unfold Ppos; rewrite map_length; exact Hi].
Qed.
Example distinct_domain_nonvacuous :
  domain_b ((40960, 0, 0), (8192, 40960, 0), (-4096, 6144, 40960)) [(6%nat, (0, 0, 0)); (7%nat, (5120, 0, 0)); (8%nat, (5120, 4096, 1024))] {| tn := 4096; td := 20 |} 6700 = true.
Proof. vm_compute. reflexivity. Qed.
