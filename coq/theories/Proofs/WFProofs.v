(* Consistency invariant of Atoms objects and its preservation (C09) *)
From Coq Require Import List Arith Bool Lia ZArith.
From Mofun Require Import Lib.NP Model.Atoms Proofs.DelProofs Proofs.ExtProofs Proofs.ReplProofs.
Import ListNotations.

Definition tuples_in_range (n : nat) (k : kind) : Prop := Forall (fun t => Forall (fun v => v < n) t) (k_tup k).
Definition kind_ok (n : nat) (k : kind) : Prop := kind_sized k /\ tuples_in_range n k.
(* every per-atom array has one entry per atom; every term row has its type and extra fields; every term refers to existing atoms *)
Definition WF (a : atoms) : Prop :=
  atoms_sized a /\ kind_ok (natoms a) (bonds a) /\ kind_ok (natoms a) (angles a) /\
  kind_ok (natoms a) (dihedrals a) /\ kind_ok (natoms a) (impropers a).

(* ---------- deletion *)
Lemma np_delete_length_eq {A B} (a : list A) (b : list B) ds : length a = length b -> length (np_delete a ds) = length (np_delete b ds).
Proof. intros H. unfold np_delete. apply np_delete_from_length_eq. exact H. Qed.

Lemma ren_lt_new n ds v : NoDup ds -> v < n -> ~ In v ds -> ren ds v < length (keep n ds).
Proof.
  intros Hnd Hv Hn. pose proof (keep_sorted_count n ds v Hv Hn) as Hk. pose proof (count_kept_below ds v Hnd) as Hc.
  assert (Hr : ren ds v = length (filter (fun j => negb (memb j ds)) (seq 0 v))) by (unfold ren; lia).
  rewrite Hr. apply nth_error_Some. congruence.
Qed.

Lemma np_delete_length_keep {A} (l : list A) ds : length (np_delete l ds) = length (keep (length l) ds).
Proof. destruct l as [|x l]; [reflexivity|]. rewrite (np_delete_keep x). unfold np_take. apply map_length. Qed.

Lemma rows_sized k : kind_sized k -> map fst (rows k) = k_tup k.
Proof.
  intros [H1 H2]. unfold rows. generalize dependent (k_xf k). generalize dependent (k_typ k). induction (k_tup k) as [|t ts IH]; intros ty H1 xf H2; [reflexivity|].
  destruct ty as [|y ty]; [discriminate|]. destruct xf as [|x xf]; [discriminate|]. cbn. f_equal. apply IH; cbn in *; lia.
Qed.

Lemma kind_sized_of_rows k k' : kind_sized k -> length (k_typ k') = length (k_tup k') -> length (k_xf k') = length (k_tup k') -> kind_sized k'.
Proof. intros _ A B. split; assumption. Qed.

Lemma delitem_kind_sized ds k : kind_sized k -> kind_sized (delitem_kind ds k).
Proof.
  intros [H1 H2]. unfold delitem_kind. destruct (k_tup k) as [|t0 ts] eqn:E; [unfold kind_sized; rewrite E; split; assumption|].
  rewrite <- E in *. unfold delete_and_reindex. cbn [k_tup k_typ k_xf]. unfold kind_sized. cbn [k_tup k_typ k_xf].
  unfold reindex. rewrite fold_dec_above_map, map_length. split; apply np_delete_length_eq; assumption.
Qed.

Lemma delitem_kind_range n ds k : NoDup ds -> kind_sized k -> tuples_in_range n k ->
  tuples_in_range (length (keep n ds)) (delitem_kind ds k).
Proof.
  intros Hnd Hs Hr. unfold tuples_in_range in *.
  pose proof (delitem_kind_rows ds k Hnd Hs) as R. pose proof (rows_sized _ (delitem_kind_sized ds k Hs)) as F.
  rewrite <- F, R, map_map. cbn [fst]. apply Forall_forall. intros t Ht. apply in_map_iff in Ht. destruct Ht as [r [<- Hr']].
  apply filter_In in Hr'. destruct Hr' as [Hin Hnt]. apply negb_true_iff in Hnt.
  assert (Hin' : In (fst r) (k_tup k)). { rewrite <- (rows_sized k Hs). apply in_map. exact Hin. }
  rewrite Forall_forall in Hr. specialize (Hr _ Hin'). apply Forall_forall. intros v Hv. apply in_map_iff in Hv.
  destruct Hv as [w [<- Hw]]. rewrite Forall_forall in Hr. apply ren_lt_new; [exact Hnd|apply Hr; exact Hw|].
  apply (touches_false ds (fst r) Hnt w Hw).
Qed.

Lemma delitem_kind_ok n ds k : NoDup ds -> kind_ok n k -> kind_ok (length (keep n ds)) (delitem_kind ds k).
Proof. intros Hnd [Hs Hr]. split; [apply delitem_kind_sized; assumption|apply delitem_kind_range; assumption]. Qed.

Theorem WF_delitem a ds : WF a -> NoDup ds -> WF (delitem a ds).
Proof.
  intros [[S1 [S2 [S3 S4]]] [Kb [Ka [Kd Ki]]]] Hnd.
  assert (N : natoms (delitem a ds) = length (keep (natoms a) ds)) by (unfold natoms, delitem; cbn; apply np_delete_length_keep).
  unfold WF. rewrite N. split; [|split; [|split; [|split]]].
  - unfold atoms_sized. rewrite N. unfold delitem. cbn [a_typ a_chg a_grp a_xf]. rewrite !np_delete_length_keep, S1, S2, S3, S4. repeat split.
  - apply delitem_kind_ok; assumption.
  - apply delitem_kind_ok; assumption.
  - apply delitem_kind_ok; assumption.
  - apply delitem_kind_ok; assumption.
Qed.

(* ---------- extension *)
Lemma np_delete_from_Forall {A} (P : A -> Prop) (l : list A) ds : forall i, Forall P l -> Forall P (np_delete_from i l ds).
Proof. induction l as [|x l IH]; intros i H; cbn; [constructor|]. inversion H; subst. destruct (memb i ds); [apply IH; assumption|constructor; [assumption|apply IH; assumption]]. Qed.

Lemma extend_kind_sized off phi k ko : kind_sized k -> kind_sized ko -> kind_sized (extend_kind off phi k ko).
Proof.
  intros [S1 S2] [O1 O2]. unfold extend_kind. destruct (merge_xf (k_xl k) (k_xf k) (k_xl ko) (k_xf ko)) as [[nl xs] xo] eqn:E.
  assert (Lxs : length xs = length (k_xf k)). { pose proof (xf_self_length k ko) as L. unfold xf_self in L. rewrite E in L. exact L. }
  assert (Lxo : length xo = length (k_xf ko)). { pose proof (xf_other_length k ko) as L. unfold xf_other in L. rewrite E in L. exact L. }
  destruct (k_tup ko) as [|t0 ts] eqn:Et.
  - split; cbn [k_tup k_typ k_xf]; lia.
  - rewrite <- Et in *. split; cbn [k_tup k_typ k_xf]; apply np_delete_length_eq; rewrite !app_length, !map_length; lia.
Qed.

Lemma extend_kind_range n n' off phi k ko : n <= n' -> tuples_in_range n k ->
  Forall (fun t => Forall (fun v => phi v < n') t) (k_tup ko) -> tuples_in_range n' (extend_kind off phi k ko).
Proof.
  intros Hle Hr Hphi. unfold tuples_in_range, extend_kind in *.
  destruct (merge_xf (k_xl k) (k_xf k) (k_xl ko) (k_xf ko)) as [[nl xs] xo].
  assert (Hr' : Forall (fun t => Forall (fun v => v < n') t) (k_tup k)).
  { eapply Forall_impl; [|exact Hr]. intros t Ht. eapply Forall_impl; [|exact Ht]. intros v Hv. cbn in Hv. lia. }
  destruct (k_tup ko) as [|t0 ts] eqn:Et; cbn [k_tup]; [exact Hr'|]. rewrite <- Et in *.
  unfold np_delete. apply np_delete_from_Forall. apply Forall_app. split; [exact Hr'|].
  apply Forall_forall. intros t Ht. apply in_map_iff in Ht. destruct Ht as [u [<- Hu]]. rewrite Forall_forall in Hphi.
  specialize (Hphi u Hu). apply Forall_forall. intros v Hv. apply in_map_iff in Hv. destruct Hv as [w [<- Hw]].
  rewrite Forall_forall in Hphi. apply Hphi. exact Hw.
Qed.

Lemma assoc_in k m i : assoc k m = Some i -> In (k, i) m.
Proof.
  induction m as [|[k' v] m IH]; cbn; [discriminate|]. destruct (Nat.eqb k k') eqn:E.
  - intros H; injection H as <-. apply Nat.eqb_eq in E. subst. left; reflexivity.
  - intros H. right. apply IH. exact H.
Qed.
Lemma assoc_some_or_not k m : (exists i, assoc k m = Some i) \/ mem_key k m = false.
Proof.
  induction m as [|[k' v] m IH]; cbn; [right; reflexivity|]. destruct (Nat.eqb k k'); cbn; [left; eexists; reflexivity|exact IH].
Qed.

Definition map_ok (a : atoms) (m : list (nat * nat)) : Prop := forall k i, In (k, i) m -> i < natoms a.

Lemma phi_lt a o f m v : map_ok a m -> v < natoms o -> phi_of a o m v < natoms (extend_with a o f m).
Proof.
  intros Hm Hv. destruct (assoc_some_or_not v m) as [[i Hi]|Hn].
  - rewrite (phi_mapped a o m v i Hi). apply assoc_in in Hi. specialize (Hm _ _ Hi). rewrite extend_with_natoms. lia.
  - apply (phi_appended a o f m v Hv Hn).
Qed.

Lemma extend_kind_ok n n' off phi k ko : n <= n' -> kind_ok n k -> kind_sized ko ->
  Forall (fun t => Forall (fun v => phi v < n') t) (k_tup ko) -> kind_ok n' (extend_kind off phi k ko).
Proof. intros Hle [Hs Hr] Ho Hphi. split; [apply extend_kind_sized; assumption|apply (extend_kind_range n); assumption]. Qed.

Theorem WF_extend_with a o f m : WF a -> WF o -> map_ok a m -> WF (extend_with a o f m).
Proof.
  intros [[S1 [S2 [S3 S4]]] [Kb [Ka [Kd Ki]]]] [[T1 [T2 [T3 T4]]] [[Lb Qb] [[La Qa] [[Ld Qd] [Li Qi]]]]] Hm.
  pose proof (extend_with_natoms a o f m) as N.
  destruct (extend_with_atoms a o f m) as [Hp [Hc [Hg [Ht [_ [_ [_ [_ [_ [_ [Eb [Ea [Ed Ei]]]]]]]]]]]]]. cbv zeta in *.
  assert (PH : forall ko, tuples_in_range (natoms o) ko -> Forall (fun t => Forall (fun v => phi_of a o m v < natoms (extend_with a o f m)) t) (k_tup ko)).
  { intros ko H. eapply Forall_impl; [|exact H]. intros t Htt. eapply Forall_impl; [|exact Htt]. intros v Hv. cbn in Hv. apply phi_lt; assumption. }
  unfold WF. split; [|split; [|split; [|split]]].
  - unfold atoms_sized. rewrite N. rewrite Ht, Hc, Hg, !app_length, !map_length, fold_set_length, S1, S2, S3. repeat split.
    unfold extend_with. destruct (merge_xf (a_xl a) (a_xf a) (a_xl o) (a_xf o)) as [[nl xs] xo] eqn:E. cbn [a_xf].
    assert (Lxs : length xs = length (a_xf a)). { unfold merge_xf in E. injection E as _ <- _. apply map_length. }
    rewrite app_length. unfold np_take. rewrite map_length. fold (to_add_of o m). f_equal.
    destruct (negb (length nl =? 0) && negb (natoms a =? 0)); [|lia].
    change (fold_left (fun x kv => set_nth (snd kv) (nth (fst kv) xo []) x) m xs) with (fold_set (fun k => nth k xo []) m xs).
    rewrite (fold_set_length (fun k => nth k xo [])). lia.
  - rewrite Eb. apply (extend_kind_ok (natoms a)); [lia|assumption|assumption|apply PH; assumption].
  - rewrite Ea. apply (extend_kind_ok (natoms a)); [lia|assumption|assumption|apply PH; assumption].
  - rewrite Ed. apply (extend_kind_ok (natoms a)); [lia|assumption|assumption|apply PH; assumption].
  - rewrite Ei. apply (extend_kind_ok (natoms a)); [lia|assumption|assumption|apply PH; assumption].
Qed.

Lemma WF_extend_types a o : WF a -> WF (fst (extend_types a o)) /\ natoms (fst (extend_types a o)) = natoms a.
Proof. intros H. split; [|reflexivity]. exact H. Qed.

Theorem WF_extend a o offs m : WF a -> WF o -> map_ok a m -> WF (extend a o offs m).
Proof.
  intros Ha Ho Hm. unfold extend. destruct offs as [f|]; [apply WF_extend_with; assumption|].
  destruct (extend_types a o) as [a' f] eqn:E. apply WF_extend_with; [|assumption|].
  - pose proof (proj1 (WF_extend_types a o Ha)) as H. rewrite E in H. exact H.
  - pose proof (proj2 (WF_extend_types a o Ha)) as H. rewrite E in H. cbn [fst] in H. intros k i Hin. rewrite H. apply (Hm k i Hin).
Qed.

(* ---------- histories of deletions and extensions *)
Inductive hop := HDel (ds : list nat) | HExtend (o : atoms) (offs : option offsets) (m : list (nat * nat)).
Definition hstep (a : atoms) (h : hop) : atoms :=
  match h with HDel ds => delitem a ds | HExtend o offs m => extend a o offs m end.
Definition hpre (a : atoms) (h : hop) : Prop :=
  match h with HDel ds => NoDup ds | HExtend o _ m => WF o /\ map_ok a m end.
Fixpoint hpres (a : atoms) (hs : list hop) : Prop :=
  match hs with [] => True | h :: t => hpre a h /\ hpres (hstep a h) t end.

Theorem WF_history hs : forall a, WF a -> hpres a hs -> WF (fold_left hstep hs a).
Proof.
  induction hs as [|h hs IH]; intros a Ha Hp; [exact Ha|]. destruct Hp as [Hp Hps]. cbn [fold_left]. apply IH; [|exact Hps].
  destruct h as [ds|o offs m]; cbn [hstep hpre] in *; [apply WF_delitem; assumption|destruct Hp; apply WF_extend; assumption].
Qed.

(* ---------- meaning of atom type ids through extend_types *)
Lemma atom_table_resolve (t1 t2 : list Z) t d : nth (length t1 + t) (t1 ++ t2) d = nth t t2 d.
Proof. rewrite app_nth2 by lia. f_equal. lia. Qed.
