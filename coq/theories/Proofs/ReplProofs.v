(* Proofs about Atoms.replicate (C12) *)
From Coq Require Import List Arith Bool Lia ZArith.
From Mofun Require Import Lib.NP Model.Atoms Proofs.DelProofs Proofs.ExtProofs.
Import ListNotations.

Lemma map_nth_seq {A} (l : list A) d : map (fun i => nth i l d) (seq 0 (length l)) = l.
Proof.
  induction l as [|x l IH]; cbn; [reflexivity|]. f_equal. rewrite <- seq_shift, map_map. exact IH.
Qed.

Lemma to_add_nil o : to_add_of o [] = seq 0 (natoms o).
Proof. unfold to_add_of. cbn. induction (seq 0 (natoms o)) as [|x l IH]; cbn; [reflexivity|f_equal; exact IH]. Qed.

Definition sized (a : atoms) : Prop := atoms_sized a.

(* one replication step appends a translated copy of the original atoms with identical type, charge and group *)
Lemma extend_copy_atoms acc a d : sized a ->
  let r := extend acc (translate a d) (Some zero_offsets) [] in
  a_pos r = a_pos acc ++ map (fun p => vadd p d) (a_pos a) /\
  a_typ r = a_typ acc ++ a_typ a /\ a_chg r = a_chg acc ++ a_chg a /\ a_grp r = a_grp acc ++ a_grp a /\
  t_el r = t_el acc /\ t_mass r = t_mass acc /\ t_lab r = t_lab acc /\ t_pair r = t_pair acc /\ a_cell r = a_cell acc.
Proof.
  intros [H1 [H2 [H3 H4]]]. cbv zeta. unfold extend.
  destruct (extend_with_atoms acc (translate a d) zero_offsets []) as [Hp [Hc [Hg [Ht [_ [E1 [E2 [E3 [E4 [E5 _]]]]]]]]]].
  cbv zeta in *. rewrite to_add_nil in *.
  assert (N : natoms (translate a d) = natoms a) by (unfold natoms, translate; cbn; apply map_length).
  rewrite N in *. unfold natoms in *.
  repeat split; try assumption.
  - rewrite Hp. f_equal. cbn [translate a_pos]. rewrite <- (map_length (fun p => vadd p d) (a_pos a)). apply map_nth_seq.
  - rewrite Ht. cbn [fold_set fold_left translate a_typ o_atom zero_offsets]. f_equal.
    rewrite <- H1. rewrite (map_ext _ (fun i => nth i (a_typ a) 0)); [apply map_nth_seq|]. intros i. apply Nat.add_0_r.
  - rewrite Hc. f_equal. cbn [translate a_chg]. rewrite <- H2. apply map_nth_seq.
  - rewrite Hg. f_equal. cbn [translate a_grp]. rewrite <- H3. apply map_nth_seq.
Qed.

Definition offs_vec (c : mat) (m : nat * nat * nat) : vec := let '(i, j, k) := m in lattice c (Z.of_nat i) (Z.of_nat j) (Z.of_nat k).
Definition body (a : atoms) (c : mat) (ms : list (nat * nat * nat)) (acc : atoms) : atoms :=
  fold_left (fun acc m => let '(i, j, k) := m in
               extend acc (translate a (lattice c (Z.of_nat i) (Z.of_nat j) (Z.of_nat k))) (Some zero_offsets) []) ms acc.

Lemma body_atoms a c ms : sized a -> forall acc,
  let r := body a c ms acc in
  a_pos r = a_pos acc ++ flat_map (fun m => map (fun p => vadd p (offs_vec c m)) (a_pos a)) ms /\
  a_typ r = a_typ acc ++ flat_map (fun _ => a_typ a) ms /\
  a_chg r = a_chg acc ++ flat_map (fun _ => a_chg a) ms /\
  a_grp r = a_grp acc ++ flat_map (fun _ => a_grp a) ms /\
  t_el r = t_el acc /\ t_mass r = t_mass acc /\ t_lab r = t_lab acc /\ t_pair r = t_pair acc.
Proof.
  intros Hs. induction ms as [|[[i j] k] ms IH]; intros acc; cbv zeta.
  - cbn. rewrite !app_nil_r. repeat split.
  - cbn [body fold_left flat_map].
    destruct (extend_copy_atoms acc a (lattice c (Z.of_nat i) (Z.of_nat j) (Z.of_nat k)) Hs) as [P [T [C [Gp [E1 [E2 [E3 [E4 _]]]]]]]].
    cbv zeta in *. specialize (IH (extend acc (translate a (lattice c (Z.of_nat i) (Z.of_nat j) (Z.of_nat k))) (Some zero_offsets) [])).
    cbv zeta in IH. unfold body in IH. destruct IH as [P' [T' [C' [G' [F1 [F2 [F3 F4]]]]]]].
    rewrite P', T', C', G', F1, F2, F3, F4, P, T, C, Gp, E1, E2, E3, E4. rewrite <- !app_assoc. repeat split.
Qed.

(* the multiplier triples: every (i,j,k) with i<ra, j<rb, k<rc exactly once, (0,0,0) first *)
Definition all_mults (r : nat * nat * nat) : list (nat * nat * nat) := (0, 0, 0) :: ucmults r.

Lemma in_ucmults r i j k : In (i, j, k) (ucmults r) <-> (let '(ra, rb, rc) := r in i < ra /\ j < rb /\ k < rc) /\ (i, j, k) <> (0, 0, 0).
Proof.
  destruct r as [[ra rb] rc]. unfold ucmults. rewrite filter_In, in_flat_map. split.
  - intros [[k' [Hk Hin]] Hnz]. apply in_flat_map in Hin. destruct Hin as [i' [Hi Hin]]. apply in_map_iff in Hin.
    destruct Hin as [j' [E Hj]]. injection E as <- <- <-. apply in_seq in Hk, Hi, Hj. split; [lia|].
    intros E. injection E as -> -> ->. cbn in Hnz. discriminate.
  - intros [[Hi [Hj Hk]] Hnz]. split.
    + exists k. split; [apply in_seq; lia|]. apply in_flat_map. exists i. split; [apply in_seq; lia|]. apply in_map_iff. exists j.
      split; [reflexivity|apply in_seq; lia].
    + unfold nonzero3. destruct i, j, k; cbn; try reflexivity. exfalso. apply Hnz. reflexivity.
Qed.

Lemma in_all_mults r i j k : 0 < fst (fst r) -> 0 < snd (fst r) -> 0 < snd r ->
  (In (i, j, k) (all_mults r) <-> (let '(ra, rb, rc) := r in i < ra /\ j < rb /\ k < rc)).
Proof.
  destruct r as [[ra rb] rc]. cbn [fst snd]. intros Ha Hb Hc. unfold all_mults. cbn [In]. rewrite in_ucmults. split.
  - intros [E|[H _]]; [injection E as <- <- <-; lia|exact H].
  - intros H. destruct (Nat.eq_dec i 0) as [->|Hi]; [destruct (Nat.eq_dec j 0) as [->|Hj]; [destruct (Nat.eq_dec k 0) as [->|Hk]|]|].
    + left; reflexivity.
    + right. split; [exact H|]. intros E; injection E as E; lia.
    + right. split; [exact H|]. intros E; injection E as E E'; lia.
    + right. split; [exact H|]. intros E; injection E as E E' E''; lia.
Qed.

Lemma NoDup_map_inj {A B} (f : A -> B) l : (forall x y, In x l -> In y l -> f x = f y -> x = y) -> NoDup l -> NoDup (map f l).
Proof.
  intros Hinj Hnd. induction Hnd as [|x l Hni Hnd IH]; cbn; constructor.
  - intros Hin. apply in_map_iff in Hin. destruct Hin as [y [E Hy]]. apply Hni.
    rewrite (Hinj x y (or_introl eq_refl) (or_intror Hy) (eq_sym E)). exact Hy.
  - apply IH. intros a b Ha Hb. apply Hinj; right; assumption.
Qed.

Lemma NoDup_app_intro {A} (l1 l2 : list A) : NoDup l1 -> NoDup l2 -> (forall x, In x l1 -> ~ In x l2) -> NoDup (l1 ++ l2).
Proof.
  intros H1 H2 H. induction H1 as [|x l Hni Hnd IH]; cbn; [exact H2|]. constructor.
  - rewrite in_app_iff. intros [Hin|Hin]; [contradiction|]. apply (H x (or_introl eq_refl) Hin).
  - apply IH. intros y Hy. apply H. right; exact Hy.
Qed.
Lemma NoDup_flat_map {A B} (f : A -> list B) l : NoDup l -> (forall x, In x l -> NoDup (f x)) ->
  (forall x y b, In x l -> In y l -> In b (f x) -> In b (f y) -> x = y) -> NoDup (flat_map f l).
Proof.
  intros Hnd Hf Hd. induction Hnd as [|x l Hni Hnd IH]; cbn; [constructor|].
  apply NoDup_app_intro.
  - apply Hf. left; reflexivity.
  - apply IH; [intros y Hy; apply Hf; right; exact Hy|intros a b c Ha Hb; apply Hd; right; assumption].
  - intros b Hb Hin. apply in_flat_map in Hin. destruct Hin as [y [Hy Hby]].
    assert (x = y) by (apply (Hd x y b); [left; reflexivity|right; exact Hy|exact Hb|exact Hby]). subst. contradiction.
Qed.
Lemma NoDup_filter {A} (p : A -> bool) l : NoDup l -> NoDup (filter p l).
Proof. induction 1 as [|x l Hni Hnd IH]; cbn; [constructor|]. destruct (p x); [constructor; [rewrite filter_In; tauto|exact IH]|exact IH]. Qed.

Lemma ucmults_nodup r : NoDup (all_mults r).
Proof.
  destruct r as [[ra rb] rc]. unfold all_mults. constructor.
  - intros H. apply in_ucmults in H. destruct H as [_ H]. apply H. reflexivity.
  - unfold ucmults. apply NoDup_filter. apply NoDup_flat_map; [apply seq_NoDup| |].
    + intros k _. apply NoDup_flat_map; [apply seq_NoDup| |].
      * intros i _. apply NoDup_map_inj; [|apply seq_NoDup]. intros x y _ _ E. injection E as E. exact E.
      * intros x y b _ _ Hx Hy. apply in_map_iff in Hx, Hy. destruct Hx as [j1 [<- _]]. destruct Hy as [j2 [E _]]. injection E as E _. symmetry; exact E.
    + intros x y b _ _ Hx Hy. apply in_flat_map in Hx, Hy. destruct Hx as [i1 [_ Hx]]. destruct Hy as [i2 [_ Hy]].
      apply in_map_iff in Hx, Hy. destruct Hx as [j1 [<- _]]. destruct Hy as [j2 [E _]]. injection E as _ _ E. symmetry; exact E.
Qed.

Lemma vadd_zero p : vadd p (0, 0, 0)%Z = p.
Proof. destruct p as [[x y] z]. cbn. rewrite !Z.add_0_r. reflexivity. Qed.
Lemma lattice_zero c : lattice c 0 0 0 = (0, 0, 0)%Z.
Proof. destruct c as [[[[a b] c0] [[d e] f]] [[g h] i]]. reflexivity. Qed.

Theorem replicate_spec a c r : a_cell a = Some c -> sized a ->
  exists R, replicate a r = Some R /\
  a_pos R = flat_map (fun m => map (fun p => vadd p (offs_vec c m)) (a_pos a)) (all_mults r) /\
  a_typ R = flat_map (fun _ => a_typ a) (all_mults r) /\
  a_chg R = flat_map (fun _ => a_chg a) (all_mults r) /\
  a_grp R = flat_map (fun _ => a_grp a) (all_mults r) /\
  t_el R = t_el a /\ t_mass R = t_mass a /\ t_lab R = t_lab a /\ t_pair R = t_pair a /\
  a_cell R = Some (scale_rows c r).
Proof.
  intros Hc Hs. unfold replicate. rewrite Hc. eexists. split; [reflexivity|].
  destruct (body_atoms a c (ucmults r) Hs a) as [P [T [C [Gp [E1 [E2 [E3 E4]]]]]]]. cbv zeta in *. unfold body in *.
  unfold all_mults. cbn [flat_map set_cell a_pos a_typ a_chg a_grp t_el t_mass t_lab t_pair a_cell].
  rewrite P, T, C, Gp, E1, E2, E3, E4. repeat split.
  f_equal. cbn [offs_vec]. change (Z.of_nat 0) with 0%Z. rewrite lattice_zero.
  rewrite (map_ext _ (fun p => p)) by (intros p; apply vadd_zero). symmetry. apply map_id.
Qed.

(* 1x1x1 replication is the identity *)
Lemma vscale_one v : vscale 1 v = v.
Proof. destruct v as [[x y] z]. unfold vscale. rewrite !Z.mul_1_l. reflexivity. Qed.
Theorem replicate_111 a c : a_cell a = Some c -> replicate a (1, 1, 1) = Some a.
Proof.
  intros Hc. unfold replicate. rewrite Hc. cbn [ucmults seq flat_map map filter nonzero3 Nat.eqb andb negb fold_left app].
  unfold set_cell, scale_rows. destruct c as [[c0 c1] c2]. change (Z.of_nat 1) with 1%Z. rewrite !vscale_one.
  destruct a; cbn in *. rewrite Hc. reflexivity.
Qed.

(* one replication step, terms: when the accumulated structure's tuples only refer to atoms below n = natoms acc, the shifted
   copies never coincide with an existing tuple (forwards or reversed), so nothing is superseded: rows = old rows ++ shifted copy *)
Lemma not_overridden_shift n (new : list (list nat)) t :
  t <> [] -> Forall (fun v => v < n) t -> Forall (fun u => Forall (fun v => n <= v) u) new -> overridden new t = false.
Proof.
  intros Hne Ht Hnew. unfold overridden. apply orb_false_iff. split.
  - destruct (existsb (fun n0 => list_nat_eqb t n0) new) eqn:E; [|reflexivity]. exfalso.
    apply existsb_exists in E. destruct E as [u [Hu E]]. rewrite Forall_forall in Hnew. specialize (Hnew u Hu).
    destruct t as [|v t]; [contradiction|]. destruct u as [|w u]; [discriminate|]. cbn in E. apply andb_true_iff in E.
    destruct E as [E _]. apply Nat.eqb_eq in E. subst. inversion Ht; inversion Hnew; subst. lia.
  - destruct (existsb (fun n0 => list_nat_eqb t (rev n0)) new) eqn:E; [|reflexivity]. exfalso.
    apply existsb_exists in E. destruct E as [u [Hu E]]. rewrite Forall_forall in Hnew. specialize (Hnew u Hu).
    assert (Hr : Forall (fun v => n <= v) (rev u)) by (apply Forall_rev; exact Hnew).
    destruct t as [|v t]; [contradiction|]. destruct (rev u) as [|w u']; [discriminate|]. cbn in E. apply andb_true_iff in E.
    destruct E as [E _]. apply Nat.eqb_eq in E. subst. inversion Ht; inversion Hr; subst. lia.
Qed.

(* ---------- the infinite crystal is unchanged *)
Definition in_crystal (c : mat) (P : list vec) (x : vec) : Prop :=
  exists p, In p P /\ exists i j k : Z, x = vadd p (lattice c i j k).

Lemma vec_eq (a b c a' b' c' : Z) : a = a' -> b = b' -> c = c' -> (a, b, c) = (a', b', c').
Proof. intros; subst; reflexivity. Qed.

Lemma lattice_scaled c ra rb rc i j k :
  lattice (scale_rows c (ra, rb, rc)) i j k = lattice c (Z.of_nat ra * i) (Z.of_nat rb * j) (Z.of_nat rc * k).
Proof.
  destruct c as [[[[a b] c0] [[d e] f]] [[g h] l]]. unfold scale_rows, lattice, vscale, vadd. apply vec_eq; ring.
Qed.
Lemma lattice_add c i j k i' j' k' :
  vadd (lattice c i j k) (lattice c i' j' k') = lattice c (i + i') (j + j') (k + k').
Proof.
  destruct c as [[[[a b] c0] [[d e] f]] [[g h] l]]. unfold lattice, vscale, vadd. apply vec_eq; ring.
Qed.
Lemma vadd_assoc p q r : vadd (vadd p q) r = vadd p (vadd q r).
Proof. destruct p as [[a b] c], q as [[d e] f], r as [[g h] i]. unfold vadd. apply vec_eq; ring. Qed.

Theorem replicate_same_crystal a c ra rb rc R : a_cell a = Some c -> sized a -> 0 < ra -> 0 < rb -> 0 < rc ->
  replicate a (ra, rb, rc) = Some R ->
  forall x, in_crystal (scale_rows c (ra, rb, rc)) (a_pos R) x <-> in_crystal c (a_pos a) x.
Proof.
  intros Hc Hs Ha Hb Hcc HR x.
  destruct (replicate_spec a c (ra, rb, rc) Hc Hs) as [R' [HR' [P _]]]. rewrite HR in HR'. injection HR' as <-.
  unfold in_crystal. rewrite P. split.
  - intros [p [Hp [i [j [k ->]]]]]. apply in_flat_map in Hp. destruct Hp as [[[mi mj] mk] [Hm Hp]].
    apply in_map_iff in Hp. destruct Hp as [p0 [<- Hp0]]. exists p0. split; [exact Hp0|].
    exists (Z.of_nat mi + Z.of_nat ra * i)%Z, (Z.of_nat mj + Z.of_nat rb * j)%Z, (Z.of_nat mk + Z.of_nat rc * k)%Z.
    rewrite lattice_scaled, vadd_assoc. cbn [offs_vec]. rewrite lattice_add. reflexivity.
  - intros [p [Hp [i [j [k ->]]]]].
    set (A := Z.of_nat ra). set (B := Z.of_nat rb). set (C := Z.of_nat rc).
    assert (HA : (0 < A)%Z) by (unfold A; lia). assert (HB : (0 < B)%Z) by (unfold B; lia). assert (HC : (0 < C)%Z) by (unfold C; lia).
    pose proof (Z.mod_pos_bound i A HA) as Mi. pose proof (Z.mod_pos_bound j B HB) as Mj. pose proof (Z.mod_pos_bound k C HC) as Mk.
    pose proof (Z.div_mod i A ltac:(lia)) as Di. pose proof (Z.div_mod j B ltac:(lia)) as Dj. pose proof (Z.div_mod k C ltac:(lia)) as Dk.
    exists (vadd p (offs_vec c (Z.to_nat (i mod A), Z.to_nat (j mod B), Z.to_nat (k mod C)))). split.
    + apply in_flat_map. exists (Z.to_nat (i mod A), Z.to_nat (j mod B), Z.to_nat (k mod C)). split.
      * apply in_all_mults; cbn [fst snd]; try assumption. unfold A, B, C in *. lia.
      * apply in_map_iff. exists p. split; [reflexivity|exact Hp].
    + exists (i / A)%Z, (j / B)%Z, (k / C)%Z. rewrite lattice_scaled, vadd_assoc. cbn [offs_vec]. rewrite !Z2Nat.id by lia.
      rewrite lattice_add. fold A B C. f_equal. f_equal; lia.
Qed.
