(* Proofs about the bond-detection model (C17) *)
From Coq Require Import ZArith List Bool String Lia Arith Sorted.
From Mofun Require Import Model.Atoms Model.Geom Model.Bonds.
Import ListNotations.
Open Scope Z_scope.

(* ---------- the 27 neighbour offsets are enough ---------- *)
Definition det3 (c : mat) : Z := let '(c0, c1, c2) := c in dot c0 (cross c1 c2).

Lemma lagrange v u : n2 v * n2 u = dot v u * dot v u + n2 (cross v u).
Proof. destruct v as [[a b] c], u as [[d e] f]. unfold n2, dot, cross. ring. Qed.
Lemma n2_nonneg v : 0 <= n2 v.
Proof. destruct v as [[a b] c]. unfold n2, dot. pose proof (Z.square_nonneg a). pose proof (Z.square_nonneg b). pose proof (Z.square_nonneg c). lia. Qed.
Lemma cauchy_schwarz v u : dot v u * dot v u <= n2 v * n2 u.
Proof. rewrite lagrange. pose proof (n2_nonneg (cross v u)). lia. Qed.

Lemma sq_lt_abs x D : 0 < D -> x * x < D * D -> - D < x < D.
Proof.
  intros HD H. split.
  - destruct (Z_lt_le_dec (- D) x) as [|Hle]; [assumption|]. exfalso.
    assert (D * D <= (- x) * (- x)) by (apply Z.mul_le_mono_nonneg; lia). lia.
  - destruct (Z_lt_le_dec x D) as [|Hle]; [assumption|]. exfalso.
    assert (D * D <= x * x) by (apply Z.mul_le_mono_nonneg; lia). lia.
Qed.

(* one axis: u is the normal of the two other cell vectors, Dt = c_axis . u the (positive) cell volume; if both atoms lie inside the cell
   along this axis (0 <= x.u < Dt) and the image distance is below the perpendicular width (|v|^2 |u|^2 < Dt^2), the lattice coefficient
   along this axis is -1, 0 or 1 *)
Lemma coeff_small (x y u : vec) (Dt n other : Z) :
  0 < Dt -> 0 <= dot x u < Dt -> 0 <= dot y u < Dt ->
  let v := dot x u - dot y u + n * Dt in
  v * v < Dt * Dt -> -1 <= n <= 1.
Proof.
  intros HD Hx Hy v Hv. pose proof (sq_lt_abs v Dt HD Hv) as [A B]. unfold v in *.
  split.
  - destruct (Z_lt_le_dec n (-1)) as [Hn|]; [|lia]. exfalso. assert (n * Dt <= -2 * Dt) by (apply Z.mul_le_mono_nonneg_r; lia). lia.
  - destruct (Z_lt_le_dec 1 n) as [Hn|]; [|lia]. exfalso. assert (2 * Dt <= n * Dt) by (apply Z.mul_le_mono_nonneg_r; lia). lia.
Qed.

Lemma dot_vadd_l a b u : dot (vadd a b) u = dot a u + dot b u.
Proof. destruct a as [[a1 a2] a3], b as [[b1 b2] b3], u as [[u1 u2] u3]. unfold dot, vadd. ring. Qed.
Lemma dot_vsub_l a b u : dot (vsub a b) u = dot a u - dot b u.
Proof. destruct a as [[a1 a2] a3], b as [[b1 b2] b3], u as [[u1 u2] u3]. unfold dot, vsub. ring. Qed.

(* the three dual directions of a cell *)
Definition dual0 (c : mat) : vec := let '(c0, c1, c2) := c in cross c1 c2.
Definition dual1 (c : mat) : vec := let '(c0, c1, c2) := c in cross c2 c0.
Definition dual2 (c : mat) : vec := let '(c0, c1, c2) := c in cross c0 c1.

Lemma dot_lattice_dual0 c i j k : dot (lattice c i j k) (dual0 c) = i * det3 c.
Proof. destruct c as [[[[a b] c0] [[d e] f]] [[g h] l]]. unfold lattice, dual0, det3, dot, cross, vadd, vscale. ring. Qed.
Lemma dot_lattice_dual1 c i j k : dot (lattice c i j k) (dual1 c) = j * det3 c.
Proof. destruct c as [[[[a b] c0] [[d e] f]] [[g h] l]]. unfold lattice, dual1, det3, dot, cross, vadd, vscale. ring. Qed.
Lemma dot_lattice_dual2 c i j k : dot (lattice c i j k) (dual2 c) = k * det3 c.
Proof. destruct c as [[[[a b] c0] [[d e] f]] [[g h] l]]. unfold lattice, dual2, det3, dot, cross, vadd, vscale. ring. Qed.

(* atom inside the cell: fractional coordinates in [0,1), stated with Cramer's rule (no division) *)
Definition inside (c : mat) (x : vec) : Prop :=
  0 <= dot x (dual0 c) < det3 c /\ 0 <= dot x (dual1 c) < det3 c /\ 0 <= dot x (dual2 c) < det3 c.
(* the image distance d2 is below every perpendicular width of the cell *)
Definition below_widths (c : mat) (d2v : Z) : Prop :=
  d2v * n2 (dual0 c) < det3 c * det3 c /\ d2v * n2 (dual1 c) < det3 c * det3 c /\ d2v * n2 (dual2 c) < det3 c * det3 c.

Lemma axis_bound (c : mat) (x y u : vec) (n : Z) (lat : vec) :
  0 < det3 c -> 0 <= dot x u < det3 c -> 0 <= dot y u < det3 c -> dot lat u = n * det3 c ->
  d2 (vadd x lat) y * n2 u < det3 c * det3 c -> -1 <= n <= 1.
Proof.
  intros HD Hx Hy Hl Hd. apply (coeff_small x y u (det3 c) n 0 HD Hx Hy). cbv zeta.
  pose proof (cauchy_schwarz (vsub (vadd x lat) y) u) as CS. unfold d2 in Hd.
  rewrite dot_vsub_l, dot_vadd_l, Hl in CS. lia.
Qed.

Theorem images27_suffice c x y i j k :
  0 < det3 c -> inside c x -> inside c y -> below_widths c (d2 (vadd x (lattice c i j k)) y) ->
  -1 <= i <= 1 /\ -1 <= j <= 1 /\ -1 <= k <= 1.
Proof.
  intros HD [X0 [X1 X2]] [Y0 [Y1 Y2]] [W0 [W1 W2]]. repeat split.
  - apply (axis_bound c x y (dual0 c) i (lattice c i j k) HD X0 Y0 (dot_lattice_dual0 c i j k) W0).
  - apply (axis_bound c x y (dual0 c) i (lattice c i j k) HD X0 Y0 (dot_lattice_dual0 c i j k) W0).
  - apply (axis_bound c x y (dual1 c) j (lattice c i j k) HD X1 Y1 (dot_lattice_dual1 c i j k) W1).
  - apply (axis_bound c x y (dual1 c) j (lattice c i j k) HD X1 Y1 (dot_lattice_dual1 c i j k) W1).
  - apply (axis_bound c x y (dual2 c) k (lattice c i j k) HD X2 Y2 (dot_lattice_dual2 c i j k) W2).
  - apply (axis_bound c x y (dual2 c) k (lattice c i j k) HD X2 Y2 (dot_lattice_dual2 c i j k) W2).
Qed.

Lemma lattice_zero' c : lattice c 0 0 0 = (0, 0, 0).
Proof. destruct c as [[[[a b] c0] [[d e] f]] [[g h] l]]. reflexivity. Qed.

Lemma in_offsets27 c i j k : -1 <= i <= 1 -> -1 <= j <= 1 -> -1 <= k <= 1 -> In (lattice c i j k) (offsets27 c).
Proof.
  intros Hi Hj Hk.
  assert (Ei : i = -1 \/ i = 0 \/ i = 1) by lia. assert (Ej : j = -1 \/ j = 0 \/ j = 1) by lia. assert (Ek : k = -1 \/ k = 0 \/ k = 1) by lia.
  unfold offsets27, m11. cbn [flat_map app Z.eqb andb].
  destruct Ei as [Ei|[Ei|Ei]]; destruct Ej as [Ej|[Ej|Ej]]; destruct Ek as [Ek|[Ek|Ek]]; subst i j k; cbn [In]; rewrite ?lattice_zero'; tauto.
Qed.

(* the minimum-image rule: some lattice translate of x is within the cutoff of y  <->  one of the 27 neighbour translates is *)
Theorem min_image_27 c x y (p : Z -> bool) :
  0 < det3 c -> inside c x -> inside c y ->
  (forall d, p d = true -> d * n2 (dual0 c) < det3 c * det3 c /\ d * n2 (dual1 c) < det3 c * det3 c /\ d * n2 (dual2 c) < det3 c * det3 c) ->
  ((exists i j k : Z, p (d2 (vadd x (lattice c i j k)) y) = true) <->
   existsb (fun o => p (d2 (vadd x o) y)) (offsets27 c) = true).
Proof.
  intros HD Hx Hy Hp. split.
  - intros [i [j [k H]]]. apply existsb_exists. exists (lattice c i j k). split; [|exact H].
    destruct (images27_suffice c x y i j k HD Hx Hy (Hp _ H)) as [Hi [Hj Hk]]. apply in_offsets27; assumption.
  - intros H. apply existsb_exists in H. destruct H as [o [Ho H]].
    assert (exists i j k, o = lattice c i j k) as [i [j [k ->]]].
    { unfold offsets27, m11 in Ho. cbn [flat_map app Z.eqb andb In] in Ho.
      repeat (destruct Ho as [<-|Ho]; [first [exists 0, 0, 0; symmetry; apply lattice_zero' | eexists; eexists; eexists; reflexivity]|]). destruct Ho. }
    exists i, j, k. exact H.
Qed.

(* ---------- detect returns exactly the bonded pairs i<j, each once, in lexicographic order ---------- *)
Section Spec.
Variable radii : list (string * Z).
Variable non_metals : list string.
Variable U : Z.
Notation bonded := (bonded radii non_metals U).

Lemma pairs_from_spec cell i a : forall rest j l, pairs_from radii non_metals U cell i a j rest = Some l ->
  forall p q, In (p, q) l <-> p = i /\ exists b, nth_error rest (Nat.sub q j) = Some b /\ (j <= q)%nat /\ bonded cell a b = Some true.
Proof.
  induction rest as [|b rest IH]; intros j l H p q; cbn [pairs_from] in H.
  - injection H as <-. split; [intros []|intros [_ [b [Hb _]]]]. destruct (q - j)%nat; discriminate.
  - destruct (bonded cell a b) as [hit|] eqn:Eb; [|discriminate].
    destruct (pairs_from radii non_metals U cell i a (S j) rest) as [tl|] eqn:Et; [|discriminate]. injection H as <-.
    specialize (IH (S j) tl Et p q). split.
    + intros Hin. assert (Hc : (hit = true /\ (p, q) = (i, j)) \/ In (p, q) tl) by (destruct hit; [destruct Hin as [E|Hin]; [left; split; [reflexivity|symmetry; exact E]|right; exact Hin]|right; exact Hin]).
      destruct Hc as [[-> E]|Hin'].
      * injection E as -> ->. split; [reflexivity|]. exists b. rewrite Nat.sub_diag. repeat split; [lia|exact Eb].
      * apply IH in Hin'. destruct Hin' as [-> [b' [Hb' [Hq Hbd]]]]. split; [reflexivity|]. exists b'.
        replace (q - j)%nat with (S (q - S j)) by lia. repeat split; [exact Hb'|lia|exact Hbd].
    + intros [-> [b' [Hb' [Hq Hbd]]]]. destruct (Nat.eq_dec q j) as [->|Hne].
      * rewrite Nat.sub_diag in Hb'. cbn in Hb'. injection Hb' as <-. rewrite Hbd in Eb. injection Eb as <-. left; reflexivity.
      * assert (Hin' : In (i, q) tl). { apply IH. split; [reflexivity|]. exists b'. replace (q - j)%nat with (S (q - S j)) in Hb' by lia. repeat split; [exact Hb'|lia|exact Hbd]. }
        destruct hit; [right|]; exact Hin'.
Qed.

Theorem detect_from_spec cell : forall atoms s l, detect_from radii non_metals U cell s atoms = Some l ->
  forall p q, In (p, q) l <-> (s <= p < q)%nat /\ exists a b, nth_error atoms (p - s) = Some a /\ nth_error atoms (q - s) = Some b /\ bonded cell a b = Some true.
Proof.
  induction atoms as [|a rest IH]; intros s l H p q; cbn [detect_from] in H.
  - injection H as <-. split; [intros []|intros [_ [a [b [Ha _]]]]]. destruct (p - s)%nat; discriminate.
  - destruct (pairs_from radii non_metals U cell s a (S s) rest) as [l1|] eqn:E1; [|discriminate].
    destruct (detect_from radii non_metals U cell (S s) rest) as [l2|] eqn:E2; [|discriminate]. injection H as <-.
    rewrite in_app_iff. rewrite (pairs_from_spec cell s a rest (S s) l1 E1 p q). rewrite (IH (S s) l2 E2 p q). split.
    + intros [[-> [b [Hb [Hq Hbd]]]]|[Hr [a' [b' [Ha' [Hb' Hbd]]]]]].
      * split; [lia|]. exists a, b. rewrite Nat.sub_diag. cbn [nth_error]. replace (q - s)%nat with (S (q - S s)) by lia. repeat split; assumption.
      * split; [lia|]. exists a', b'. replace (p - s)%nat with (S (p - S s)) by lia. replace (q - s)%nat with (S (q - S s)) by lia. repeat split; assumption.
    + intros [Hr [a' [b' [Ha' [Hb' Hbd]]]]]. destruct (Nat.eq_dec p s) as [->|Hne].
      * left. split; [reflexivity|]. rewrite Nat.sub_diag in Ha'. cbn in Ha'. injection Ha' as <-. exists b'.
        replace (q - s)%nat with (S (q - S s)) in Hb' by lia. repeat split; [exact Hb'|lia|exact Hbd].
      * right. split; [lia|]. exists a', b'. replace (p - s)%nat with (S (p - S s)) in Ha' by lia. replace (q - s)%nat with (S (q - S s)) in Hb' by lia.
        repeat split; assumption.
Qed.

Theorem detect_spec cell atoms l : detect radii non_metals U cell atoms = Some l ->
  forall p q, In (p, q) l <-> (p < q)%nat /\ exists a b, nth_error atoms p = Some a /\ nth_error atoms q = Some b /\ bonded cell a b = Some true.
Proof.
  intros H p q. unfold detect in H. rewrite (detect_from_spec cell atoms 0%nat l H p q).
  rewrite !Nat.sub_0_r. split; intros [A B]; (split; [lia|exact B]).
Qed.
(* the output is strictly increasing in lexicographic order: in particular every pair is reported once *)
Definition pair_lt (x y : nat * nat) : Prop := (fst x < fst y)%nat \/ (fst x = fst y /\ (snd x < snd y)%nat).
Lemma pairs_from_sorted cell i a : forall rest j l, pairs_from radii non_metals U cell i a j rest = Some l ->
  StronglySorted pair_lt l /\ Forall (fun x => fst x = i /\ (j <= snd x)%nat) l.
Proof.
  induction rest as [|b rest IH]; intros j l H; cbn [pairs_from] in H.
  - injection H as <-. split; constructor.
  - destruct (bonded cell a b) as [hit|]; [|discriminate].
    destruct (pairs_from radii non_metals U cell i a (S j) rest) as [tl|] eqn:Et; [|discriminate]. injection H as <-.
    destruct (IH (S j) tl Et) as [S1 F1].
    assert (F2 : Forall (fun x => fst x = i /\ (j <= snd x)%nat) tl) by (eapply Forall_impl; [|exact F1]; cbn; intros x [A B]; split; [exact A|lia]).
    destruct hit; [|split; assumption]. split.
    + constructor; [exact S1|]. eapply Forall_impl; [|exact F1]. cbn. intros x [A B]. right. cbn. split; [symmetry; exact A|lia].
    + constructor; [cbn; split; [reflexivity|lia]|exact F2].
Qed.
Lemma StronglySorted_app {A} (R : A -> A -> Prop) l1 l2 : StronglySorted R l1 -> StronglySorted R l2 ->
  (forall x y, In x l1 -> In y l2 -> R x y) -> StronglySorted R (l1 ++ l2).
Proof.
  induction l1 as [|x l1 IH]; intros S1 S2 H; [exact S2|]. inversion S1 as [|? ? Sl Fx]; subst. cbn. constructor.
  - apply IH; [exact Sl|exact S2|]. intros a b Ha Hb. apply H; [right; exact Ha|exact Hb].
  - apply Forall_app. split; [exact Fx|]. apply Forall_forall. intros y Hy. apply H; [left; reflexivity|exact Hy].
Qed.
Lemma detect_from_sorted cell : forall atoms s l, detect_from radii non_metals U cell s atoms = Some l ->
  StronglySorted pair_lt l /\ Forall (fun x => (s <= fst x)%nat) l.
Proof.
  induction atoms as [|a rest IH]; intros s l H; cbn [detect_from] in H.
  - injection H as <-. split; constructor.
  - destruct (pairs_from radii non_metals U cell s a (S s) rest) as [l1|] eqn:E1; [|discriminate].
    destruct (detect_from radii non_metals U cell (S s) rest) as [l2|] eqn:E2; [|discriminate]. injection H as <-.
    destruct (pairs_from_sorted cell s a rest (S s) l1 E1) as [S1 F1]. destruct (IH (S s) l2 E2) as [S2 F2]. split.
    + apply StronglySorted_app; [exact S1|exact S2|]. intros x y Hx Hy. rewrite Forall_forall in F1, F2. destruct (F1 x Hx) as [A _]. specialize (F2 y Hy).
      left. cbn in *. lia.
    + apply Forall_app. split; [eapply Forall_impl; [|exact F1]; cbn; intros x [A _]; lia|eapply Forall_impl; [|exact F2]; cbn; intros x A; lia].
Qed.
Lemma pair_lt_irrefl x : ~ pair_lt x x.
Proof. unfold pair_lt. lia. Qed.
Lemma sorted_NoDup (l : list (nat * nat)) : StronglySorted pair_lt l -> NoDup l.
Proof.
  induction 1 as [|x l Sl IH Fx]; constructor; [|exact IH]. intros Hin. rewrite Forall_forall in Fx. apply (pair_lt_irrefl x). apply Fx. exact Hin.
Qed.
Theorem detect_sorted cell atoms l : detect radii non_metals U cell atoms = Some l -> StronglySorted pair_lt l /\ NoDup l.
Proof. intros H. destruct (detect_from_sorted cell atoms 0%nat l H) as [S _]. split; [exact S|apply sorted_NoDup; exact S]. Qed.
End Spec.


(* ---------- invariance of the minimum-image criterion under a common shift and per-atom lattice translations ---------- *)

Lemma d2_shift c x y t a1 a2 a3 b1 b2 b3 i j k :
  d2 (vadd (vadd (vadd x t) (lattice c a1 a2 a3)) (lattice c i j k)) (vadd (vadd y t) (lattice c b1 b2 b3)) =
  d2 (vadd x (lattice c (i + a1 - b1) (j + a2 - b2) (k + a3 - b3))) y.
Proof.
  destruct c as [[[[ca cb] cc] [[cd ce] cf]] [[cg ch] cl]]. destruct x as [[x1 x2] x3], y as [[y1 y2] y3], t as [[t1 t2] t3].
  cbv [d2 n2 dot vsub vadd lattice vscale]. ring.
Qed.

Theorem min_image_shift_invariant c x y t a1 a2 a3 b1 b2 b3 (p : Z -> bool) :
  (exists i j k : Z, p (d2 (vadd (vadd (vadd x t) (lattice c a1 a2 a3)) (lattice c i j k)) (vadd (vadd y t) (lattice c b1 b2 b3))) = true) <->
  (exists i j k : Z, p (d2 (vadd x (lattice c i j k)) y) = true).
Proof.
  split.
  - intros [i [j [k H]]]. rewrite d2_shift in H. eexists; eexists; eexists; exact H.
  - intros [i [j [k H]]]. exists (i - a1 + b1), (j - a2 + b2), (k - a3 + b3). rewrite d2_shift.
    replace (i - a1 + b1 + a1 - b1) with i by ring. replace (j - a2 + b2 + a2 - b2) with j by ring. replace (k - a3 + b3 + a3 - b3) with k by ring. exact H.
Qed.

(* every cutoff of a table is bounded by twice its largest radius plus the non-metal buffer *)
Fixpoint max_radius (t : list (string * Z)) : Z := match t with [] => 0 | (_, r) :: t' => Z.max r (max_radius t') end.
Lemma lookup_le e t r : lookup e t = Some r -> r <= max_radius t.
Proof. induction t as [|[k v] t IH]; cbn; [discriminate|]. destruct (String.eqb e k); [intros H; injection H as ->; lia|intros H; specialize (IH H); lia]. Qed.
Lemma cutoff_le radii nm e1 e2 c : cutoff100 radii nm e1 e2 = Some c -> c <= 2 * max_radius radii + 45.
Proof.
  unfold cutoff100. destruct (lookup e1 radii) as [r1|] eqn:E1; [|discriminate]. destruct (lookup e2 radii) as [r2|] eqn:E2; [|discriminate].
  intros H; injection H as <-. apply lookup_le in E1, E2. destruct (is_nonmetal nm e1 || is_nonmetal nm e2); lia.
Qed.
