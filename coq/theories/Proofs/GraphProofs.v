(* Graph-level statements about calc_angles / calc_dihedrals (C19): for EVERY bond list, every pair of bonds sharing an atom gives
   exactly one angle and every chain i-j-k-l exactly one dihedral, in exactly one of its two directions, and nothing else is produced. *)
From Coq Require Import List Arith Bool Lia.
From Mofun Require Import Model.Terms Proofs.TermsProofs.
Import ListNotations.

(* y is bonded to n (in either written direction); self-loops do not count *)
Definition nbr (b : list (nat * nat)) (n y : nat) : Prop := y <> n /\ (In (n, y) b \/ In (y, n) b).
Lemma nbr_sym b n y : nbr b n y -> nbr b y n.
Proof. intros [H1 [H2|H2]]; split; auto. Qed.

Lemma memn_In x l : memn x l = true <-> In x l.
Proof.
  unfold memn. rewrite existsb_exists. split; [intros [y [Hy E]]; apply Nat.eqb_eq in E; subst; exact Hy|].
  intros H. exists x. split; [exact H|apply Nat.eqb_refl].
Qed.
Lemma dedup_In x l : In x (dedup l) <-> In x l.
Proof.
  induction l as [|y l IH]; cbn; [tauto|]. destruct (memn y l) eqn:E.
  - rewrite IH. split; [auto|]. intros [ -> | H ]; [apply memn_In; exact E|exact H].
  - cbn. rewrite IH. tauto.
Qed.
Lemma dedup_NoDup l : NoDup (dedup l).
Proof.
  induction l as [|y l IH]; cbn; [constructor|]. destruct (memn y l) eqn:E; [exact IH|]. constructor; [|exact IH].
  rewrite dedup_In. intros H. apply memn_In in H. congruence.
Qed.

Lemma adj_spec b n y : In y (adj b n) <-> nbr b n y.
Proof.
  unfold adj, nbr. rewrite dedup_In, in_flat_map. split.
  - intros [[p q] [Hb Hy]]. cbn [fst snd] in Hy.
    destruct (Nat.eqb_spec p n) as [ -> | Hp ]; [destruct (Nat.eqb_spec q n) as [ -> | Hq ]; [destruct Hy|]|destruct (Nat.eqb_spec q n) as [ -> | Hq ]; [|destruct Hy]].
    + destruct Hy as [ <- | [] ]. split; [exact Hq|left; exact Hb].
    + destruct Hy as [ <- | [] ]. split; [exact Hp|right; exact Hb].
  - intros [Hne [H|H]].
    + exists (n, y). split; [exact H|]. cbn [fst snd]. rewrite Nat.eqb_refl. destruct (Nat.eqb_spec y n); [contradiction|left; reflexivity].
    + exists (y, n). split; [exact H|]. cbn [fst snd]. rewrite Nat.eqb_refl. destruct (Nat.eqb_spec y n); [contradiction|left; reflexivity].
Qed.
Lemma adj_NoDup b n : NoDup (adj b n).
Proof. apply dedup_NoDup. Qed.

Lemma nodes_spec b n : In n (nodes b) <-> exists p q, In (p, q) b /\ (n = p \/ n = q).
Proof.
  unfold nodes. rewrite dedup_In, in_flat_map. split.
  - intros [[p q] [Hb Hn]]. exists p, q. split; [exact Hb|]. cbn in Hn. destruct Hn as [<-|[ <- | [] ]]; auto.
  - intros [p [q [Hb Hn]]]. exists (p, q). split; [exact Hb|]. cbn. destruct Hn as [ -> | -> ]; auto.
Qed.
Lemma nodes_NoDup b : NoDup (nodes b).
Proof. apply dedup_NoDup. Qed.
Lemma nbr_node b n y : nbr b n y -> In n (nodes b).
Proof. intros [_ [H|H]]; apply nodes_spec; [exists n, y|exists y, n]; auto. Qed.

(* ---------- generic: NoDup of a flat_map with pairwise disjoint, duplicate-free pieces *)
Lemma NoDup_app {A} (l1 l2 : list A) : NoDup l1 -> NoDup l2 -> (forall x, In x l1 -> ~ In x l2) -> NoDup (l1 ++ l2).
Proof.
  induction l1 as [|x l1 IH]; intros H1 H2 D; [exact H2|]. inversion H1 as [|? ? Hx Hl]; subst. cbn. constructor.
  - rewrite in_app_iff. intros [H|H]; [contradiction|]. apply (D x (or_introl eq_refl) H).
  - apply IH; [exact Hl|exact H2|]. intros y Hy. apply D. right. exact Hy.
Qed.
Lemma NoDup_flat_map {A B} (f : A -> list B) l : NoDup l -> (forall x, In x l -> NoDup (f x)) ->
  (forall x y z, In x l -> In y l -> x <> y -> In z (f x) -> ~ In z (f y)) -> NoDup (flat_map f l).
Proof.
  induction l as [|a l IH]; intros Hnd Hf D; [constructor|]. inversion Hnd as [|? ? Ha Hl]; subst. cbn. apply NoDup_app.
  - apply Hf. left. reflexivity.
  - apply IH; [exact Hl|intros x Hx; apply Hf; right; exact Hx|]. intros x y z Hx Hy. apply D; right; assumption.
  - intros z Hz Hin. apply in_flat_map in Hin. destruct Hin as [y [Hy Hzy]]. apply (D a y z); [left; reflexivity|right; exact Hy| |exact Hz|exact Hzy].
    intros ->. contradiction.
Qed.
Lemma NoDup_map_inj {A B} (f : A -> B) l : (forall x y, f x = f y -> x = y) -> NoDup l -> NoDup (map f l).
Proof.
  intros Hinj. induction 1 as [|x l Hx Hl IH]; cbn; constructor; [|exact IH].
  intros H. apply in_map_iff in H. destruct H as [y [E Hy]]. apply Hinj in E. subst. contradiction.
Qed.
Lemma comb2_distinct l a b : NoDup l -> In (a, b) (combinations2 l) -> a <> b /\ In a l /\ In b l.
Proof.
  intros Hnd H. apply in_combinations2 in H. destruct H as [l1 [l2 [l3 ->]]]. split; [|split].
  - intros ->. apply NoDup_remove_2 in Hnd. apply Hnd. apply in_or_app. right. apply in_or_app. right. left. reflexivity.
  - apply in_or_app. right. left. reflexivity.
  - apply in_or_app. right. right. apply in_or_app. right. left. reflexivity.
Qed.

(* ---------- angles *)
Lemma in_calc_angles b t : In t (calc_angles b) <-> exists n x y, t = [x; n; y] /\ In n (nodes b) /\ In (x, y) (combinations2 (adj b n)).
Proof.
  unfold calc_angles. rewrite in_flat_map. split.
  - intros [n [Hn Ht]]. apply in_map_iff in Ht. destruct Ht as [[x y] [<- Hxy]]. exists n, x, y. cbn. auto.
  - intros [n [x [y [-> [Hn Hxy]]]]]. exists n. split; [exact Hn|]. apply in_map_iff. exists (x, y). auto.
Qed.
Lemma in_calc_angles3 b x n y : In [x; n; y] (calc_angles b) <-> In n (nodes b) /\ In (x, y) (combinations2 (adj b n)).
Proof.
  rewrite in_calc_angles. split; [|intros H; exists n, x, y; split; [reflexivity|exact H]].
  intros [n' [x' [y' [E H]]]]. injection E as -> -> ->. exact H.
Qed.

Theorem angles_sound b t : In t (calc_angles b) -> exists i n j, t = [i; n; j] /\ nbr b n i /\ nbr b n j /\ i <> j.
Proof.
  intros H. apply in_calc_angles in H. destruct H as [n [x [y [-> [_ Hxy]]]]]. exists x, n, y. split; [reflexivity|].
  destruct (comb2_distinct _ _ _ (adj_NoDup b n) Hxy) as [Hne [Hx Hy]]. apply adj_spec in Hx, Hy. auto.
Qed.
Theorem angles_complete b n i j : nbr b n i -> nbr b n j -> i <> j ->
  (In [i; n; j] (calc_angles b) /\ ~ In [j; n; i] (calc_angles b)) \/ (In [j; n; i] (calc_angles b) /\ ~ In [i; n; j] (calc_angles b)).
Proof.
  intros Hi Hj Hne. pose proof (nbr_node _ _ _ Hi) as Hn. apply adj_spec in Hi, Hj.
  rewrite !in_calc_angles3. destruct (pair_exactly_once _ _ _ (adj_NoDup b n) Hi Hj Hne) as [[H1 H2]|[H1 H2]]; [left|right]; (split; [auto|tauto]).
Qed.
Theorem angles_NoDup b : NoDup (calc_angles b).
Proof.
  unfold calc_angles. apply NoDup_flat_map; [apply nodes_NoDup| |].
  - intros n _. apply NoDup_map_inj; [|apply combinations2_nodup, adj_NoDup]. intros [a c] [a' c'] E. cbn in E. injection E as -> ->. reflexivity.
  - intros n n' z _ _ Hne Hz Hz'. apply in_map_iff in Hz, Hz'. destruct Hz as [[a c] [<- _]]. destruct Hz' as [[a' c'] [E _]]. cbn in E. injection E as _ E _.
    congruence.
Qed.

(* ---------- each bond once as a directed central pair *)
Fixpoint go_edges (b : list (nat * nat)) (seen rest : list nat) : list (nat * nat) :=
  match rest with
  | [] => []
  | j :: rest' => map (fun k => (j, k)) (filter (fun k => negb (memn k seen)) (adj b j)) ++ go_edges b (j :: seen) rest'
  end.
Lemma edges_go b : edges b = go_edges b [] (nodes b).
Proof. unfold edges. generalize (@nil nat). induction (nodes b) as [|j r IH]; intros seen; [reflexivity|]. cbn [go_edges]. rewrite <- IH. reflexivity. Qed.

Lemma in_go_edges b j k : forall rest seen, In (j, k) (go_edges b seen rest) <->
  exists r1 r2, rest = r1 ++ j :: r2 /\ nbr b j k /\ ~ In k seen /\ ~ In k r1 /\
                (forall r1' r2', rest = r1' ++ j :: r2' -> length r1 <= length r1').
Proof.
  induction rest as [|x rest IH]; intros seen; cbn [go_edges].
  - split; [intros []|intros [r1 [r2 [E _]]]; destruct r1; discriminate].
  - rewrite in_app_iff, in_map_iff, IH. split.
    + intros [[k' [E Hk]]|[r1 [r2 [-> [Hn [Hs [Hr Hmin]]]]]]].
      * injection E as -> ->. apply filter_In in Hk. destruct Hk as [Hk Hs]. exists [], rest. split; [reflexivity|]. split; [apply adj_spec; exact Hk|].
        split; [intros H; apply memn_In in H; rewrite H in Hs; discriminate|]. split; [intros []|]. intros; cbn; lia.
      * destruct (Nat.eq_dec x j) as [ -> | Hx ].
        -- (* j already at the head: the head occurrence is the first one *)
           exists [], (r1 ++ j :: r2). split; [reflexivity|]. split; [exact Hn|]. split; [intros H; apply Hs; right; exact H|]. split; [intros []|]. intros; cbn; lia.
        -- exists (x :: r1), r2. split; [reflexivity|]. split; [exact Hn|]. split; [intros H; apply Hs; right; exact H|].
           split; [intros [ -> | H ]; [apply Hs; left; reflexivity|contradiction]|].
           intros r1' r2' E. destruct r1' as [|y r1']; cbn in E; injection E as E1 E2; [congruence|]. cbn. specialize (Hmin _ _ E2). lia.
    + intros [r1 [r2 [E [Hn [Hs [Hr Hmin]]]]]]. destruct r1 as [|y r1]; cbn in E; injection E as -> ->.
      * left. exists k. split; [reflexivity|]. apply filter_In. split; [apply adj_spec; exact Hn|]. destruct (memn k seen) eqn:M; [apply memn_In in M; contradiction|reflexivity].
      * right. assert (Hyj : y <> j). { intros ->. specialize (Hmin [] (r1 ++ j :: r2) eq_refl). cbn in Hmin. lia. }
        exists r1, r2. split; [reflexivity|]. split; [exact Hn|]. split; [intros [ -> | H ]; [apply Hr; left; reflexivity|contradiction]|].
        split; [intros H; apply Hr; right; exact H|]. intros r1' r2' E. specialize (Hmin (y :: r1') r2'). cbn in Hmin. rewrite E in Hmin. specialize (Hmin eq_refl). lia.
Qed.

Lemma split_unique (l : list nat) x : NoDup l -> forall p1 s1 p2 s2, l = p1 ++ x :: s1 -> l = p2 ++ x :: s2 -> p1 = p2 /\ s1 = s2.
Proof.
  intros Hnd. induction Hnd as [|y t Hy Ht IH]; intros p1 s1 p2 s2 A B; [destruct p1; discriminate|].
  destruct p1 as [|z p1], p2 as [|w p2]; cbn in *.
  - injection A as _ <-. injection B as _ <-. auto.
  - injection A as -> ->. injection B as -> B. exfalso. apply Hy. rewrite B. apply in_or_app. right. left. reflexivity.
  - injection A as -> A. injection B as -> ->. exfalso. apply Hy. rewrite A. apply in_or_app. right. left. reflexivity.
  - injection A as -> A. injection B as <- B. destruct (IH p1 s1 p2 s2 A B) as [-> ->]. auto.
Qed.

(* (j,k) is listed iff j and k are bonded and j comes before k in node order *)
Lemma in_edges b j k : In (j, k) (edges b) <-> nbr b j k /\ exists r1 r2 r3, nodes b = r1 ++ j :: r2 ++ k :: r3.
Proof.
  rewrite edges_go, in_go_edges. split.
  - intros [r1 [r2 [E [Hn [_ [Hr _]]]]]]. split; [exact Hn|]. pose proof (nbr_node _ _ _ (nbr_sym _ _ _ Hn)) as Hk. rewrite E in Hk.
    apply in_app_or in Hk. destruct Hk as [Hk|[Hk|Hk]]; [contradiction|destruct Hn as [Hne _]; congruence|].
    apply in_split in Hk. destruct Hk as [m1 [m2 ->]]. exists r1, m1, m2. exact E.
  - intros [Hn [r1 [r2 [r3 E]]]]. exists r1, (r2 ++ k :: r3). split; [exact E|]. split; [exact Hn|]. split; [intros []|]. pose proof (nodes_NoDup b) as Hnd. split.
    + intros Hk. rewrite E in Hnd. apply in_split in Hk. destruct Hk as [m1 [m2 ->]]. rewrite <- !app_assoc in Hnd. cbn in Hnd.
      apply NoDup_remove_2 in Hnd. apply Hnd. apply in_or_app. right. apply in_or_app. right. right. apply in_or_app. right. left. reflexivity.
    + intros r1' r2' E'. destruct (split_unique _ j Hnd _ _ _ _ E E') as [<- _]. lia.
Qed.

Theorem edges_once b j k : nbr b j k -> (In (j, k) (edges b) /\ ~ In (k, j) (edges b)) \/ (In (k, j) (edges b) /\ ~ In (j, k) (edges b)).
Proof.
  intros Hn. pose proof (nbr_node _ _ _ Hn) as Hj. pose proof (nbr_node _ _ _ (nbr_sym _ _ _ Hn)) as Hk. pose proof (nodes_NoDup b) as Hnd.
  assert (Hne : j <> k) by (destruct Hn as [H _]; congruence).
  assert (Before : forall x y r1 r2 r3 m1 m2 m3, nodes b = r1 ++ x :: r2 ++ y :: r3 -> nodes b = m1 ++ y :: m2 ++ x :: m3 -> False).
  { intros x y r1 r2 r3 m1 m2 m3 E1 E2.
    destruct (split_unique _ x Hnd r1 (r2 ++ y :: r3) (m1 ++ y :: m2) m3 E1) as [P _]; [rewrite <- app_assoc; exact E2|].
    destruct (split_unique _ y Hnd (r1 ++ x :: r2) r3 m1 (m2 ++ x :: m3)) as [Q _]; [rewrite <- app_assoc; exact E1|exact E2|].
    apply (f_equal (@length nat)) in P, Q. rewrite !app_length in *. cbn [length] in *. lia. }
  apply in_split in Hj. destruct Hj as [l1 [l2 E]]. rewrite E in Hk. apply in_app_or in Hk. destruct Hk as [Hk|[Hk|Hk]]; [|congruence|].
  - right. apply in_split in Hk. destruct Hk as [m1 [m2 ->]]. rewrite <- app_assoc in E. cbn in E. split.
    + apply in_edges. split; [apply nbr_sym; exact Hn|]. exists m1, m2, l2. exact E.
    + intros H. apply in_edges in H. destruct H as [_ [r1 [r2 [r3 E']]]]. apply (Before _ _ _ _ _ _ _ _ E' E).
  - left. apply in_split in Hk. destruct Hk as [m1 [m2 ->]]. split.
    + apply in_edges. split; [exact Hn|]. exists l1, m1, m2. exact E.
    + intros H. apply in_edges in H. destruct H as [_ [r1 [r2 [r3 E']]]]. apply (Before _ _ _ _ _ _ _ _ E E').
Qed.

Lemma edges_NoDup b : NoDup (edges b).
Proof.
  rewrite edges_go. pose proof (nodes_NoDup b) as Hnd. revert Hnd. generalize (@nil nat). induction (nodes b) as [|x rest IH]; intros seen Hnd; cbn [go_edges]; [constructor|].
  inversion Hnd as [|? ? Hx Hr]; subst. apply NoDup_app.
  - apply NoDup_map_inj; [intros a c E; injection E as ->; reflexivity|]. apply NoDup_filter, adj_NoDup.
  - apply IH. exact Hr.
  - intros [a c] H1 H2. apply in_map_iff in H1. destruct H1 as [k [E _]]. injection E as <- <-.
    apply in_go_edges in H2. destruct H2 as [r1 [r2 [-> _]]]. apply Hx. apply in_or_app. right. left. reflexivity.
Qed.

(* ---------- dihedrals *)
Lemma in_calc_dihedrals b i j k l : In [i; j; k; l] (calc_dihedrals b) <-> In (j, k) (edges b) /\ nbr b j i /\ i <> k /\ nbr b k l /\ l <> j.
Proof.
  unfold calc_dihedrals. rewrite in_flat_map. split.
  - intros [[j' k'] [He H]]. apply in_flat_map in H. destruct H as [i' [Hi H]]. apply in_map_iff in H. destruct H as [l' [E Hl]]. injection E as -> -> -> ->.
    apply filter_In in Hi, Hl. destruct Hi as [Hi Hik], Hl as [Hl Hlj]. apply adj_spec in Hi, Hl. apply negb_true_iff in Hik, Hlj. apply Nat.eqb_neq in Hik, Hlj. auto.
  - intros [He [Hi [Hik [Hl Hlj]]]]. exists (j, k). split; [exact He|]. apply in_flat_map. exists i. split.
    + apply filter_In. split; [apply adj_spec; exact Hi|]. apply negb_true_iff, Nat.eqb_neq. exact Hik.
    + apply in_map_iff. exists l. split; [reflexivity|]. apply filter_In. split; [apply adj_spec; exact Hl|]. apply negb_true_iff, Nat.eqb_neq. exact Hlj.
Qed.

Theorem dihedrals_sound b t : In t (calc_dihedrals b) -> exists i j k l, t = [i; j; k; l] /\ nbr b j i /\ nbr b j k /\ nbr b k l /\ i <> k /\ l <> j.
Proof.
  intros H. unfold calc_dihedrals in H. apply in_flat_map in H. destruct H as [[j k] [He H]]. apply in_flat_map in H. destruct H as [i [Hi H]].
  apply in_map_iff in H. destruct H as [l [<- Hl]]. exists i, j, k, l. split; [reflexivity|].
  assert (Hin : In [i; j; k; l] (calc_dihedrals b)).
  { unfold calc_dihedrals. apply in_flat_map. exists (j, k). split; [exact He|]. apply in_flat_map. exists i. split; [exact Hi|]. apply in_map_iff. exists l. auto. }
  apply in_calc_dihedrals in Hin. destruct Hin as [He' [A [B [C D]]]]. apply in_edges in He'. destruct He' as [Hn _]. auto.
Qed.
(* every chain i-j-k-l (i bonded to j, j to k, k to l, i <> k, l <> j) is listed exactly once: either as i-j-k-l or as l-k-j-i, never both *)
Theorem dihedrals_complete b i j k l : nbr b j i -> nbr b j k -> nbr b k l -> i <> k -> l <> j ->
  (In [i; j; k; l] (calc_dihedrals b) /\ ~ In [l; k; j; i] (calc_dihedrals b)) \/
  (In [l; k; j; i] (calc_dihedrals b) /\ ~ In [i; j; k; l] (calc_dihedrals b)).
Proof.
  intros Hi Hjk Hl Hik Hlj. rewrite !in_calc_dihedrals. destruct (edges_once b j k Hjk) as [[H1 H2]|[H1 H2]]; [left|right].
  - split; [exact (conj H1 (conj Hi (conj Hik (conj Hl Hlj))))|]. intros [H _]. contradiction.
  - split; [exact (conj H1 (conj Hl (conj Hlj (conj Hi Hik))))|]. intros [H _]. contradiction.
Qed.
Theorem dihedrals_NoDup b : NoDup (calc_dihedrals b).
Proof.
  unfold calc_dihedrals. apply NoDup_flat_map; [apply edges_NoDup| |].
  - intros [j k] _. apply NoDup_flat_map; [apply NoDup_filter, adj_NoDup| |].
    + intros i _. apply NoDup_map_inj; [intros a c E; injection E as ->; reflexivity|apply NoDup_filter, adj_NoDup].
    + intros i i' z _ _ Hne Hz Hz'. apply in_map_iff in Hz, Hz'. destruct Hz as [l [<- _]]. destruct Hz' as [l' [E _]]. injection E as E _. congruence.
  - intros [j k] [j' k'] z _ _ Hne Hz Hz'. apply in_flat_map in Hz, Hz'. destruct Hz as [i [_ Hz]]. destruct Hz' as [i' [_ Hz']].
    apply in_map_iff in Hz, Hz'. destruct Hz as [l [<- _]]. destruct Hz' as [l' [E _]]. injection E as _ E1 E2 _. congruence.
Qed.
