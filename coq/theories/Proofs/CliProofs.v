From Coq Require Import ZArith List Bool Lia.
From Mofun Require Import Model.Cli.
Import ListNotations.

Lemma opt_length {A} (f : A -> call) o : length (opt f o) <= 1.
Proof. destruct o; cbn; lia. Qed.

(* the plan starts by loading the input and ends by saving to the output path *)
Theorem plan_first_last o : exists mid, plan o = Load (o_in o) :: mid ++ [Save (o_out o)].
Proof. unfold plan. cbn [app]. eexists. rewrite !app_assoc. reflexivity. Qed.

(* phases: a rank for every call; the plan is sorted by rank (strictly: each kind at most once) *)
Definition rank (c : call) : nat :=
  match c with
  | Load _ => 0 | SetCell _ => 1 | SetPositions _ => 2 | SetCharges _ => 3 | Replicate _ => 4 | Mic _ => 5 | AssignPP => 6
  | Find _ _ | Replace _ _ _ _ _ _ _ | MsgNoFind => 7 | FrameworkElement _ => 8 | Save _ => 9
  end.
Fixpoint increasing (l : list nat) : bool :=
  match l with [] => true | x :: t => match t with [] => true | y :: _ => (x <? y) && increasing t end end.
Theorem plan_order o : increasing (map rank (plan o)) = true.
Proof.
  unfold plan. destruct (o_uc o), (o_dump o), (o_charges o), (o_replicate o), (o_mic o), (o_pp o), (o_find o), (o_replace o), (o_framework o); reflexivity.
Qed.

(* every option reaches the operation it names, with the value given *)
Theorem plan_wires o :
  (forall p, o_uc o = Some p -> In (SetCell p) (plan o)) /\
  (forall p, o_dump o = Some p -> In (SetPositions p) (plan o)) /\
  (forall f, o_charges o = Some f -> In (SetCharges f) (plan o)) /\
  (forall r, o_replicate o = Some r -> In (Replicate r) (plan o)) /\
  (forall c, o_mic o = Some c -> In (Mic c) (plan o)) /\
  (o_pp o = true -> In AssignPP (plan o)) /\
  (forall f r, o_find o = Some f -> o_replace o = Some r -> In (Replace f r (o_atol o) (o_ap1 o) (o_ap2 o) (o_op o) (o_frac o)) (plan o)) /\
  (forall f, o_find o = Some f -> o_replace o = None -> In (Find f (o_atol o)) (plan o)) /\
  (forall e, o_framework o = Some e -> In (FrameworkElement e) (plan o)).
Proof.
  unfold plan. repeat split; intros; repeat match goal with H : _ = _ |- _ => rewrite H; clear H end; cbn [opt];
  repeat (apply in_or_app; first [left; left; reflexivity | left; cbn; tauto | right]); cbn; tauto.
Qed.

(* nothing is performed that no option asks for *)
Theorem plan_nothing_else o c : In c (plan o) ->
  c = Load (o_in o) \/ c = Save (o_out o) \/ (exists p, o_uc o = Some p /\ c = SetCell p) \/ (exists p, o_dump o = Some p /\ c = SetPositions p) \/
  (exists f, o_charges o = Some f /\ c = SetCharges f) \/ (exists r, o_replicate o = Some r /\ c = Replicate r) \/ (exists m, o_mic o = Some m /\ c = Mic m) \/
  (o_pp o = true /\ c = AssignPP) \/
  (exists f r, o_find o = Some f /\ o_replace o = Some r /\ c = Replace f r (o_atol o) (o_ap1 o) (o_ap2 o) (o_op o) (o_frac o)) \/
  (exists f, o_find o = Some f /\ o_replace o = None /\ c = Find f (o_atol o)) \/ (o_find o = None /\ o_replace o <> None /\ c = MsgNoFind) \/
  (exists e, o_framework o = Some e /\ c = FrameworkElement e).
Proof.
  intros H. unfold plan in H.
  apply in_app_or in H. destruct H as [H|H]; [destruct H as [E|[]]; left; symmetry; exact E|].
  apply in_app_or in H. destruct H as [H|H].
  { destruct (o_uc o) as [x|]; cbn in H; [|destruct H]. destruct H as [E|[]]. right; right; left. exists x. split; [reflexivity|symmetry; exact E]. }
  apply in_app_or in H. destruct H as [H|H].
  { destruct (o_dump o) as [x|]; cbn in H; [|destruct H]. destruct H as [E|[]]. right; right; right; left. exists x. split; [reflexivity|symmetry; exact E]. }
  apply in_app_or in H. destruct H as [H|H].
  { destruct (o_charges o) as [x|]; cbn in H; [|destruct H]. destruct H as [E|[]]. do 4 right; left. exists x. split; [reflexivity|symmetry; exact E]. }
  apply in_app_or in H. destruct H as [H|H].
  { destruct (o_replicate o) as [x|]; cbn in H; [|destruct H]. destruct H as [E|[]]. do 5 right; left. exists x. split; [reflexivity|symmetry; exact E]. }
  apply in_app_or in H. destruct H as [H|H].
  { destruct (o_mic o) as [x|]; cbn in H; [|destruct H]. destruct H as [E|[]]. do 6 right; left. exists x. split; [reflexivity|symmetry; exact E]. }
  apply in_app_or in H. destruct H as [H|H].
  { destruct (o_pp o); cbn in H; [|destruct H]. destruct H as [E|[]]. do 7 right; left. split; [reflexivity|symmetry; exact E]. }
  apply in_app_or in H. destruct H as [H|H].
  { destruct (o_find o) as [f|], (o_replace o) as [r|]; cbn in H; try (destruct H; fail); destruct H as [E|[]].
    - do 8 right; left. exists f, r. repeat split; symmetry; exact E.
    - do 9 right; left. exists f. repeat split; symmetry; exact E.
    - do 10 right; left. repeat split; [discriminate|symmetry; exact E]. }
  apply in_app_or in H. destruct H as [H|H].
  { destruct (o_framework o) as [x|]; cbn in H; [|destruct H]. destruct H as [E|[]]. do 11 right. exists x. split; [reflexivity|symmetry; exact E]. }
  destruct H as [E|[]]. right; left. symmetry; exact E.
Qed.

(* with only a find pattern no replacement is planned: the structure written is the loaded (replicated, parameterised) one *)
Theorem plan_find_only o f : o_find o = Some f -> o_replace o = None ->
  In (Find f (o_atol o)) (plan o) /\ forall a b c d e g h, ~ In (Replace a b c d e g h) (plan o).
Proof.
  intros Hf Hr. split.
  - apply (proj1 (proj2 (proj2 (proj2 (proj2 (proj2 (proj2 (proj2 (plan_wires o)))))))) f Hf Hr).
  - intros a b c d e g h Hin. apply plan_nothing_else in Hin.
    destruct Hin as [E|[E|[[x [_ E]]|[[x [_ E]]|[[x [_ E]]|[[x [_ E]]|[[x [_ E]]|[[_ E]|[[x [y [_ [E _]]]]|[[x [_ [_ E]]]|[[_ [_ E]]|[x [_ E]]]]]]]]]]]]];
    try discriminate E. congruence.
Qed.
