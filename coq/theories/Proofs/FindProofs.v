(* Soundness of the pattern search model (C01): every output is made of stored atoms of the right elements at stored
   position + one of the 27 offsets, with a non-zero quaternion whose rotation carries the pattern onto them within the
   allclose bound -- for ANY quaternion construction `rot` and ANY choice function `pick`. *)
From Coq Require Import ZArith List Bool Lia Arith.
From Mofun Require Import Model.Atoms Model.Geom Model.Find.
Import ListNotations.
Open Scope Z_scope.

Definition dflt_atom : atom := (0%nat,(0,0,0)).

(* ---------- images ---------- *)
Lemma combine_app {A B} (l1 l1':list A) (l2 l2':list B) : length l1 = length l2 ->
  combine (l1++l1') (l2++l2') = combine l1 l2 ++ combine l1' l2'.
Proof. revert l2; induction l1 as [|a l1 IH]; intros [|b l2] H; simpl in *; try discriminate; auto. f_equal. apply IH. lia. Qed.

Lemma combine_seq_map {A B} (f:A->B) (d:A) (T:list A) (a:nat) g y :
  In (g,y) (combine (seq a (length T)) (map f T)) -> exists k, (k < length T)%nat /\ g = (a + k)%nat /\ y = f (nth k T d).
Proof.
  revert a. induction T as [|t T IHT]; intros a Hin; simpl in Hin; [destruct Hin|].
  destruct Hin as [Heq|Hin].
  - inversion Heq; subst. exists 0%nat. simpl. split; [lia|]. split; [lia|reflexivity].
  - apply IHT in Hin. destruct Hin as [k [Hk [Hg He]]]. exists (Datatypes.S k). simpl. split; [lia|]. split; [lia|exact He].
Qed.

Lemma images_aux (S:list atom) (offs:list vec) (a:nat) g e x :
  (length S > 0)%nat -> (a mod length S = 0)%nat ->
  In (g,(e,x)) (combine (seq a (length offs * length S)) (flat_map (fun o => map (fun at_ => (fst at_, vadd (snd at_) o)) S) offs)) ->
  exists o, In o offs /\ (g mod length S < length S)%nat /\ e = fst (nth (g mod length S) S dflt_atom) /\ x = vadd (snd (nth (g mod length S) S dflt_atom)) o.
Proof.
  intros Hn. revert a. induction offs as [|o offs IH]; intros a Ha Hin; simpl in Hin.
  - destruct Hin.
  - rewrite seq_app in Hin. rewrite combine_app in Hin by (rewrite seq_length, map_length; reflexivity).
    apply in_app_or in Hin. destruct Hin as [Hin|Hin].
    + exists o. split; [left; reflexivity|].
      apply (combine_seq_map _ dflt_atom) in Hin. destruct Hin as [k [Hk [Hg He]]]. inversion He; subst.
      assert (Hm: ((a + k) mod length S = k)%nat).
      { rewrite Nat.add_mod by lia. rewrite Ha. simpl. rewrite Nat.mod_mod by lia. apply Nat.mod_small; lia. }
      rewrite Hm. split; [lia|]. split; reflexivity.
    + apply IH in Hin.
      * destruct Hin as [o' [Ho' H]]. exists o'. split; [right; exact Ho'|exact H].
      * rewrite Nat.add_mod by lia. rewrite Ha, Nat.mod_same by lia. simpl. apply Nat.mod_0_l; lia.
Qed.

Lemma images_spec S cell g e x : In (g,(e,x)) (images S cell) ->
  exists o, In o (offsets27 cell) /\ (g mod length S < length S)%nat /\ e = fst (nth (g mod length S) S dflt_atom) /\ x = vadd (snd (nth (g mod length S) S dflt_atom)) o.
Proof.
  unfold images, nS. intros Hin. destruct S as [|s S'] eqn:ES.
  - replace (length (offsets27 cell) * length (@nil atom))%nat with 0%nat in Hin by (simpl; lia). simpl in Hin. destruct Hin.
  - rewrite <- ES in *. apply (images_aux S (offsets27 cell) 0 g e x); [subst; simpl; lia| apply Nat.mod_0_l; subst; simpl; lia | exact Hin].
Qed.

(* ---------- candidates ---------- *)
Definition member_of (pool : list (nat*atom)) (gx : nat*vec) (pk : atom) : Prop :=
  In (fst gx, (fst pk, snd gx)) pool.

Lemma extend_partial_spec P tol nb k pk partial c :
  In c (extend_partial P tol nb k pk partial) ->
  exists gx, c = partial ++ [gx] /\ member_of nb gx pk.
Proof.
  unfold extend_partial. intros Hin. apply in_flat_map in Hin. destruct Hin as [[g [e x]] [Hnb Hc]].
  match type of Hc with In _ (if ?b then _ else _) => destruct b eqn:E end; [|destruct Hc].
  destruct Hc as [Hc|[]]. subst c. apply andb_prop in E. destruct E as [E _]. apply Nat.eqb_eq in E. subst e.
  exists (g,x). split; [reflexivity|]. unfold member_of. simpl. exact Hnb.
Qed.

Lemma grow_spec P tol nb rest : forall k partials c,
  In c (grow P tol nb k rest partials) ->
  exists p ext, In p partials /\ c = p ++ ext /\ Forall2 (member_of nb) ext rest.
Proof.
  induction rest as [|pk rest IH]; intros k partials c Hin; simpl in Hin.
  - exists c, []. split; [exact Hin|]. split; [rewrite app_nil_r; reflexivity|constructor].
  - apply IH in Hin. destruct Hin as [p [ext [Hp [Hc Hf]]]].
    apply in_flat_map in Hp. destruct Hp as [p0 [Hp0 Hp]].
    apply extend_partial_spec in Hp. destruct Hp as [gx [Hpeq Hm]].
    exists p0, (gx :: ext). split; [exact Hp0|]. split.
    + subst. rewrite <- app_assoc. reflexivity.
    + constructor; assumption.
Qed.

Lemma Forall2_impl' {A B} (R1 R2 : A -> B -> Prop) l1 l2 : (forall a b, R1 a b -> R2 a b) -> Forall2 R1 l1 l2 -> Forall2 R2 l1 l2.
Proof. intros H F. induction F; constructor; auto. Qed.

Lemma near_in_images S cell P tol ga : In ga (near S cell P tol) -> In ga (images S cell).
Proof. unfold near. intros H. apply filter_In in H. tauto. Qed.
Lemma nearby_in_near S cell P tol a ga : In ga (nearby S cell P tol a) -> In ga (near S cell P tol).
Proof. unfold nearby. intros H. apply filter_In in H. tauto. Qed.

Lemma cands_spec S cell P tol c : In c (cands S cell P tol) ->
  Forall2 (member_of (images S cell)) c P /\ (exists gx rest, c = gx :: rest /\ (fst gx < length S)%nat).
Proof.
  unfold cands. destruct P as [|p0 rest]; [intros []|].
  intros Hin. apply in_flat_map in Hin. destruct Hin as [[g [e x]] [Hnear Hc]].
  match type of Hc with In _ (if ?b then _ else _) => destruct b eqn:E end; [|destruct Hc].
  apply andb_prop in E. destruct E as [Eg Ee]. apply Nat.ltb_lt in Eg. apply Nat.eqb_eq in Ee. subst e.
  apply grow_spec in Hc. destruct Hc as [p [ext [Hp [Hceq Hf]]]].
  destruct Hp as [Hp|[]]. subst p. subst c. simpl. split.
  - constructor.
    + unfold member_of. simpl. apply near_in_images in Hnear. exact Hnear.
    + eapply Forall2_impl'; [|exact Hf]. intros gx pk Hm. unfold member_of in *.
      apply nearby_in_near in Hm. apply near_in_images in Hm. exact Hm.
  - exists (g,x), ext. split; [reflexivity|]. simpl. exact Eg.
Qed.

(* ---------- groups ---------- *)
Lemma group_add_in k c gs k' cs c' : In (k',cs) (group_add k c gs) -> In c' cs ->
  c' = c \/ exists cs0, In (k',cs0) gs /\ In c' cs0.
Proof.
  revert k' cs. induction gs as [|[k0 cs0] gs IH]; intros k' cs Hin Hc; simpl in Hin.
  - destruct Hin as [Heq|[]]. inversion Heq; subst. destruct Hc as [Hc|[]]. left; auto.
  - destruct (list_eqb k k0) eqn:E.
    + destruct Hin as [Heq|Hin].
      * inversion Heq; subst. apply in_app_or in Hc. destruct Hc as [Hc|[Hc|[]]].
        -- right. exists cs0. split; [left; reflexivity|exact Hc].
        -- left; auto.
      * right. exists cs. split; [right; exact Hin|exact Hc].
    + destruct Hin as [Heq|Hin].
      * inversion Heq; subst. right. exists cs. split; [left; reflexivity|exact Hc].
      * destruct (IH _ _ Hin Hc) as [Hl|[cs1 [H1 H2]]]; [left; exact Hl|].
        right. exists cs1. split; [right; exact H1|exact H2].
Qed.

Lemma groups_fold_in S (L:list (list (nat*vec))) : forall acc k cs c,
     In (k,cs) (fold_left (fun gs c0 => group_add (key S c0) c0 gs) L acc) -> In c cs ->
     In c L \/ exists cs0, In (k,cs0) acc /\ In c cs0.
Proof.
  induction L as [|c0 L IH]; intros acc k cs c Hin Hc; simpl in Hin.
  - right. exists cs. split; assumption.
  - destruct (IH _ _ _ _ Hin Hc) as [Hl|[cs1 [H1 H2]]].
    + left. right. exact Hl.
    + destruct (group_add_in _ _ _ _ _ _ H1 H2) as [He|[cs2 [H3 H4]]].
      * left. left. symmetry. exact He.
      * right. exists cs2. split; assumption.
Qed.

Lemma groups_in_cands S cell P tol k cs c : In (k,cs) (groups S cell P tol) -> In c cs -> In c (cands S cell P tol).
Proof.
  unfold groups. intros Hin Hc.
  destruct (groups_fold_in S _ [] k cs c Hin Hc) as [Hl|[cs0 [[] _]]]. exact Hl.
Qed.

(* ---------- accept ---------- *)
Definition close_bound (N:Z) (tol:tolr) (rtol lhs tgt:Z) : Prop :=
  Z.abs lhs * td tol * rtol <= N * tn tol * rtol + td tol * Z.abs tgt.
Definition atom_close (q:quat) (tol:tolr) (rtol:Z) (xa:vec) (p x:vec) : Prop :=
  let N := qn2 q in
  let '(r1,r2,r3) := rotapply q p in let '(xa1,xa2,xa3) := xa in let '(x1,x2,x3) := x in
  close_bound N tol rtol (r1 + N*(xa1-x1)) (r1 + N*xa1) /\
  close_bound N tol rtol (r2 + N*(xa2-x2)) (r2 + N*xa2) /\
  close_bound N tol rtol (r3 + N*(xa3-x3)) (r3 + N*xa3).

Lemma accept_spec rot P tol rtol hints c q : accept rot P tol rtol hints c = Some q ->
  q = rot (Prel P hints) (map snd c) /\ qn2 q <> 0 /\
  Forall (fun px => atom_close q tol rtol (nth (a1 P hints) (map snd c) (0,0,0)) (fst px) (snd px)) (combine (Prel P hints) (map snd c)).
Proof.
  unfold accept. set (xs := map snd c). set (q0 := rot (Prel P hints) xs).
  destruct (qn2 q0 =? 0) eqn:EN; [discriminate|]. apply Z.eqb_neq in EN.
  match goal with |- (if ?b then _ else _) = _ -> _ => destruct b eqn:EF end; [|discriminate].
  intros H. inversion H; subst q. split; [reflexivity|]. split; [exact EN|].
  rewrite forallb_forall in EF. apply Forall_forall. intros [p x] Hin. specialize (EF _ Hin). simpl in EF.
  unfold atom_close, close_bound. simpl.
  destruct (rotapply q0 p) as [[r1 r2] r3]. destruct (nth (a1 P hints) xs (0,0,0)) as [[xa1 xa2] xa3]. destruct x as [[x1 x2] x3].
  unfold allclose_comp in EF. apply andb_prop in EF. destruct EF as [EF E3]. apply andb_prop in EF. destruct EF as [E1 E2].
  apply Z.leb_le in E1, E2, E3. repeat split; assumption.
Qed.

Lemma Forall2_len {A B} (R:A->B->Prop) l1 l2 : Forall2 R l1 l2 -> length l1 = length l2.
Proof. induction 1; simpl; auto. Qed.
(* ---------- main theorem ---------- *)
Theorem find_sound rot pick S cell P tol rtol hints idx pos q :
  In (idx,pos,q) (find rot pick S cell P tol rtol hints) ->
  length idx = length P /\ length pos = length P /\
  Forall2 (fun i pk => (i < length S)%nat /\ fst (nth i S dflt_atom) = fst pk) idx P /\
  Forall2 (fun i x => exists o, In o (offsets27 cell) /\ x = vadd (snd (nth i S dflt_atom)) o) idx pos /\
  qn2 q <> 0 /\
  Forall (fun px => atom_close q tol rtol (nth (a1 P hints) pos (0,0,0)) (fst px) (snd px)) (combine (Prel P hints) pos).
Proof.
  unfold find. intros Hin. apply in_flat_map in Hin. destruct Hin as [[k cs] [Hg Hin]].
  simpl in Hin.
  set (good := flat_map (fun c => match accept rot P tol rtol hints c with Some q0 => [(c,q0)] | None => [] end) cs) in *.
  destruct good as [|g0 good'] eqn:EG; [destruct Hin|].
  rewrite <- EG in Hin.
  assert (Hlen : (length good > 0)%nat) by (rewrite EG; simpl; lia).
  remember (nth (pick (length good) mod length good) good ([], (0,0,0,1))) as cq eqn:Ecq.
  assert (Hcq : In cq good). { subst cq. apply nth_In. apply Nat.mod_upper_bound. lia. }
  destruct cq as [c q0]. destruct Hin as [Heq|[]]. inversion Heq; subst idx pos q0. clear Heq.
  subst good. apply in_flat_map in Hcq. destruct Hcq as [c' [Hc' Hcq]].
  destruct (accept rot P tol rtol hints c') as [q1|] eqn:EA; [|destruct Hcq].
  destruct Hcq as [Heq|[]]. inversion Heq; subst c' q1. clear Heq.
  pose proof (groups_in_cands _ _ _ _ _ _ _ Hg Hc') as Hcand.
  apply cands_spec in Hcand. destruct Hcand as [HF _].
  apply accept_spec in EA. destruct EA as [_ [HN HC]].
  assert (HL : length c = length P) by (eapply Forall2_len; exact HF).
  split; [rewrite map_length; exact HL|]. split; [rewrite map_length; exact HL|].
  split; [|split; [|split; [exact HN|exact HC]]].
  - clear -HF. induction HF as [|gx pk c P Hm HF IH]; simpl; constructor; auto.
    unfold member_of in Hm. apply images_spec in Hm. destruct Hm as [o [Ho [Hlt [He Hx]]]]. unfold nS. split; [exact Hlt|]. symmetry. exact He.
  - clear -HF. induction HF as [|gx pk c P Hm HF IH]; simpl; constructor; auto.
    unfold member_of in Hm. apply images_spec in Hm. destruct Hm as [o [Ho [Hlt [He Hx]]]]. exists o. split; [exact Ho|]. unfold nS. simpl in Hx. exact Hx.
Qed.

(* rotation is proper for any nonzero quaternion *)
Lemma rot_orth (q:quat) (p r:vec) : dot (rotapply q p) (rotapply q r) = qn2 q * qn2 q * dot p r.
Proof. destruct q as [[[x y] z] w]. destruct p as [[p1 p2] p3]. destruct r as [[r1 r2] r3]. unfold dot, rotapply, qn2. ring. Qed.
Lemma rot_proper (q:quat) (p r:vec) : cross (rotapply q p) (rotapply q r) = vscale (qn2 q) (rotapply q (cross p r)).
Proof. destruct q as [[[x y] z] w]. destruct p as [[p1 p2] p3]. destruct r as [[r1 r2] r3]. unfold cross, rotapply, qn2, vscale. f_equal; [f_equal|]; ring. Qed.

(* ---------- C02 uniqueness / C03 independence of the random choice ---------- *)
Lemma list_eqb_eq a b : list_eqb a b = true -> a = b.
Proof.
  revert b; induction a as [|x a IH]; intros [|y b] H; simpl in H; try discriminate; [reflexivity|].
  apply andb_prop in H. destruct H as [H1 H2]. apply Nat.eqb_eq in H1. subst. f_equal. apply IH. exact H2.
Qed.
Lemma list_eqb_refl a : list_eqb a a = true.
Proof. induction a as [|x a IH]; simpl; [reflexivity|]. rewrite Nat.eqb_refl. exact IH. Qed.

Definition ginv (S : list atom) (gs : list (list nat * list (list (nat * vec)))) : Prop :=
  NoDup (map fst gs) /\ forall k cs c, In (k, cs) gs -> In c cs -> key S c = k.

Lemma group_add_keys k c gs : map fst (group_add k c gs) = map fst gs \/
  (map fst (group_add k c gs) = map fst gs ++ [k] /\ ~ In k (map fst gs)).
Proof.
  induction gs as [|[k0 cs0] gs IH]; simpl.
  - right. split; [reflexivity|intros []].
  - destruct (list_eqb k k0) eqn:E; simpl.
    + left. reflexivity.
    + destruct IH as [IH|[IH Hn]].
      * left. f_equal. exact IH.
      * right. split; [f_equal; exact IH|]. intros [H|H]; [subst; rewrite list_eqb_refl in E; discriminate|contradiction].
Qed.

Lemma NoDup_snoc {A} (l : list A) x : NoDup l -> ~ In x l -> NoDup (l ++ [x]).
Proof.
  induction 1 as [|y l Hni Hnd IH]; intros Hx; simpl; [constructor; [intros []|constructor]|].
  constructor.
  - rewrite in_app_iff. intros [H|[H|[]]]; [contradiction|subst; apply Hx; left; reflexivity].
  - apply IH. intros H. apply Hx. right; exact H.
Qed.

Lemma group_add_in2 k c gs k' cs c' : In (k',cs) (group_add k c gs) -> In c' cs ->
  (c' = c /\ k' = k) \/ exists cs0, In (k',cs0) gs /\ In c' cs0.
Proof.
  revert k' cs. induction gs as [|[k0 cs0] gs IH]; intros k' cs Hin Hc; simpl in Hin.
  - destruct Hin as [Heq|[]]. inversion Heq; subst. destruct Hc as [Hc|[]]. left; split; [symmetry; exact Hc|reflexivity].
  - destruct (list_eqb k k0) eqn:E.
    + destruct Hin as [Heq|Hin].
      * inversion Heq; subst. apply in_app_or in Hc. destruct Hc as [Hc|[Hc|[]]].
        -- right. exists cs0. split; [left; reflexivity|exact Hc].
        -- left. split; [symmetry; exact Hc|]. apply list_eqb_eq in E. symmetry; exact E.
      * right. exists cs. split; [right; exact Hin|exact Hc].
    + destruct Hin as [Heq|Hin].
      * inversion Heq; subst. right. exists cs. split; [left; reflexivity|exact Hc].
      * destruct (IH _ _ Hin Hc) as [Hl|[cs1 [H1 H2]]]; [left; exact Hl|].
        right. exists cs1. split; [right; exact H1|exact H2].
Qed.

Lemma group_add_inv S c gs : ginv S gs -> ginv S (group_add (key S c) c gs).
Proof.
  intros [Hnd Hk]. split.
  - destruct (group_add_keys (key S c) c gs) as [E|[E Hn]]; rewrite E; [exact Hnd|apply NoDup_snoc; assumption].
  - intros k cs c' Hin Hc'. destruct (group_add_in2 _ _ _ _ _ _ Hin Hc') as [[-> ->]|[cs0 [H1 H2]]]; [reflexivity|].
    apply (Hk k cs0 c' H1 H2).
Qed.

Lemma groups_inv S cell P tol : ginv S (groups S cell P tol).
Proof.
  unfold groups. assert (G : forall L acc, ginv S acc -> ginv S (fold_left (fun gs c => group_add (key S c) c gs) L acc)).
  { induction L as [|c L IH]; intros acc H; simpl; [exact H|]. apply IH. apply group_add_inv. exact H. }
  apply G. split; [constructor|intros k cs c []].
Qed.

(* what a group contributes: nothing, or one entry whose sorted index tuple is the group's key *)
Definition good_of rot P tol rtol hints (cs : list (list (nat * vec))) :=
  flat_map (fun c => match accept rot P tol rtol hints c with Some q => [(c, q)] | None => [] end) cs.
Definition has_good rot P tol rtol hints (kg : list nat * list (list (nat * vec))) : bool :=
  match good_of rot P tol rtol hints (snd kg) with [] => false | _ => true end.
Definition okey (r : list nat * list vec * quat) : list nat := sort_nat (fst (fst r)).

Lemma good_of_in rot P tol rtol hints cs c q : In (c, q) (good_of rot P tol rtol hints cs) -> In c cs.
Proof.
  unfold good_of. intros H. apply in_flat_map in H. destruct H as [c' [Hc' H]].
  destruct (accept rot P tol rtol hints c'); [|destruct H]. destruct H as [H|[]]. inversion H; subst. exact Hc'.
Qed.

Lemma find_keys rot pick S cell P tol rtol hints :
  map okey (find rot pick S cell P tol rtol hints) = map fst (filter (has_good rot P tol rtol hints) (groups S cell P tol)).
Proof.
  unfold find. pose proof (groups_inv S cell P tol) as [_ Hk].
  induction (groups S cell P tol) as [|[k cs] gs IH]; [reflexivity|].
  cbn [flat_map filter]. rewrite map_app. rewrite IH by (intros k' cs' c Hin; apply Hk; right; exact Hin). clear IH.
  unfold has_good. cbn [snd]. fold (good_of rot P tol rtol hints cs).
  destruct (good_of rot P tol rtol hints cs) as [|g0 good'] eqn:EG; [reflexivity|]. rewrite <- EG.
  remember (nth (pick (length (good_of rot P tol rtol hints cs)) mod length (good_of rot P tol rtol hints cs)) (good_of rot P tol rtol hints cs) ([], (0,0,0,1))) as cq eqn:Ecq.
  assert (Hcq : In cq (good_of rot P tol rtol hints cs)).
  { subst cq. apply nth_In. apply Nat.mod_upper_bound. rewrite EG. simpl. lia. }
  destruct cq as [c q]. cbn [map app fst]. f_equal. unfold okey. cbn [fst].
  apply good_of_in in Hcq. apply (Hk k cs c (or_introl eq_refl) Hcq).
Qed.

Lemma NoDup_map_fst_filter {A B} (p : A * B -> bool) (l : list (A * B)) : NoDup (map fst l) -> NoDup (map fst (filter p l)).
Proof.
  induction l as [|x l IH]; simpl; intros H; [constructor|]. inversion H as [|? ? Hni Hnd]; subst.
  destruct (p x); simpl; [constructor; [|apply IH; exact Hnd]|apply IH; exact Hnd].
  intros Hin. apply Hni. apply in_map_iff in Hin. destruct Hin as [y [E Hy]]. apply filter_In in Hy. destruct Hy as [Hy _].
  rewrite <- E. apply in_map. exact Hy.
Qed.

(* C02: each distinct atom group is reported at most once *)
Theorem find_unique rot pick S cell P tol rtol hints : NoDup (map okey (find rot pick S cell P tol rtol hints)).
Proof. rewrite find_keys. apply NoDup_map_fst_filter. apply (groups_inv S cell P tol). Qed.

(* C03: the set (indeed the list) of reported atom groups does not depend on the random choice among equivalent orderings *)
Theorem find_pick_independent rot pick pick' S cell P tol rtol hints :
  map okey (find rot pick S cell P tol rtol hints) = map okey (find rot pick' S cell P tol rtol hints).
Proof. rewrite !find_keys. reflexivity. Qed.
