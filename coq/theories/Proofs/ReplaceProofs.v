(* Proofs about the replacement model (C04-C08) *)
From Coq Require Import List Arith Bool Lia ZArith.
From Mofun Require Import Lib.NP Model.Atoms Model.Geom Model.Replace Proofs.DelProofs Proofs.ExtProofs Proofs.ReplProofs.
Import ListNotations.
Close Scope Z_scope.

(* ---------- sets as lists ---------- *)
Lemma memn_In x l : memn x l = true <-> In x l.
Proof. unfold memn. rewrite existsb_exists. split; [intros [y [H E]]; apply Nat.eqb_eq in E; subst; exact H|intros H; exists x; split; [exact H|apply Nat.eqb_refl]]. Qed.
Lemma memn_false x l : memn x l = false <-> ~ In x l.
Proof.
  split.
  - intros H Hin. apply memn_In in Hin. congruence.
  - intros H. destruct (memn x l) eqn:E; [|reflexivity]. exfalso. apply H. apply memn_In. exact E.
Qed.

Lemma in_union x a b : In x (union a b) <-> In x a \/ In x b.
Proof.
  unfold union. rewrite in_app_iff, filter_In, nodup_In. split.
  - intros [H|[H _]]; [left|right]; exact H.
  - intros [H|H]; [left; exact H|]. destruct (memn x a) eqn:E; [left; apply memn_In; exact E|right; split; [exact H|reflexivity]].
Qed.
Lemma union_nodup a b : NoDup a -> NoDup (union a b).
Proof.
  intros Ha. unfold union. apply NoDup_app_intro; [exact Ha|apply NoDup_filter; apply NoDup_nodup|].
  intros x Hx Hin. apply filter_In in Hin. destruct Hin as [_ Hin]. apply negb_true_iff in Hin. apply memn_false in Hin. contradiction.
Qed.

Lemma disjointb_spec a b : disjointb a b = true <-> forall x, In x a -> ~ In x b.
Proof.
  unfold disjointb. rewrite forallb_forall. split.
  - intros H x Hx Hb. specialize (H x Hx). apply negb_true_iff in H. apply memn_false in H. contradiction.
  - intros H x Hx. apply negb_true_iff. apply memn_false. apply H. exact Hx.
Qed.

(* ---------- C07: when is the overlap error raised ---------- *)
(* an atom would be removed twice: some match's removal set meets what earlier matches (or del0) already remove *)
Fixpoint overlapsb (del : list nat) (ds : list (list nat)) : bool :=
  match ds with [] => false | d :: t => negb (disjointb del d) || overlapsb (union del d) t end.

Definition removed_twice (del : list nat) (ds : list (list nat)) : Prop :=
  exists pre d post x, ds = pre ++ d :: post /\ In x d /\ (In x del \/ exists d', In d' pre /\ In x d').

Lemma overlapsb_spec ds : forall del, overlapsb del ds = true <-> removed_twice del ds.
Proof.
  induction ds as [|d t IH]; intros del; cbn [overlapsb].
  - split; [discriminate|]. intros [pre [d [post [x [E _]]]]]. destruct pre; discriminate.
  - rewrite orb_true_iff, IH. split.
    + intros [H|[pre [d' [post [x [E [Hx Hor]]]]]]].
      * apply negb_true_iff in H. assert (Hn : ~ (forall x, In x del -> ~ In x d)) by (intro A; apply disjointb_spec in A; congruence).
        assert (exists x, In x del /\ In x d) as [x [A B]].
        { clear H IH. induction del as [|y del IHd]; [exfalso; apply Hn; intros x []|].
          destruct (in_dec Nat.eq_dec y d) as [Hy|Hy]; [exists y; split; [left; reflexivity|exact Hy]|].
          destruct IHd as [x [A B]]; [|exists x; split; [right; exact A|exact B]].
          intro A. apply Hn. intros x [<-|Hx]; [exact Hy|apply A; exact Hx]. }
        exists [], d, t, x. repeat split; [exact B|left; exact A].
      * exists (d :: pre), d', post, x. split; [cbn [app]; f_equal; exact E|]. split; [exact Hx|].
        destruct Hor as [Hu|[d'' [A B]]].
        -- apply in_union in Hu. destruct Hu as [Hu|Hu]; [left; exact Hu|right; exists d; split; [left; reflexivity|exact Hu]].
        -- right. exists d''. split; [right; exact A|exact B].
    + intros [pre [d' [post [x [E [Hx Hor]]]]]]. destruct pre as [|p pre]; cbn in E; injection E as E1 E2.
      * subst d' post. left. apply negb_true_iff. destruct (disjointb del d) eqn:D; [|reflexivity]. exfalso.
        destruct Hor as [Hd|[d'' [[] _]]]. apply (proj1 (disjointb_spec del d) D x Hd Hx).
      * subst p. right. exists pre, d', post, x. split; [exact E2|]. split; [exact Hx|].
        destruct Hor as [Hd|[d'' [[<-|A] B]]].
        -- left. apply in_union. left; exact Hd.
        -- left. apply in_union. right; exact B.
        -- right. exists d''. split; assumption.
Qed.

Lemma rstep_none ra repl search offs sel : forall acc del,
  rstep ra false repl search offs sel acc del = None <-> overlapsb del (map (dels ra repl search) sel) = true.
Proof.
  induction sel as [|m rest IH]; intros acc del; cbn [rstep map overlapsb]; [split; discriminate|].
  rewrite orb_false_r. destruct (disjointb del (dels ra repl search m)) eqn:D; cbn [negb orb].
  - apply IH.
  - split; reflexivity.
Qed.
Lemma rstep_ignore ra repl search offs sel : forall acc del, rstep ra true repl search offs sel acc del <> None.
Proof.
  induction sel as [|m rest IH]; intros acc del; cbn [rstep]; [discriminate|]. rewrite orb_true_r. apply IH.
Qed.

(* the overlap error is raised exactly when the replacement is non-empty, the caller did not ask to ignore it, and some atom of the
   structure is in the removal sets of two selected matches *)
Theorem replace_overlap_iff S search repl ra ig sel :
  replace_from S search repl ra ig sel = Overlap <->
  natoms repl <> 0 /\ ig = false /\ removed_twice [] (map (dels ra repl search) sel).
Proof.
  unfold replace_from. destruct (natoms repl) as [|n] eqn:En.
  - split; [discriminate|intros [H _]; contradiction].
  - destruct (extend_types S repl) as [S1 offs]. destruct ig.
    + pose proof (rstep_ignore ra repl search offs sel S1 []) as H. destruct (rstep ra true repl search offs sel S1 []) as [[a del]|]; [|contradiction].
      split; [discriminate|intros [_ [E _]]; discriminate].
    + rewrite <- overlapsb_spec. rewrite <- (rstep_none ra repl search offs sel S1 []).
      destruct (rstep ra false repl search offs sel S1 []) as [[a del]|]; split; try discriminate; try (intros [_ [_ E]]; discriminate); try reflexivity.
      intros _. repeat split. discriminate.
Qed.

(* an empty replacement never raises; every listed atom is deleted once (set union) *)
Theorem replace_empty S search repl ra ig sel : natoms repl = 0 ->
  replace_from S search repl ra ig sel = Ok (delitem S (fold_left (fun acc m => union acc (m_idx m)) sel [])) (length sel)
  /\ NoDup (fold_left (fun acc m => union acc (m_idx m)) sel []).
Proof.
  intros H. unfold replace_from. rewrite H. split; [reflexivity|].
  assert (G : forall acc, NoDup acc -> NoDup (fold_left (fun acc m => union acc (m_idx m)) sel acc)).
  { induction sel as [|m rest IH]; intros acc Ha; cbn; [exact Ha|]. apply IH. apply union_nodup. exact Ha. }
  apply G. constructor.
Qed.

(* ---------- C04: what a successful replacement does to the atoms ---------- *)
Lemma rstep_some ra ig repl search offs sel : forall acc del a del',
  rstep ra ig repl search offs sel acc del = Some (a, del') -> NoDup del ->
  NoDup del' /\ (forall x, In x del' <-> In x del \/ exists m, In m sel /\ In x (dels ra repl search m)) /\
  a_pos a = a_pos acc ++ flat_map (fun m => map (fun i => nth i (m_placed m) (0, 0, 0)%Z) (to_add_of (with_pos repl (m_placed m)) (index_map ra repl search m))) sel /\
  a_chg a = a_chg acc ++ flat_map (fun m => map (fun i => nth i (a_chg repl) 0%Z) (to_add_of (with_pos repl (m_placed m)) (index_map ra repl search m))) sel /\
  a_grp a = a_grp acc ++ flat_map (fun m => map (fun i => nth i (a_grp repl) 0%Z) (to_add_of (with_pos repl (m_placed m)) (index_map ra repl search m))) sel /\
  t_el a = t_el acc /\ t_mass a = t_mass acc /\ t_lab a = t_lab acc /\ t_pair a = t_pair acc /\ a_cell a = a_cell acc.
Proof.
  induction sel as [|m rest IH]; intros acc del a del' H Hnd; cbn [rstep] in H.
  - injection H as <- <-. cbn [flat_map]. rewrite !app_nil_r. split; [exact Hnd|]. split; [|repeat split].
    intros x. split; [intros Hx; left; exact Hx|intros [Hx|[m [[] _]]]; exact Hx].
  - destruct (disjointb del (dels ra repl search m) || ig); [|discriminate].
    specialize (IH _ _ _ _ H (union_nodup del (dels ra repl search m) Hnd)).
    destruct IH as [N [Hin [P [C [Gp [E1 [E2 [E3 [E4 E5]]]]]]]]].
    destruct (extend_with_atoms acc (with_pos repl (m_placed m)) offs (index_map ra repl search m)) as [P0 [C0 [G0 [_ [_ [F1 [F2 [F3 [F4 [F5 _]]]]]]]]]].
    cbv zeta in *. unfold extend in *. cbn [with_pos a_pos a_chg a_grp] in P0, C0, G0.
    split; [exact N|]. split; [|rewrite P, C, Gp, E1, E2, E3, E4, E5, P0, C0, G0, F1, F2, F3, F4, F5; cbn [flat_map]; rewrite <- !app_assoc; repeat split].
    intros x. rewrite Hin, in_union. split.
    + intros [[Hx|Hx]|[m' [A B]]]; [left; exact Hx|right; exists m; split; [left; reflexivity|exact Hx]|right; exists m'; split; [right; exact A|exact B]].
    + intros [Hx|[m' [[<-|A] B]]]; [left; left; exact Hx|left; right; exact B|right; exists m'; split; assumption].
Qed.

(* what is inserted: for every selected match, in order, the replacement atoms that are not common to both patterns *)
Definition inserted {B} (ra : bool) (repl search : atoms) (sel : list smatch) (f : smatch -> nat -> B) : list B :=
  flat_map (fun m => map (f m) (to_add_of (with_pos repl (m_placed m)) (index_map ra repl search m))) sel.

Theorem replace_ok_atoms S search repl ra ig sel S' k : natoms repl <> 0 ->
  replace_from S search repl ra ig sel = Ok S' k ->
  k = length sel /\ exists del, NoDup del /\ (forall x, In x del <-> exists m, In m sel /\ In x (dels ra repl search m)) /\
  a_pos S' = np_delete (a_pos S ++ inserted ra repl search sel (fun m i => nth i (m_placed m) (0, 0, 0)%Z)) del /\
  a_chg S' = np_delete (a_chg S ++ inserted ra repl search sel (fun _ i => nth i (a_chg repl) 0%Z)) del /\
  a_grp S' = np_delete (a_grp S ++ inserted ra repl search sel (fun _ i => nth i (a_grp repl) 0%Z)) del /\
  t_el S' = t_el S ++ t_el repl /\ t_mass S' = t_mass S ++ t_mass repl /\ t_lab S' = t_lab S ++ t_lab repl /\ a_cell S' = a_cell S.
Proof.
  intros Hn H. unfold replace_from in H. destruct (natoms repl) as [|n]; [contradiction|].
  destruct (extend_types S repl) as [S1 offs] eqn:ET.
  destruct (rstep ra ig repl search offs sel S1 []) as [[a del]|] eqn:R; [|discriminate]. injection H as <- <-.
  split; [reflexivity|]. exists del.
  destruct (rstep_some ra ig repl search offs sel S1 [] a del R (NoDup_nil _)) as [N [Hin [P [C [Gp [E1 [E2 [E3 [E4 E5]]]]]]]]].
  assert (T : a_pos S1 = a_pos S /\ a_chg S1 = a_chg S /\ a_grp S1 = a_grp S /\ t_el S1 = t_el S ++ t_el repl /\ t_mass S1 = t_mass S ++ t_mass repl /\
              t_lab S1 = t_lab S ++ t_lab repl /\ a_cell S1 = a_cell S).
  { unfold extend_types in ET. injection ET as <- _. cbn. repeat split. }
  destruct T as [T1 [T2 [T3 [T4 [T5 [T6 T7]]]]]].
  split; [exact N|]. split.
  - intros x. rewrite Hin. split; [intros [[]|H]; exact H|intros H; right; exact H].
  - unfold inserted, delitem. cbn [a_pos a_chg a_grp t_el t_mass t_lab a_cell]. rewrite P, C, Gp, E1, E2, E3, E5, T1, T2, T3, T4, T5, T6, T7. repeat split.
Qed.

Theorem replace_removed_once S search repl ra ig sel S' k : natoms repl <> 0 ->
  replace_from S search repl ra ig sel = Ok S' k ->
  exists del, NoDup del /\ (forall x, In x del <-> exists m, In m sel /\ In x (dels ra repl search m)).
Proof.
  intros Hn H. destruct (replace_ok_atoms S search repl ra ig sel S' k Hn H) as [_ [del [A [B _]]]].
  exists del. split; assumption.
Qed.

(* ---------- C05: the placement is the matched frame ---------- *)
Open Scope Z_scope.
Lemma rotapply_sub q a b : rotapply q (vsub a b) = vsub (rotapply q a) (rotapply q b).
Proof. destruct q as [[[x y] z] w], a as [[a1 a2] a3], b as [[b1 b2] b3]. cbv [rotapply vsub]. f_equal; [f_equal|]; ring. Qed.

(* g(v) = M (v - s_a1) + N pos_a1 is the rigid motion certified by C01 (scaled by N); the inserted atom for replacement coordinate r is
   placed at M (r - s_0) + N pos_0.  The two differ by exactly the residual of the FIRST matched atom under g, which C01 bounds by
   N * (atol + 1e-5 |.|) per component: the replacement lands in the same frame as the matched search pattern, within the tolerance. *)
Theorem placement_in_matched_frame q (s0 sa1 r pos0 posa1 : vec) :
  let N := qn2 q in
  let g v := vadd (rotapply q (vsub v sa1)) (vscale N posa1) in
  vsub (fst (place q pos0 (vsub r s0))) (g r) = vsub (vscale N pos0) (g s0).
Proof.
  cbv zeta. unfold place. cbn [fst]. rewrite !rotapply_sub.
  destruct (rotapply q r) as [[r1 r2] r3], (rotapply q s0) as [[t1 t2] t3], (rotapply q sa1) as [[u1 u2] u3], pos0 as [[p1 p2] p3], posa1 as [[a1 a2] a3].
  cbv [vsub vadd vscale]. f_equal; [f_equal|]; ring.
Qed.

(* ---------- C08: replacing a pattern by itself ---------- *)
Close Scope Z_scope.
Lemma vec_eqb_refl p : Replace.vec_eqb p p = true.
Proof. destruct p as [[a b] c]. cbn. rewrite !Z.eqb_refl. reflexivity. Qed.
Lemma vec_eqb_eq p q : Replace.vec_eqb p q = true -> p = q.
Proof. destruct p as [[a b] c], q as [[d e] f]. cbn. intros H. apply andb_true_iff in H. destruct H as [H H3]. apply andb_true_iff in H. destruct H as [H1 H2].
  apply Z.eqb_eq in H1, H2, H3. subst. reflexivity. Qed.

Lemma first_same_self els : forall ps j i e p, length els = length ps -> NoDup (combine els ps) ->
  nth_error (combine els ps) i = Some (e, p) -> first_same e p j els ps = Some (j + i).
Proof.
  induction els as [|e0 els IH]; intros [|p0 ps] j i e p Hl Hnd Hi; cbn in *; try (destruct i; discriminate); try discriminate.
  inversion Hnd as [|? ? Hni Hnd']; subst. destruct i as [|i]; cbn in Hi.
  - injection Hi as -> ->. rewrite vec_eqb_refl, Z.eqb_refl. cbn. f_equal. lia.
  - destruct (Replace.vec_eqb p p0 && (e =? e0)%Z) eqn:E.
    + exfalso. apply andb_true_iff in E. destruct E as [E1 E2]. apply vec_eqb_eq in E1. apply Z.eqb_eq in E2. subst.
      apply Hni. apply (nth_error_In _ _ Hi).
    + rewrite (IH ps (S j) i e p); [f_equal; lia|lia|exact Hnd'|exact Hi].
Qed.

Definition pattern_distinct (P : atoms) : Prop :=
  length (a_typ P) = natoms P /\ NoDup (combine (elements_of P) (a_pos P)).

Lemma unchanged_self P : pattern_distinct P -> unchanged P P = map (fun i => (i, i)) (seq 0 (natoms P)).
Proof.
  intros [Hl Hnd]. unfold unchanged.
  assert (Le : length (elements_of P) = length (a_pos P)) by (unfold elements_of; rewrite map_length; exact Hl).
  set (L := combine (elements_of P) (a_pos P)) in *.
  assert (HL : length L = natoms P) by (unfold L, natoms; rewrite combine_length; lia).
  assert (G : forall s (l : list (Z * vec)), (forall k x, nth_error l k = Some x -> nth_error L (s + k) = Some x) ->
     flat_map (fun iep => match first_same (fst (snd iep)) (snd (snd iep)) 0 (elements_of P) (a_pos P) with Some j => [(fst iep, j)] | None => [] end)
              (combine (seq s (length l)) l) = map (fun i => (i, i)) (seq s (length l))).
  { intros s l. revert s. induction l as [|[e p] l IHl]; intros s H; [reflexivity|]. cbn [length seq combine flat_map map fst snd].
    rewrite (first_same_self (elements_of P) (a_pos P) 0 s e p Le Hnd).
    - cbn [app]. f_equal. apply IHl. intros k x Hk. replace (S s + k) with (s + S k) by lia. apply H. exact Hk.
    - specialize (H 0 (e, p) eq_refl). rewrite Nat.add_0_r in H. exact H. }
  specialize (G 0 L (fun k x H => H)). rewrite HL in G. exact G.
Qed.

Lemma self_index_map P m : pattern_distinct P -> index_map false P P m = map (fun i => (i, nth i (m_idx m) 0)) (seq 0 (natoms P)).
Proof. intros H. unfold index_map. rewrite (unchanged_self P H), map_map. reflexivity. Qed.

Lemma mem_key_self n f i : i < n -> mem_key i (map (fun i => (i, f i)) (seq 0 n)) = true.
Proof. intros H. unfold mem_key. apply existsb_exists. exists (i, f i). split; [apply in_map_iff; exists i; split; [reflexivity|apply in_seq; lia]|apply Nat.eqb_refl]. Qed.

Lemma self_to_add_nil P m placed : pattern_distinct P -> length placed = natoms P ->
  to_add_of (with_pos P placed) (index_map false P P m) = [].
Proof.
  intros H Hp. rewrite (self_index_map P m H). unfold to_add_of. assert (N : natoms (with_pos P placed) = natoms P) by (unfold natoms, with_pos; cbn; exact Hp).
  rewrite N.
  assert (G : forall l, (forall y, In y l -> y < natoms P) ->
     filter (fun i => negb (mem_key i (map (fun i => (i, nth i (m_idx m) 0)) (seq 0 (natoms P))))) l = []).
  { induction l as [|y l IHl]; intros Hy; [reflexivity|]. cbn [filter]. rewrite mem_key_self by (apply Hy; left; reflexivity). cbn [negb].
    apply IHl. intros z Hz. apply Hy. right; exact Hz. }
  apply G. intros y Hy. apply in_seq in Hy. lia.
Qed.

Lemma self_dels_nil P m : pattern_distinct P -> length (m_idx m) = natoms P -> dels false P P m = [].
Proof.
  intros H Hl. unfold dels. rewrite (self_index_map P m H), map_map. cbn [snd].
  assert (E : filter (fun i => negb (memn i (map (fun x => nth x (m_idx m) 0) (seq 0 (natoms P))))) (m_idx m) = []).
  { rewrite <- Hl. assert (G : forall l, (forall x, In x l -> In x (m_idx m)) -> filter (fun i => negb (memn i (map (fun x => nth x (m_idx m) 0) (seq 0 (length (m_idx m)))))) l = []).
    { induction l as [|y l IHl]; intros Hsub; [reflexivity|]. cbn [filter].
      assert (M : memn y (map (fun x => nth x (m_idx m) 0) (seq 0 (length (m_idx m)))) = true).
      { apply memn_In. destruct (In_nth _ _ 0 (Hsub y (or_introl eq_refl))) as [k [Hk Hy]]. apply in_map_iff. exists k. split; [exact Hy|apply in_seq; lia]. }
      rewrite M. cbn [negb]. apply IHl. intros x Hx. apply Hsub. right; exact Hx. }
    apply G. intros x Hx. exact Hx. }
  rewrite E. reflexivity.
Qed.

Lemma np_delete_nil {A} (l : list A) : np_delete l [] = l.
Proof. unfold np_delete. apply np_delete_from_none. intros x []. Qed.

(* self-replacement (replace_all off) of a pattern without coincident same-element atoms: no atom is deleted or appended; positions,
   charges and groups of every atom are unchanged *)
Theorem self_replace_atoms S P ig sel S' k : pattern_distinct P -> natoms P <> 0 ->
  Forall (fun m => length (m_idx m) = natoms P /\ length (m_placed m) = natoms P) sel ->
  replace_from S P P false ig sel = Ok S' k ->
  a_pos S' = a_pos S /\ a_chg S' = a_chg S /\ a_grp S' = a_grp S.
Proof.
  intros HP Hn Hsel H. destruct (replace_ok_atoms S P P false ig sel S' k Hn H) as [_ [del [Hnd [Hin [Hp [Hc [Hg _]]]]]]]. cbv zeta in *.
  assert (D : del = []).
  { destruct del as [|x del]; [reflexivity|]. exfalso. destruct (proj1 (Hin x) (or_introl eq_refl)) as [m [Hm Hx]].
    rewrite Forall_forall in Hsel. destruct (Hsel m Hm) as [L1 _]. rewrite (self_dels_nil P m HP L1) in Hx. destruct Hx. }
  assert (I : forall (B : Type) (f : smatch -> nat -> B), inserted false P P sel f = []).
  { intros B f. unfold inserted. rewrite Forall_forall in Hsel. clear -Hsel HP. induction sel as [|m rest IH]; [reflexivity|]. cbn [flat_map].
    destruct (Hsel m (or_introl eq_refl)) as [_ L2]. rewrite (self_to_add_nil P m (m_placed m) HP L2). cbn [map app].
    apply IH. intros x Hx. apply Hsel. right; exact Hx. }
  subst del. rewrite np_delete_nil, I, app_nil_r in Hp. rewrite np_delete_nil, I, app_nil_r in Hc. rewrite np_delete_nil, I, app_nil_r in Hg.
  repeat split; assumption.
Qed.

(* ---------- C08: self-replacement with a pattern that carries no terms leaves every term of the structure alone ---------- *)
Definition termless (P : atoms) : Prop :=
  k_tup (bonds P) = [] /\ k_tup (angles P) = [] /\ k_tup (dihedrals P) = [] /\ k_tup (impropers P) = [].
Definition same_terms (a b : atoms) : Prop :=
  (k_tup (bonds a) = k_tup (bonds b) /\ k_typ (bonds a) = k_typ (bonds b)) /\
  (k_tup (angles a) = k_tup (angles b) /\ k_typ (angles a) = k_typ (angles b)) /\
  (k_tup (dihedrals a) = k_tup (dihedrals b) /\ k_typ (dihedrals a) = k_typ (dihedrals b)) /\
  (k_tup (impropers a) = k_tup (impropers b) /\ k_typ (impropers a) = k_typ (impropers b)).

Lemma extend_kind_termless off phi k ko : k_tup ko = [] ->
  k_tup (extend_kind off phi k ko) = k_tup k /\ k_typ (extend_kind off phi k ko) = k_typ k.
Proof. intros H. unfold extend_kind. destruct (merge_xf (k_xl k) (k_xf k) (k_xl ko) (k_xf ko)) as [[nl xs] xo]. rewrite H. split; reflexivity. Qed.

Lemma find_idx_none {A} (p : A -> bool) l : (forall x, In x l -> p x = false) -> find_idx p l = [].
Proof.
  unfold find_idx. generalize 0. induction l as [|x l IH]; intros i H; cbn [find_idx_from]; [reflexivity|].
  rewrite (H x (or_introl eq_refl)). apply IH. intros y Hy. apply H. right; exact Hy.
Qed.

Lemma touches_nil t : touches [] t = false.
Proof. unfold touches. induction t as [|v t IH]; [reflexivity|]. cbn [existsb]. rewrite IH. reflexivity. Qed.

Lemma delitem_kind_nil k : k_tup (delitem_kind [] k) = k_tup k /\ k_typ (delitem_kind [] k) = k_typ k.
Proof.
  unfold delitem_kind. destruct (k_tup k) as [|t ts] eqn:E; [rewrite E; split; reflexivity|].
  unfold delete_and_reindex. rewrite (find_idx_none (touches []) (t :: ts)) by (intros x _; apply touches_nil).
  cbn [k_tup k_typ]. rewrite !np_delete_nil. split; reflexivity.
Qed.

Lemma rstep_termless ra ig repl search offs : termless repl -> forall sel acc del a del',
  rstep ra ig repl search offs sel acc del = Some (a, del') -> same_terms a acc.
Proof.
  intros [Tb [Ta [Td Ti]]]. induction sel as [|m rest IH]; intros acc del a del' H; cbn [rstep] in H.
  - injection H as <- _. repeat split.
  - destruct (disjointb del (dels ra repl search m) || ig); [|discriminate].
    specialize (IH _ _ _ _ H). unfold same_terms in *. unfold extend, extend_with in IH.
    destruct (merge_xf (a_xl acc) (a_xf acc) (a_xl (with_pos repl (m_placed m))) (a_xf (with_pos repl (m_placed m)))) as [[nl xs] xo].
    cbn [bonds angles dihedrals impropers with_pos] in IH.
    destruct IH as [[B1 B2] [[A1 A2] [[D1 D2] [I1 I2]]]].
    rewrite B1, B2, A1, A2, D1, D2, I1, I2.
    repeat split; apply extend_kind_termless; assumption.
Qed.

Theorem self_replace_terms S P ig sel S' k : pattern_distinct P -> natoms P <> 0 -> termless P ->
  Forall (fun m => length (m_idx m) = natoms P /\ length (m_placed m) = natoms P) sel ->
  replace_from S P P false ig sel = Ok S' k -> same_terms S' S.
Proof.
  intros HP Hn HT Hsel H. destruct (replace_ok_atoms S P P false ig sel S' k Hn H) as [_ [del [Hnd [Hin _]]]].
  assert (D : forall x, ~ exists m, In m sel /\ In x (dels false P P m)).
  { intros x [m [Hm Hx]]. rewrite Forall_forall in Hsel. destruct (Hsel m Hm) as [L1 _]. rewrite (self_dels_nil P m HP L1) in Hx. destruct Hx. }
  unfold replace_from in H. destruct (natoms P) as [|n] eqn:En; [congruence|].
  destruct (extend_types S P) as [S1 offs] eqn:ET.
  destruct (rstep false ig P P offs sel S1 []) as [[a del']|] eqn:ER; [|discriminate]. injection H as <- _.
  assert (D' : del' = []).
  { destruct (rstep_some false ig P P offs sel S1 [] a del' ER (NoDup_nil _)) as [_ [Hin' _]].
    destruct del' as [|x r]; [reflexivity|]. exfalso. destruct (proj1 (Hin' x) (or_introl eq_refl)) as [[]|E]. exact (D x E). }
  subst del'. pose proof (rstep_termless false ig P P offs HT sel S1 [] a [] ER) as Q.
  assert (Q1 : same_terms S1 S) by (unfold extend_types in ET; injection ET as <- _; repeat split).
  unfold same_terms in *. cbn [delitem bonds angles dihedrals impropers].
  destruct Q as [[B1 B2] [[A1 A2] [[D1 D2] [I1 I2]]]]. destruct Q1 as [[B1' B2'] [[A1' A2'] [[D1' D2'] [I1' I2']]]].
  destruct (delitem_kind_nil (bonds a)) as [X1 X2]. destruct (delitem_kind_nil (angles a)) as [X3 X4].
  destruct (delitem_kind_nil (dihedrals a)) as [X5 X6]. destruct (delitem_kind_nil (impropers a)) as [X7 X8].
  rewrite X1, X2, X3, X4, X5, X6, X7, X8. repeat split; congruence.
Qed.

(* ---------- C08: self-replacement leaves every atom's element unchanged, given that matched atoms have the pattern's elements ---------- *)
Lemma fold_set_cases {A} (g : nat -> A) m i d : forall l,
  nth i (fold_set g m l) d = nth i l d \/ exists kv, In kv m /\ snd kv = i /\ nth i (fold_set g m l) d = g (fst kv).
Proof.
  induction m as [|kv m IH]; intros l; [left; reflexivity|]. cbn [fold_set fold_left].
  fold (fold_set g m (set_nth (snd kv) (g (fst kv)) l)).
  destruct (IH (set_nth (snd kv) (g (fst kv)) l)) as [E|[kv' [Hin [Hs E]]]].
  - rewrite E. destruct (Nat.eq_dec (snd kv) i) as [Ei|Ni].
    + destruct (Nat.lt_ge_cases i (length l)) as [Hl|Hl].
      * right. exists kv. split; [left; reflexivity|]. split; [exact Ei|]. rewrite Ei. apply nth_set_nth_same. exact Hl.
      * left. rewrite !nth_overflow; [reflexivity|exact Hl|rewrite set_nth_length; exact Hl].
    + left. apply nth_set_nth_other. exact Ni.
  - right. exists kv'. split; [right; exact Hin|]. split; [exact Hs|exact E].
Qed.

Definition el_inv (T : list Z) (n : nat) (eS : nat -> Z) (acc : atoms) : Prop :=
  t_el acc = T /\ n <= length (a_typ acc) /\ forall i, i < n -> nth (nth i (a_typ acc) 0) T DOT = eS i.

Lemma rstep_elements ig P offs tS n eS : pattern_distinct P -> o_atom offs = length tS ->
  forall sel acc del a del',
  (forall m j, In m sel -> j < natoms P -> eS (nth j (m_idx m) 0) = element_of P j) ->
  el_inv (tS ++ t_el P) n eS acc -> rstep false ig P P offs sel acc del = Some (a, del') -> el_inv (tS ++ t_el P) n eS a.
Proof.
  intros HP Ho. induction sel as [|m rest IH]; intros acc del a del' Hel Inv H; cbn [rstep] in H.
  - injection H as <- _. exact Inv.
  - destruct (disjointb del (dels false P P m) || ig); [|discriminate].
    refine (IH _ _ _ _ (fun m' j Hm Hj => Hel m' j (or_intror Hm) Hj) _ H). clear IH H.
    destruct Inv as [I1 [I2 I3]]. unfold extend.
    destruct (extend_with_atoms acc (with_pos P (m_placed m)) offs (index_map false P P m)) as [_ [_ [_ [Ty [_ [Te _]]]]]].
    cbv zeta in Ty, Te. cbn [with_pos a_typ] in Ty. unfold el_inv. rewrite Ty, Te. split; [exact I1|].
    pose proof (fold_set_length (fun k => nth k (a_typ P) 0 + o_atom offs) (index_map false P P m) (a_typ acc)) as FL.
    split; [rewrite app_length; etransitivity; [exact I2|]; rewrite <- FL; apply Nat.le_add_r|]. intros i Hi.
    assert (Hi' : i < length (fold_set (fun k => nth k (a_typ P) 0 + o_atom offs) (index_map false P P m) (a_typ acc))) by (rewrite FL; lia).
    rewrite (app_nth1 _ _ 0 Hi').
    destruct (fold_set_cases (fun k => nth k (a_typ P) 0 + o_atom offs) (index_map false P P m) i 0 (a_typ acc)) as [E|[kv [Hin [Hs E]]]].
    + rewrite E. apply I3. exact Hi.
    + rewrite E. rewrite (self_index_map P m HP) in Hin. apply in_map_iff in Hin. destruct Hin as [j [<- Hj]]. apply in_seq in Hj.
      cbn [fst snd] in *. rewrite Ho. rewrite app_nth2 by lia. rewrite Nat.add_sub. rewrite <- Hs.
      rewrite (Hel m j (or_introl eq_refl)) by lia. reflexivity.
Qed.

Theorem self_replace_elements S P ig sel S' k : pattern_distinct P -> natoms P <> 0 ->
  Forall (fun m => length (m_idx m) = natoms P /\ length (m_placed m) = natoms P) sel ->
  length (a_typ S) = natoms S -> Forall (fun t => t < length (t_el S)) (a_typ S) ->
  (forall m j, In m sel -> j < natoms P -> element_of S (nth j (m_idx m) 0) = element_of P j) ->
  replace_from S P P false ig sel = Ok S' k ->
  forall i, i < natoms S -> element_of S' i = element_of S i.
Proof.
  intros HP Hn Hsel HL HT Hel H i Hi. unfold replace_from in H. destruct (natoms P) as [|n] eqn:En in H; [congruence|].
  destruct (extend_types S P) as [S1 offs] eqn:ET.
  destruct (rstep false ig P P offs sel S1 []) as [[a del']|] eqn:ER; [|discriminate]. injection H as <- _.
  assert (D' : del' = []).
  { destruct (rstep_some false ig P P offs sel S1 [] a del' ER (NoDup_nil _)) as [_ [Hin' _]].
    destruct del' as [|x r]; [reflexivity|]. exfalso. destruct (proj1 (Hin' x) (or_introl eq_refl)) as [[]|[m [Hm Hx]]].
    rewrite Forall_forall in Hsel. destruct (Hsel m Hm) as [L1 _]. rewrite (self_dels_nil P m HP L1) in Hx. destruct Hx. }
  subst del'. unfold extend_types in ET. injection ET as <- <-.
  assert (Inv0 : el_inv (t_el S ++ t_el P) (natoms S) (element_of S)
           (mk_atoms (a_pos S) (a_typ S) (a_chg S) (a_grp S) (a_xf S) (a_xl S) (t_el S ++ t_el P) (t_mass S ++ t_mass P) (t_lab S ++ t_lab P)
              (t_pair S ++ t_pair P) (with_coef (bonds S) (k_coef (bonds S) ++ k_coef (bonds P)))
              (with_coef (angles S) (k_coef (angles S) ++ k_coef (angles P))) (with_coef (dihedrals S) (k_coef (dihedrals S) ++ k_coef (dihedrals P)))
              (with_coef (impropers S) (k_coef (impropers S) ++ k_coef (impropers P))) (a_cell S))).
  { unfold el_inv. cbn [t_el a_typ]. split; [reflexivity|]. split; [lia|]. intros i' Hi'. unfold element_of.
    apply app_nth1. rewrite Forall_forall in HT. apply HT. apply nth_In. lia. }
  pose proof (rstep_elements ig P (mk_offs (num_atom_types S) (num_types (bonds S)) (num_types (angles S)) (num_types (dihedrals S)) (num_types (impropers S)))
                (t_el S) (natoms S) (element_of S) HP (eq_refl : _ = length (t_el S)) sel _ [] a [] Hel Inv0 ER) as [J1 [J2 J3]].
  unfold element_of at 1. cbn [delitem a_typ t_el]. rewrite np_delete_nil, J1. apply J3. exact Hi.
Qed.

(* ---------- C08: self-replacement is never refused, even when the selected matches share atoms ---------- *)
Lemma disjointb_nil_r del : disjointb del [] = true.
Proof. unfold disjointb. induction del as [|x del IH]; [reflexivity|]. cbn [forallb memn existsb negb andb]. exact IH. Qed.

Lemma rstep_self_some ig P offs : pattern_distinct P -> forall sel acc del,
  Forall (fun m => length (m_idx m) = natoms P /\ length (m_placed m) = natoms P) sel ->
  rstep false ig P P offs sel acc del <> None.
Proof.
  intros HP. induction sel as [|m rest IH]; intros acc del Hsel; cbn [rstep]; [discriminate|].
  inversion Hsel as [|? ? [L1 _] Hrest]; subst. rewrite (self_dels_nil P m HP L1), disjointb_nil_r. cbn [orb]. apply IH. exact Hrest.
Qed.

Theorem self_replace_never_refused S P ig sel : pattern_distinct P ->
  Forall (fun m => length (m_idx m) = natoms P /\ length (m_placed m) = natoms P) sel ->
  replace_from S P P false ig sel <> Overlap.
Proof.
  intros HP Hsel. unfold replace_from. destruct (natoms P) as [|n] eqn:En in |- * at 1; [discriminate|].
  destruct (extend_types S P) as [S1 offs]. pose proof (rstep_self_some ig P offs HP sel S1 [] Hsel) as N.
  destruct (rstep false ig P P offs sel S1 []) as [[a del]|]; [discriminate|congruence].
Qed.
