(* Counting for replacement (C04): with M pairwise disjoint selected matches the atom count changes by exactly
   M * (atoms of the replacement pattern - atoms of the search pattern). *)
From Coq Require Import List Arith Bool Lia ZArith Permutation.
From Mofun Require Import Lib.NP Model.Atoms Model.Geom Model.Replace Proofs.DelProofs Proofs.ExtProofs Proofs.ReplProofs Proofs.WFProofs
  Proofs.TypeProofs Proofs.ReplaceProofs Proofs.ReplTypeProofs.
Import ListNotations.

Definition mem (x : nat) (l : list nat) : bool := existsb (Nat.eqb x) l.
Lemma mem_In x l : mem x l = true <-> In x l.
Proof. apply memb_In. Qed.

(* removing the members of a duplicate-free sublist D from a duplicate-free list L removes exactly |D| elements *)
Lemma filter_notin_length : forall (L D : list nat), NoDup L -> NoDup D -> (forall x, In x D -> In x L) ->
  length (filter (fun x => negb (mem x D)) L) + length D = length L.
Proof.
  induction L as [|x L IH]; intros D HL HD Hsub.
  - destruct D as [|d D]; [reflexivity|]. destruct (Hsub d (or_introl eq_refl)).
  - inversion HL as [|? ? Hx HL']; subst. cbn [filter]. destruct (mem x D) eqn:E.
    + apply mem_In in E. destruct (in_split _ _ E) as [D1 [D2 ->]].
      assert (HD' : NoDup (D1 ++ D2)) by (apply NoDup_remove_1 in HD; exact HD).
      assert (Hx' : ~ In x (D1 ++ D2)) by (apply NoDup_remove_2 in HD; exact HD).
      assert (Hsub' : forall y, In y (D1 ++ D2) -> In y L).
      { intros y Hy. assert (Hy' : In y (D1 ++ x :: D2)) by (apply in_app_or in Hy; apply in_or_app; destruct Hy; [left|right; right]; assumption).
        destruct (Hsub y Hy') as [->|H]; [contradiction|exact H]. }
      specialize (IH (D1 ++ D2) HL' HD' Hsub').
      assert (F : filter (fun y => negb (mem y (D1 ++ x :: D2))) L = filter (fun y => negb (mem y (D1 ++ D2))) L).
      { apply filter_ext_in. intros y Hy. f_equal. assert (y <> x) by (intros ->; contradiction).
        destruct (mem y (D1 ++ x :: D2)) eqn:A, (mem y (D1 ++ D2)) eqn:B; try reflexivity.
        - apply mem_In in A. apply in_app_or in A. exfalso. assert (In y (D1 ++ D2)) by (apply in_or_app; destruct A as [A|[A|A]]; [left; exact A|congruence|right; exact A]).
          apply mem_In in H0. congruence.
        - apply mem_In in B. apply in_app_or in B. exfalso. assert (In y (D1 ++ x :: D2)) by (apply in_or_app; destruct B; [left|right; right]; assumption).
          apply mem_In in H0. congruence. }
      rewrite F. rewrite !app_length in *. cbn [negb length] in *. lia.
    + cbn [negb length]. assert (Hsub' : forall y, In y D -> In y L).
      { intros y Hy. destruct (Hsub y Hy) as [->|H]; [|exact H]. apply mem_In in Hy. congruence. }
      specialize (IH D HL' HD Hsub'). lia.
Qed.

Lemma keep_length n ds : NoDup ds -> (forall x, In x ds -> x < n) -> length (keep n ds) + length ds = n.
Proof.
  intros Hnd Hlt. unfold keep. rewrite <- (seq_length n 0) at 2. apply (filter_notin_length (seq 0 n) ds); [apply seq_NoDup|exact Hnd|].
  intros x Hx. apply in_seq. specialize (Hlt x Hx). lia.
Qed.

Lemma mem_key_map i m : mem_key i m = mem i (map fst m).
Proof. unfold mem_key, mem. induction m as [|kv m IH]; cbn; [reflexivity|]. rewrite IH. reflexivity. Qed.
Lemma to_add_length o m : NoDup (map fst m) -> (forall k, In k (map fst m) -> k < natoms o) -> length (to_add_of o m) + length m = natoms o.
Proof.
  intros Hnd Hlt. unfold to_add_of. rewrite (filter_ext _ (fun i => negb (mem i (map fst m)))) by (intros i; rewrite mem_key_map; reflexivity).
  rewrite <- (map_length fst m). rewrite <- (seq_length (natoms o) 0) at 2. apply filter_notin_length; [apply seq_NoDup|exact Hnd|].
  intros x Hx. apply in_seq. specialize (Hlt x Hx). lia.
Qed.

(* ---------- the pairs of common atoms *)
Lemma first_same_spec e p : forall els ps j r, first_same e p j els ps = Some r ->
  exists e' p', nth_error els (r - j) = Some e' /\ nth_error ps (r - j) = Some p' /\ e' = e /\ p' = p /\ j <= r.
Proof.
  induction els as [|e0 els IH]; intros [|p0 ps] j r H; cbn in H; try discriminate.
  destruct (Replace.vec_eqb p p0 && (e =? e0)%Z) eqn:E.
  - injection H as <-. apply andb_prop in E. destruct E as [E1 E2]. apply vec_eqb_eq in E1. apply Z.eqb_eq in E2. subst. rewrite Nat.sub_diag. exists e0, p0. cbn. auto.
  - apply IH in H. destruct H as [e' [p' [A [B [C [D F]]]]]]. exists e', p'. replace (r - j) with (Datatypes.S (r - Datatypes.S j)) by lia. cbn. repeat split; try assumption. lia.
Qed.

Lemma nth_error_combine {A B} (a : list A) (b : list B) i x y : nth_error (combine a b) i = Some (x, y) -> nth_error a i = Some x /\ nth_error b i = Some y.
Proof.
  revert b i. induction a as [|a0 a IH]; intros [|b0 b] [|i] H; cbn in H; try discriminate.
  - injection H as -> ->. split; reflexivity.
  - cbn. apply IH. exact H.
Qed.

Lemma unchanged_in repl search i j : length (a_typ repl) = natoms repl -> In (i, j) (unchanged repl search) ->
  i < natoms repl /\ j < natoms search /\
  exists e p, nth_error (elements_of repl) i = Some e /\ nth_error (a_pos repl) i = Some p /\
              nth_error (elements_of search) j = Some e /\ nth_error (a_pos search) j = Some p.
Proof.
  intros Hs H. destruct (unchanged_range repl search (i, j) H) as [Hi Hj]. cbn [fst snd] in *. split; [exact Hi|split; [exact Hj|]].
  unfold unchanged in H. apply in_flat_map in H. destruct H as [[i' [e p]] [Hin H]]. cbn [fst snd] in H.
  destruct (first_same e p 0 (elements_of search) (a_pos search)) as [r|] eqn:E; [|destruct H]. destruct H as [H|[]]. injection H as -> ->.
  apply first_same_spec in E. destruct E as [e' [p' [A [B [-> [-> _]]]]]]. rewrite Nat.sub_0_r in A, B.
  exists e, p.
  assert (L : natoms repl = length (combine (elements_of repl) (a_pos repl))).
  { rewrite combine_length. unfold elements_of. rewrite map_length, Hs. unfold natoms. lia. }
  rewrite L in Hin. apply in_combine_seq in Hin. destruct Hin as [_ Hn]. rewrite Nat.sub_0_r in Hn.
  apply nth_error_combine in Hn. destruct Hn as [N1 N2]. auto.
Qed.

(* distinct replacement atoms are common with distinct search atoms; every replacement atom occurs in at most one pair *)
Lemma keys_nodup_aux search : forall n s (l : list (Z * vec)),
  NoDup (map fst (flat_map (fun iep : nat * (Z * vec) => match first_same (fst (snd iep)) (snd (snd iep)) 0 (elements_of search) (a_pos search) with
                                                        | Some j => [(fst iep, j)] | None => [] end) (combine (seq s n) l))).
Proof.
  induction n as [|n IH]; intros s l; [constructor|]. cbn [seq]. destruct l as [|[e p] l]; [constructor|]. cbn [combine flat_map fst snd].
  assert (Hk : forall kv, In kv (flat_map (fun iep : nat * (Z * vec) => match first_same (fst (snd iep)) (snd (snd iep)) 0 (elements_of search) (a_pos search) with Some j => [(fst iep, j)] | None => [] end)
                               (combine (seq (Datatypes.S s) n) l)) -> Datatypes.S s <= fst kv).
  { intros kv H. apply in_flat_map in H. destruct H as [[i' ep] [Hin H]]. cbn [fst snd] in H. apply in_combine_l in Hin. apply in_seq in Hin.
    destruct (first_same (fst ep) (snd ep) 0 (elements_of search) (a_pos search)); [|destruct H]. destruct H as [<-|[]]. cbn. lia. }
  destruct (first_same e p 0 (elements_of search) (a_pos search)) as [j|]; [|apply IH].
  cbn [app map fst]. constructor; [|apply IH]. intros H. apply in_map_iff in H. destruct H as [kv [E Hin]]. specialize (Hk kv Hin). lia.
Qed.
Lemma unchanged_keys_nodup repl search : NoDup (map fst (unchanged repl search)).
Proof. unfold unchanged. apply keys_nodup_aux. Qed.
Lemma unchanged_vals_nodup repl search : pattern_distinct repl -> NoDup (map snd (unchanged repl search)).
Proof.
  intros [Hs Hd]. pose proof (unchanged_keys_nodup repl search) as Hk.
  assert (Inj : forall i i' j, In (i, j) (unchanged repl search) -> In (i', j) (unchanged repl search) -> i = i').
  { intros i i' j H1 H2. destruct (unchanged_in repl search i j Hs H1) as [_ [_ [e [p [A1 [A2 [A3 A4]]]]]]].
    destruct (unchanged_in repl search i' j Hs H2) as [_ [_ [e' [p' [B1 [B2 [B3 B4]]]]]]].
    assert (e' = e) by congruence. assert (p' = p) by congruence. subst.
    assert (C1 : nth_error (combine (elements_of repl) (a_pos repl)) i = Some (e, p)).
    { clear - A1 A2. revert i A1 A2. generalize (a_pos repl). induction (elements_of repl) as [|x l IH]; intros [|y ps] [|i] A1 A2; cbn in *; try discriminate; [congruence|apply IH; assumption]. }
    assert (C2 : nth_error (combine (elements_of repl) (a_pos repl)) i' = Some (e, p)).
    { clear - B1 B2. revert i' B1 B2. generalize (a_pos repl). induction (elements_of repl) as [|x l IH]; intros [|y ps] [|i] A1 A2; cbn in *; try discriminate; [congruence|apply IH; assumption]. }
    apply (proj1 (NoDup_nth_error _) Hd); [apply nth_error_Some; congruence|congruence]. }
  induction (unchanged repl search) as [|[i j] U IH]; [constructor|]. cbn [map fst snd] in *. inversion Hk as [|? ? Hi Hk']; subst. constructor.
  - intros H. apply in_map_iff in H. destruct H as [[i' j'] [E Hin]]. cbn in E. subst j'. assert (i = i') by (apply (Inj i i' j); [left; reflexivity|right; exact Hin]). subst i'.
    apply Hi. apply in_map_iff. exists (i, j). auto.
  - apply IH; [exact Hk'|]. intros a b c H1 H2. apply (Inj a b c); right; assumption.
Qed.

(* ---------- counting *)
Lemma flat_map_length_const {A B} (f : A -> list B) (l : list A) u c : (forall m, In m l -> length (f m) + u = c) ->
  length (flat_map f l) + length l * u = length l * c.
Proof.
  induction l as [|m l IH]; intros H; [reflexivity|]. cbn [flat_map length]. rewrite app_length.
  specialize (IH (fun x Hx => H x (or_intror Hx))). specialize (H m (or_introl eq_refl)). rewrite !Nat.mul_succ_l. lia.
Qed.

Definition common_count (ra : bool) (repl search : atoms) : nat := if ra then 0 else length (unchanged repl search).

Lemma index_map_keys ra repl search m : map fst (index_map ra repl search m) = if ra then [] else map fst (unchanged repl search).
Proof. unfold index_map. destruct ra; [reflexivity|]. rewrite map_map. reflexivity. Qed.
Lemma index_map_length ra repl search m : length (index_map ra repl search m) = common_count ra repl search.
Proof. unfold index_map, common_count. destruct ra; [reflexivity|apply map_length]. Qed.

Lemma inserted_per_match ra repl search m : length (m_placed m) = natoms repl ->
  length (to_add_of (with_pos repl (m_placed m)) (index_map ra repl search m)) + common_count ra repl search = natoms repl.
Proof.
  intros Lp. rewrite <- (index_map_length ra repl search m).
  assert (N : natoms (with_pos repl (m_placed m)) = natoms repl) by (unfold natoms, with_pos; cbn; exact Lp).
  rewrite <- N. apply to_add_length; rewrite index_map_keys; destruct ra; try constructor.
  - apply unchanged_keys_nodup.
  - intros k [].
  - intros k Hk. apply in_map_iff in Hk. destruct Hk as [kv [<- Hkv]]. rewrite N. apply (unchanged_range repl search kv Hkv).
Qed.

Lemma NoDup_map_nth (l : list nat) (js : list nat) : NoDup l -> NoDup js -> (forall j, In j js -> j < length l) -> NoDup (map (fun j => nth j l 0) js).
Proof.
  intros Hl Hj Hlt. induction Hj as [|j js Hn Hj IH]; cbn; constructor.
  - intros H. apply in_map_iff in H. destruct H as [j' [E Hj']]. rewrite NoDup_nth in Hl. assert (j' = j) by (apply Hl; [apply Hlt; right; exact Hj'|apply Hlt; left; reflexivity|exact E]). subst. contradiction.
  - apply IH. intros j' Hj'. apply Hlt. right. exact Hj'.
Qed.

Lemma dels_subset ra repl search m x : In x (dels ra repl search m) -> In x (m_idx m).
Proof. unfold dels. intros H. apply nodup_In in H. apply filter_In in H. tauto. Qed.
Lemma dels_nodup ra repl search m : NoDup (dels ra repl search m).
Proof. apply NoDup_nodup. Qed.

Lemma deleted_per_match ra repl search m : pattern_distinct repl -> NoDup (m_idx m) -> length (m_idx m) = natoms search ->
  length (dels ra repl search m) + common_count ra repl search = natoms search.
Proof.
  intros Hd Hn Ls. unfold dels. rewrite nodup_fixed_point by (apply NoDup_filter; exact Hn). rewrite <- Ls.
  change (fun i => negb (memn i (map snd (index_map ra repl search m)))) with (fun i => negb (mem i (map snd (index_map ra repl search m)))).
  rewrite <- (index_map_length ra repl search m). rewrite <- (map_length snd (index_map ra repl search m)).
  apply filter_notin_length; [exact Hn| |].
  - unfold index_map. destruct ra; [constructor|]. rewrite map_map. cbn [snd]. rewrite <- (map_map snd (fun j => nth j (m_idx m) 0)).
    apply NoDup_map_nth; [exact Hn|apply unchanged_vals_nodup; exact Hd|].
    intros j Hj. apply in_map_iff in Hj. destruct Hj as [kv [<- Hkv]]. rewrite Ls. apply (unchanged_range repl search kv Hkv).
  - intros x Hx. unfold index_map in Hx. destruct ra; [destruct Hx|]. rewrite map_map in Hx. apply in_map_iff in Hx. destruct Hx as [kv [<- Hkv]]. cbn [snd].
    apply nth_In. rewrite Ls. apply (unchanged_range repl search kv Hkv).
Qed.

(* selected matches that share no atom *)
Inductive disjoint_matches : list smatch -> Prop :=
| dm_nil : disjoint_matches []
| dm_cons m l : NoDup (m_idx m) -> (forall m' x, In m' l -> In x (m_idx m) -> ~ In x (m_idx m')) -> disjoint_matches l -> disjoint_matches (m :: l).

Lemma dels_flat_nodup ra repl search sel : disjoint_matches sel -> NoDup (flat_map (dels ra repl search) sel).
Proof.
  induction 1 as [|m l Hn Hd Hl IH]; cbn; [constructor|]. apply NoDup_app_intro; [apply dels_nodup|exact IH|].
  intros x Hx Hin. apply in_flat_map in Hin. destruct Hin as [m' [Hm' Hx']]. apply (Hd m' x Hm'); [apply (dels_subset _ _ _ _ _ Hx)|apply (dels_subset _ _ _ _ _ Hx')].
Qed.

Theorem replace_count S search repl ra ig sel S' k : natoms repl <> 0 -> pattern_distinct repl ->
  Forall (match_ok S search repl) sel -> disjoint_matches sel ->
  replace_from S search repl ra ig sel = Ok S' k ->
  k = length sel /\ natoms S' + length sel * natoms search = natoms S + length sel * natoms repl.
Proof.
  intros Hnr Hd Hm Hdis H. destruct (replace_ok_atoms S search repl ra ig sel S' k Hnr H) as [Hk [del [Hnd [Hdel [Hp _]]]]].
  split; [exact Hk|].
  set (ins := inserted ra repl search sel (fun m i => nth i (m_placed m) (0, 0, 0)%Z)) in *.
  assert (Li : length ins + length sel * common_count ra repl search = length sel * natoms repl).
  { unfold ins, inserted. apply flat_map_length_const. intros m Hin. rewrite map_length. apply inserted_per_match.
    rewrite Forall_forall in Hm. destruct (Hm m Hin) as [_ [_ L]]. exact L. }
  assert (Ld : length del + length sel * common_count ra repl search = length sel * natoms search).
  { assert (P : Permutation del (flat_map (dels ra repl search) sel)).
    { apply NoDup_Permutation; [exact Hnd|apply dels_flat_nodup; exact Hdis|]. intros x. rewrite Hdel, in_flat_map. reflexivity. }
    rewrite (Permutation_length P). apply flat_map_length_const. intros m Hin. rewrite Forall_forall in Hm. destruct (Hm m Hin) as [L [_ _]].
    apply deleted_per_match; [exact Hd| |exact L]. clear - Hdis Hin. induction Hdis as [|m0 l Hn _ _ IH]; [destruct Hin|]. destruct Hin as [->|Hin]; [exact Hn|apply IH; exact Hin]. }
  assert (Lt : forall x, In x del -> x < natoms S + length ins).
  { intros x Hx. apply Hdel in Hx. destruct Hx as [m [Hin Hx]]. apply dels_subset in Hx. rewrite Forall_forall in Hm. destruct (Hm m Hin) as [_ [F _]].
    rewrite Forall_forall in F. specialize (F x Hx). lia. }
  assert (N' : natoms S' + length del = natoms S + length ins).
  { unfold natoms at 1. rewrite Hp, np_delete_length_keep, app_length. fold (natoms S). apply keep_length; [exact Hnd|]. intros x Hx. apply (Lt x Hx). }
  lia.
Qed.
