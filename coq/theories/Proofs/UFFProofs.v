(* Proofs about the UFF parameter model (C18) *)
From Coq Require Import Reals ZArith List String Ascii Bool Lra Lia Psatz.
From Interval Require Import Tactic.
From Mofun Require Import Model.UFF.
Import ListNotations.
Open Scope R_scope.

(* ---------- symmetry under reversal of the type sequence ---------- *)
Lemma rEN_sym ri rj xi xj : rEN ri rj xi xj = rEN rj ri xj xi.
Proof. unfold rEN. replace (xj * rj + xi * ri) with (xi * ri + xj * rj) by ring. replace ((sqrt xj - sqrt xi) ^ 2) with ((sqrt xi - sqrt xj) ^ 2) by ring.
  replace (rj * ri) with (ri * rj) by ring. reflexivity. Qed.
Lemma bond_r_sym ri rj xi xj bo : bond_r ri rj xi xj bo = bond_r rj ri xj xi bo.
Proof. unfold bond_r, rBO. rewrite (rEN_sym ri rj xi xj). ring. Qed.
Lemma bond_k_sym zi zj r : bond_k zi zj r = bond_k zj zi r.
Proof. unfold bond_k, Rdiv. ring. Qed.

Lemma r_ik_sym a b th : r_ik a b th = r_ik b a th.
Proof. unfold r_ik. f_equal. ring. Qed.
Lemma angle_k_sym zi zk rij rjk th : angle_k zi zk rij rjk th = angle_k zk zi rjk rij th.
Proof. unfold angle_k. rewrite (r_ik_sym rjk rij th). unfold Rdiv. ring. Qed.

Lemma tors_sp3_sym v1 v2 m : tors_sp3 v1 v2 m = tors_sp3 v2 v1 m.
Proof. unfold tors_sp3. rewrite (Rmult_comm v2 v1). reflexivity. Qed.
Lemma tors_sp2_sym u2 u3 bo m : tors_sp2 u2 u3 bo m = tors_sp2 u3 u2 bo m.
Proof. unfold tors_sp2. rewrite (Rmult_comm u3 u2). reflexivity. Qed.

Section WithTable.
Variable T : list (string * list Z).
Variable main_group : list string.

Lemma eqb_sym' a b : String.eqb a b = String.eqb b a.
Proof. destruct (String.eqb a b) eqn:E; symmetry; [apply String.eqb_eq in E; subst; apply String.eqb_refl|].
  destruct (String.eqb b a) eqn:F; [apply String.eqb_eq in F; subst; rewrite String.eqb_refl in E; discriminate|reflexivity]. Qed.

Lemma rule_matches_sym a1 a2 r : rule_matches a1 a2 r = rule_matches a2 a1 r.
Proof.
  destruct r as [[s1 s2] b]. unfold rule_matches.
  rewrite (andb_comm (String.eqb a1 s1 || String.eqb a1 s2) (String.eqb a2 s1 || String.eqb a2 s2)).
  rewrite (orb_comm (String.eqb s1 a1) (String.eqb s1 a2)), (orb_comm (String.eqb s2 a1) (String.eqb s2 a2)). reflexivity.
Qed.
Lemma first_rule_sym a1 a2 rs : first_rule a1 a2 rs = first_rule a2 a1 rs.
Proof. induction rs as [|r t IH]; cbn; [reflexivity|]. rewrite rule_matches_sym, IH. reflexivity. Qed.

Theorem guess_bond_order_sym a1 a2 rules : guess_bond_order a1 a2 rules = guess_bond_order a2 a1 rules.
Proof.
  unfold guess_bond_order. rewrite first_rule_sym. destruct (first_rule a2 a1 rules); [reflexivity|].
  rewrite (orb_comm (mem a1 single_bonded) (mem a2 single_bonded)). destruct (mem a2 single_bonded || mem a1 single_bonded); [reflexivity|].
  rewrite (eqb_sym' a1 a2). destruct (String.eqb a2 a1) eqn:E; [apply String.eqb_eq in E; subst; reflexivity|reflexivity].
Qed.

Theorem bond_length_sym a1 a2 bo : bond_length T a1 a2 bo = bond_length T a2 a1 bo.
Proof. unfold bond_length. apply bond_r_sym. Qed.
Theorem bond_force_sym a1 a2 bo : bond_force T a1 a2 bo = bond_force T a2 a1 bo.
Proof. unfold bond_force. rewrite (bond_length_sym a1 a2 bo). apply bond_k_sym. Qed.

Theorem angle_force_sym a1 a2 a3 b12 b23 : angle_force T a1 a2 a3 b12 b23 = angle_force T a3 a2 a1 b23 b12.
Proof. unfold angle_force. rewrite (bond_length_sym a3 a2 b23), (bond_length_sym a2 a1 b12). apply angle_k_sym. Qed.

Theorem tors_case_sym a1 a2 a3 a4 : tors_case main_group a1 a2 a3 a4 = tors_case main_group a4 a3 a2 a1.
Proof.
  unfold tors_case. cbv zeta.
  rewrite (andb_comm (h_is a3 "3") (h_is a2 "3")).
  rewrite (andb_comm (mem (elem a3) oxygen_group) (mem (elem a2) oxygen_group)).
  rewrite (andb_comm (h_in23R a3 false) (h_in23R a2 false)).
  rewrite (andb_comm (h_in23R a3 true) (h_in23R a2 true)).
  rewrite (orb_comm (h_is a4 "2" && h_is a3 "2") (h_is a2 "2" && h_is a1 "2")).
  rewrite (andb_comm (h_is a4 "2") (h_is a3 "2")), (andb_comm (h_is a2 "2") (h_is a1 "2")).
  rewrite (orb_comm (h_is a3 "3" && mem (elem a3) oxygen_group && negb (mem (elem a2) oxygen_group))
                    (h_is a2 "3" && mem (elem a2) oxygen_group && negb (mem (elem a3) oxygen_group))).
  rewrite (orb_comm (h_is a3 "1") (h_is a2 "1")).
  rewrite (andb_comm (mem (elem a3) main_group) (mem (elem a2) main_group)).
  reflexivity.
Qed.

Theorem tors_force_sym a1 a2 a3 a4 bo m : tors_force T main_group a1 a2 a3 a4 bo m = tors_force T main_group a4 a3 a2 a1 bo m.
Proof.
  unfold tors_force. rewrite <- (tors_case_sym a1 a2 a3 a4). destruct (tors_case main_group a1 a2 a3 a4) as [[|[|[|[|[|k]]]]] d n| |];
  try reflexivity; try apply tors_sp3_sym; try apply tors_sp2_sym.
Qed.
End WithTable.

(* ---------- positivity ---------- *)
Lemma ln_nonneg x : 1 <= x -> 0 <= ln x.
Proof.
  intros H. destruct (Rle_lt_or_eq_dec 1 x H) as [Hlt|Heq].
  - pose proof (ln_increasing 1 x ltac:(lra) Hlt) as L. rewrite ln_1 in L. lra.
  - subst x. rewrite ln_1. lra.
Qed.

Lemma rEN_bound ri rj xi xj : 0 < ri -> 0 < rj -> 2 <= xi <= 11.04 -> 2 <= xj <= 11.04 -> rEN ri rj xi xj <= 0.4554 * (ri + rj).
Proof.
  intros Hi Hj Hxi Hxj. unfold rEN.
  assert (Hs : 1.41421 <= sqrt xi <= 3.32266) by (split; interval with (i_prec 60)).
  assert (Ht : 1.41421 <= sqrt xj <= 3.32266) by (split; interval with (i_prec 60)).
  set (s := sqrt xi) in *. set (t := sqrt xj) in *.
  assert (Hd : 0 < xi * ri + xj * rj) by nra.
  assert (Hsq : (s - t) ^ 2 <= 3.6427) by nra.
  assert (Hden : 2 * (ri + rj) <= xi * ri + xj * rj) by nra.
  apply (Rmult_le_reg_r (xi * ri + xj * rj)); [lra|]. unfold Rdiv. rewrite Rmult_assoc, Rinv_l by lra. rewrite Rmult_1_r.
  assert (H4 : 4 * (ri * rj) <= (ri + rj) ^ 2) by (pose proof (pow2_ge_0 (ri - rj)); nra).
  assert (Hpos : 0 <= ri * rj) by nra.
  assert (A : ri * rj * (s - t) ^ 2 <= ri * rj * 3.6427) by (apply Rmult_le_compat_l; lra).
  assert (B : 0.4554 * (ri + rj) * (2 * (ri + rj)) <= 0.4554 * (ri + rj) * (xi * ri + xj * rj)) by (apply Rmult_le_compat_l; [nra|lra]).
  nra.
Qed.

(* bond length: at least 39 % of the sum of the two valence radii, hence positive *)
Theorem bond_r_positive ri rj xi xj bo : 0 < ri -> 0 < rj -> 2 <= xi <= 11.04 -> 2 <= xj <= 11.04 -> 1 <= bo <= 3 ->
  0.39 * (ri + rj) <= bond_r ri rj xi xj bo.
Proof.
  intros Hi Hj Hxi Hxj Hbo. unfold bond_r, rBO. pose proof (rEN_bound ri rj xi xj Hi Hj Hxi Hxj) as HE.
  assert (Hln : 0 <= ln bo <= 1.0987) by (split; interval with (i_prec 60)). nra.
Qed.
Theorem bond_r_upper ri rj xi xj bo : 0 < ri -> 0 < rj -> 0 < xi -> 0 < xj -> 1 <= bo -> bond_r ri rj xi xj bo <= ri + rj.
Proof.
  intros Hi Hj Hxi Hxj Hbo. unfold bond_r, rBO, rEN.
  assert (Hln : 0 <= ln bo) by (apply ln_nonneg; exact Hbo).
  assert (Hd : 0 < xi * ri + xj * rj) by nra.
  assert (Hq : 0 <= ri * rj * (sqrt xi - sqrt xj) ^ 2 / (xi * ri + xj * rj)).
  { apply Rmult_le_pos; [apply Rmult_le_pos; [nra|apply pow2_ge_0]|left; apply Rinv_0_lt_compat; exact Hd]. }
  nra.
Qed.
Theorem bond_k_positive zi zj r : 0 < zi -> 0 < zj -> 0 < r -> 0 < bond_k zi zj r.
Proof.
  intros Hi Hj Hr. unfold bond_k, Rdiv. assert (0 < r ^ 3) by (apply pow_lt; exact Hr).
  apply Rmult_lt_0_compat; [|lra]. apply Rmult_lt_0_compat; [nra|apply Rinv_0_lt_compat; assumption].
Qed.

(* angle force constant: positive whenever the natural angle is at least 90 degrees (cos <= 0) *)
Lemma r_ik_sq_obtuse rij rjk c : 0 < rij -> 0 < rjk -> c <= 0 -> 0 < rij ^ 2 + rjk ^ 2 - 2 * rij * rjk * c.
Proof.
  intros Hi Hj Hc. assert (P : 0 < rij * rjk) by (apply Rmult_lt_0_compat; assumption).
  assert (Q : 0 <= rij * rjk * (- c)) by (apply Rmult_le_pos; lra). pose proof (pow2_ge_0 rij). pose proof (pow2_ge_0 rjk).
  assert (0 < rij ^ 2) by (apply pow_lt; exact Hi). lra.
Qed.
Theorem angle_k_positive_obtuse zi zk rij rjk th : 0 < zi -> 0 < zk -> 0 < rij -> 0 < rjk -> cos th <= 0 -> 0 < angle_k zi zk rij rjk th.
Proof.
  intros Hzi Hzk Hij Hjk Hc. unfold angle_k, r_ik. set (c := cos th) in *.
  assert (Hc1 : -1 <= c) by (unfold c; apply COS_bound).
  set (q := rij ^ 2 + rjk ^ 2 - 2 * rij * rjk * c). assert (Hq : 0 < q) by (unfold q; apply r_ik_sq_obtuse; assumption).
  assert (Hs : 0 < sqrt q) by (apply sqrt_lt_R0; exact Hq).
  assert (Hs2 : sqrt q ^ 2 = q) by (rewrite <- Rsqr_pow2; apply Rsqr_sqrt; lra).
  rewrite Hs2.
  assert (P : 0 < rij * rjk) by (apply Rmult_lt_0_compat; assumption).
  assert (Hbr : 0 < 3 * rij * rjk * (1 - c ^ 2) - q * c).
  { destruct (Req_dec c 0) as [E|E]; [rewrite E; nra|]. assert (c < 0) by lra. assert (0 <= 1 - c ^ 2) by nra. assert (0 < - (q * c)) by nra. nra. }
  apply Rmult_lt_0_compat; [|exact Hbr]. apply Rmult_lt_0_compat; [lra|]. unfold Rdiv. apply Rmult_lt_0_compat; [nra|].
  apply Rinv_0_lt_compat. apply pow_lt. exact Hs.
Qed.
(* ... and for the one table entry below 90 degrees (H_b, 83.5 degrees), for bond lengths whose ratio stays below 20 *)
Theorem angle_k_positive_acute zi zk rij rjk c : 0 < zi -> 0 < zk -> 0 < rij -> 0 < rjk -> 0 <= c <= 0.12 ->
  rij <= 20 * rjk -> rjk <= 20 * rij ->
  0 < 664.12 * (zi * zk / (sqrt (rij ^ 2 + rjk ^ 2 - 2 * rij * rjk * c)) ^ 5) * (3 * rij * rjk * (1 - c ^ 2) - (sqrt (rij ^ 2 + rjk ^ 2 - 2 * rij * rjk * c)) ^ 2 * c).
Proof.
  intros Hzi Hzk Hij Hjk Hc H1 H2.
  set (q := rij ^ 2 + rjk ^ 2 - 2 * rij * rjk * c). assert (Hq : 0 < q) by (unfold q; pose proof (pow2_ge_0 (rij - rjk)); nra).
  assert (Hs : 0 < sqrt q) by (apply sqrt_lt_R0; exact Hq).
  assert (Hs2 : sqrt q ^ 2 = q) by (rewrite <- Rsqr_pow2; apply Rsqr_sqrt; lra).
  rewrite Hs2.
  assert (Hbr : 0 < 3 * rij * rjk * (1 - c ^ 2) - q * c).
  { unfold q. assert (P : 0 < rij * rjk) by (apply Rmult_lt_0_compat; assumption).
    assert (M : 0 <= (20 * rjk - rij) * (20 * rij - rjk)) by (apply Rmult_le_pos; lra).
    assert (S : rij ^ 2 + rjk ^ 2 <= 20.05 * (rij * rjk)) by nra.
    assert (Sc : (rij ^ 2 + rjk ^ 2) * c <= 20.05 * (rij * rjk) * c) by (apply Rmult_le_compat_r; lra).
    assert (C : 0.5 <= 3 - c ^ 2 - 20.05 * c) by nra.
    assert (PC : 0.5 * (rij * rjk) <= (3 - c ^ 2 - 20.05 * c) * (rij * rjk)) by (apply Rmult_le_compat_r; lra).
    nra. }
  apply Rmult_lt_0_compat; [|exact Hbr]. apply Rmult_lt_0_compat; [lra|]. unfold Rdiv. apply Rmult_lt_0_compat; [nra|].
  apply Rinv_0_lt_compat. apply pow_lt. exact Hs.
Qed.

(* torsion barriers are non-negative *)
Theorem tors_sp3_nonneg v1 v2 m : 0 < m -> 0 <= tors_sp3 v1 v2 m.
Proof. intros Hm. unfold tors_sp3, Rdiv. pose proof (sqrt_pos (v1 * v2)). assert (0 < / m) by (apply Rinv_0_lt_compat; exact Hm). nra. Qed.
Theorem tors_sp2_nonneg u2 u3 bo m : 0 < m -> 1 <= bo -> 0 <= tors_sp2 u2 u3 bo m.
Proof.
  intros Hm Hbo. unfold tors_sp2, Rdiv. pose proof (sqrt_pos (u2 * u3)). assert (0 < / m) by (apply Rinv_0_lt_compat; exact Hm).
  assert (Hln : 0 <= ln bo) by (apply ln_nonneg; exact Hbo).
  assert (0 <= 5 * sqrt (u2 * u3) * (1 + 4.18 * ln bo)) by nra. nra.
Qed.

(* the documented potential style: cosine/periodic with (b, n) = (1,1), (-1,3), (-1,2) [sp3-like third character '3'], (1,4) exactly for
   theta0 = 180, 120, 90; fourier otherwise, where sin(theta0) <> 0 makes the coefficients finite *)
Theorem fourier_c2_finite th : sin th <> 0 -> 0 < four_c2 th.
Proof. intros H. unfold four_c2, Rdiv. rewrite Rmult_1_l. apply Rinv_0_lt_compat. assert (0 < sin th ^ 2) by (destruct (Rdichotomy _ _ H) as [N|P]; nra). lra. Qed.

(* ---------- from a boolean sweep over the (integer) table to facts about its real values ---------- *)
Definition entry_ok (v : list Z) : bool :=
  ((10000 <=? nth 0 v 0) && (nth 0 v 0 <=? 2880000) &&          (* 0.01 <= r1 <= 2.88 *)
   (2000000 <=? nth 8 v 0) && (nth 8 v 0 <=? 11040000) &&       (* 2 <= Xi <= 11.04 *)
   (0 <? nth 5 v 0) &&                                          (* Z1 > 0 *)
   (0 <=? nth 6 v 0) && (0 <=? nth 7 v 0) &&                    (* Vi, Uj >= 0 *)
   (0 <? nth 1 v 0) && (nth 1 v 0 <=? 180000000) &&             (* 0 < theta0 <= 180 *)
   ((90000000 <=? nth 1 v 0) || ((83200000 <=? nth 1 v 0) && (450000 <=? nth 0 v 0))))%Z.   (* acute centres: theta0 >= 83.2, r1 >= 0.45 *)
Definition table_ok (T : list (string * list Z)) : bool := forallb (fun kv => entry_ok (snd kv)) T.

Lemma lookup_in a T v : lookup a T = Some v -> In (a, v) T.
Proof.
  induction T as [|[k w] t IH]; cbn; [discriminate|]. destruct (String.eqb a k) eqn:E.
  - intros H; injection H as <-. apply String.eqb_eq in E. subst. left; reflexivity.
  - intros H. right. apply IH. exact H.
Qed.
Lemma table_entry_ok T a v : table_ok T = true -> lookup a T = Some v -> entry_ok v = true.
Proof. intros HT HL. apply lookup_in in HL. unfold table_ok in HT. rewrite forallb_forall in HT. apply (HT (a, v) HL). Qed.

Lemma getR_eq T a v k : lookup a T = Some v -> getR T a k = IZR (nth k v 0%Z) / 1000000.
Proof. intros H. unfold getR, getZ. rewrite H. reflexivity. Qed.

Lemma scaled_le (z lo : Z) : (lo <= z)%Z -> IZR lo / 1000000 <= IZR z / 1000000.
Proof. intros H. apply IZR_le in H. lra. Qed.
Lemma scaled_lt (z lo : Z) : (lo < z)%Z -> IZR lo / 1000000 < IZR z / 1000000.
Proof. intros H. apply IZR_lt in H. lra. Qed.

Record entry_facts (v : list Z) : Prop := {
  ef_r : 0.01 <= IZR (nth 0 v 0%Z) / 1000000 <= 2.88;
  ef_x : 2 <= IZR (nth 8 v 0%Z) / 1000000 <= 11.04;
  ef_z : 0 < IZR (nth 5 v 0%Z) / 1000000;
  ef_th : 0 < IZR (nth 1 v 0%Z) / 1000000 <= 180;
  ef_acute : 90 <= IZR (nth 1 v 0%Z) / 1000000 \/ (83.2 <= IZR (nth 1 v 0%Z) / 1000000 /\ 0.45 <= IZR (nth 0 v 0%Z) / 1000000)
}.
Lemma entry_ok_facts v : entry_ok v = true -> entry_facts v.
Proof.
  unfold entry_ok. intros H. repeat (apply andb_true_iff in H; destruct H as [H ?]).
  repeat match goal with X : (_ <=? _)%Z = true |- _ => apply Z.leb_le in X | X : (_ <? _)%Z = true |- _ => apply Z.ltb_lt in X end.
  constructor.
  - split; [pose proof (scaled_le _ _ H) as A|pose proof (scaled_le _ _ H8) as A]; cbn in A; lra.
  - split; [pose proof (scaled_le _ _ H7) as A|pose proof (scaled_le _ _ H6) as A]; cbn in A; lra.
  - pose proof (scaled_lt _ _ H5) as A. cbn in A. lra.
  - split; [pose proof (scaled_lt _ _ H2) as A|pose proof (scaled_le _ _ H1) as A]; cbn in A; lra.
  - apply orb_true_iff in H0. destruct H0 as [A|A].
    + left. apply Z.leb_le in A. pose proof (scaled_le _ _ A) as B. cbn in B. lra.
    + right. apply andb_true_iff in A. destruct A as [A1 A2]. apply Z.leb_le in A1, A2.
      pose proof (scaled_le _ _ A1) as B1. pose proof (scaled_le _ _ A2) as B2. cbn in B1, B2. lra.
Qed.

Lemma rad_mono a b : a <= b -> rad a <= rad b.
Proof. intros H. unfold rad. pose proof PI_RGT_0. assert (a * 2 * PI <= b * 2 * PI) by (apply Rmult_le_compat_r; lra). lra. Qed.
Lemma rad_90 : rad 90 = PI / 2. Proof. unfold rad. field. Qed.
Lemma rad_180 : rad 180 = PI. Proof. unfold rad. field. Qed.
Lemma rad_0 : rad 0 = 0. Proof. unfold rad. field. Qed.

Section TableFacts.
Variable T : list (string * list Z).
Hypothesis HT : table_ok T = true.

(* every pair of types of the table: positive, finite bond length (>= 39 % of r_i + r_j, <= r_i + r_j) and positive force constant *)
Theorem table_bond_positive a1 a2 v1 v2 bo : lookup a1 T = Some v1 -> lookup a2 T = Some v2 -> 1 <= bo <= 3 ->
  0.39 * (getR T a1 0 + getR T a2 0) <= bond_length T a1 a2 bo <= getR T a1 0 + getR T a2 0 /\ 0 < bond_length T a1 a2 bo /\ 0 < bond_force T a1 a2 bo.
Proof.
  intros L1 L2 Hbo. destruct (entry_ok_facts v1 (table_entry_ok T a1 v1 HT L1)) as [R1 X1 Z1 _ _].
  destruct (entry_ok_facts v2 (table_entry_ok T a2 v2 HT L2)) as [R2 X2 Z2 _ _].
  unfold bond_force, bond_length. rewrite !(getR_eq T a1 v1 _ L1), !(getR_eq T a2 v2 _ L2).
  set (ri := IZR (nth 0 v1 0%Z) / 1000000) in *. set (rj := IZR (nth 0 v2 0%Z) / 1000000) in *.
  set (xi := IZR (nth 8 v1 0%Z) / 1000000) in *. set (xj := IZR (nth 8 v2 0%Z) / 1000000) in *.
  pose proof (bond_r_positive ri rj xi xj bo ltac:(lra) ltac:(lra) X1 X2 Hbo) as P.
  pose proof (bond_r_upper ri rj xi xj bo ltac:(lra) ltac:(lra) ltac:(lra) ltac:(lra) ltac:(lra)) as U.
  assert (Q : 0 < bond_r ri rj xi xj bo) by lra.
  split; [split; assumption|]. split; [exact Q|]. apply bond_k_positive; assumption.
Qed.

(* every triple of types of the table: positive angle force constant (bond orders between 1 and 3) *)
Theorem table_angle_positive a1 a2 a3 v1 v2 v3 b12 b23 : lookup a1 T = Some v1 -> lookup a2 T = Some v2 -> lookup a3 T = Some v3 ->
  1 <= b12 <= 3 -> 1 <= b23 <= 3 -> 0 < angle_force T a1 a2 a3 b12 b23.
Proof.
  intros L1 L2 L3 H12 H23.
  destruct (table_bond_positive a1 a2 v1 v2 b12 L1 L2 H12) as [[Lo1 Up1] [P1 _]].
  destruct (table_bond_positive a2 a3 v2 v3 b23 L2 L3 H23) as [[Lo2 Up2] [P2 _]].
  destruct (entry_ok_facts v1 (table_entry_ok T a1 v1 HT L1)) as [R1 _ Z1 _ _].
  destruct (entry_ok_facts v3 (table_entry_ok T a3 v3 HT L3)) as [R3 _ Z3 _ _].
  destruct (entry_ok_facts v2 (table_entry_ok T a2 v2 HT L2)) as [R2 _ _ TH AC].
  unfold angle_force. rewrite (getR_eq T a1 v1 5 L1), (getR_eq T a3 v3 5 L3).
  rewrite (getR_eq T a1 v1 0 L1), (getR_eq T a2 v2 0 L2) in Lo1, Up1. rewrite (getR_eq T a2 v2 0 L2), (getR_eq T a3 v3 0 L3) in Lo2, Up2.
  unfold angle_theta. rewrite (getR_eq T a2 v2 1 L2). set (th := IZR (nth 1 v2 0%Z) / 1000000) in *.
  pose proof PI_RGT_0 as HPI.
  destruct (Rle_lt_dec 90 th) as [Ob|Ac90].
  - apply angle_k_positive_obtuse; try assumption.
    pose proof (rad_mono 90 th Ob) as A. rewrite rad_90 in A. pose proof (rad_mono th 180 (proj2 TH)) as B. rewrite rad_180 in B.
    apply cos_le_0; lra.
  - destruct AC as [Ob|[Ac Rb]]; [lra|].
    unfold angle_k, r_ik. apply angle_k_positive_acute; try assumption.
    + pose proof (rad_mono th 90 ltac:(lra)) as A. rewrite rad_90 in A. pose proof (rad_mono 0 th ltac:(lra)) as B. rewrite rad_0 in B.
      split; [apply cos_ge_0; lra|]. unfold rad. assert (Hth : 83.2 <= th <= 90) by lra. clear -Hth. interval with (i_prec 40).
    + nra.
    + nra.
Qed.
End TableFacts.
