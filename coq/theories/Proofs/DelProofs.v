(* Proofs about Atoms.__delitem__ / _delete_and_reindex_atom_index_array (C10). *)
From Coq Require Import List Arith Bool Lia Permutation ZArith.
From Mofun Require Import Lib.NP Model.Atoms.
Import ListNotations.

Definition count_below (D:list nat) (v:nat) := length (filter (fun d => d <? v) D).
Definition ren (D:list nat) (v:nat) := v - count_below D v.

Fixpoint sdesc (l:list nat) := match l with [] => True | x::t => Forall (fun y => y < x) t /\ sdesc t end.

Lemma ins_desc_perm x l : Permutation (x::l) (ins_desc x l).
Proof. induction l as [|y t IH]; simpl; auto. destruct (y <=? x); auto. eapply perm_trans; [apply perm_swap|]. constructor. exact IH. Qed.
Lemma sort_desc_perm l : Permutation l (sort_desc l).
Proof. induction l as [|x l IH]; simpl; auto. eapply perm_trans; [|apply ins_desc_perm]. constructor. exact IH. Qed.
Lemma ins_desc_sdesc x l : sdesc l -> ~ In x l -> sdesc (ins_desc x l).
Proof.
  induction l as [|y t IH]; simpl; intros Hs Hn; auto.
  destruct Hs as [Hf Hs]. destruct (y <=? x) eqn:E.
  - apply Nat.leb_le in E. simpl. split; [|split; assumption].
    constructor; [lia|]. eapply Forall_impl; [|exact Hf]. intros; simpl in *; lia.
  - apply Nat.leb_gt in E. simpl. split.
    + assert (P: Permutation (x::t) (ins_desc x t)) by apply ins_desc_perm.
      eapply Permutation_Forall; [exact P|]. constructor; [lia|exact Hf].
    + apply IH; auto.
Qed.
Lemma sort_desc_sdesc l : NoDup l -> sdesc (sort_desc l).
Proof. induction 1 as [|x l Hn Hd IH]; simpl; auto. apply ins_desc_sdesc; auto.
  intro Hin. apply Hn. eapply Permutation_in; [apply Permutation_sym, sort_desc_perm|exact Hin]. Qed.

Lemma count_below_perm D D' v : Permutation D D' -> count_below D v = count_below D' v.
Proof. intros P. unfold count_below. induction P; simpl; auto; repeat (match goal with |- context[if ?b then _ else _] => destruct b end); simpl; lia. Qed.

Lemma count_below_dec D v d : Forall (fun y => y < d) D -> d < v -> count_below D (v-1) = count_below D v.
Proof. unfold count_below. induction 1 as [|x D Hx HF IH]; intros Hv; simpl; auto.
  destruct (x <? v - 1) eqn:A, (x <? v) eqn:B; simpl; rewrite ?IH by assumption; auto;
  (apply Nat.ltb_lt in A || apply Nat.ltb_ge in A); (apply Nat.ltb_lt in B || apply Nat.ltb_ge in B); lia. Qed.

Lemma fold_dec_ren D v : sdesc D -> ~ In v D -> fold_left (fun a d => dec1 d a) D v = ren D v.
Proof.
  revert v. induction D as [|d D IH]; intros v Hs Hn; simpl.
  - unfold ren, count_below; simpl; lia.
  - destruct Hs as [Hlt Hs]. assert (Hd : v <> d) by (intro; subst; apply Hn; left; auto).
    unfold dec1 at 2. destruct (d <? v) eqn:E.
    + apply Nat.ltb_lt in E. rewrite IH.
      * unfold ren. rewrite (count_below_dec D v d) by assumption. unfold count_below at 2. simpl.
        assert (d <? v = true) by (apply Nat.ltb_lt; lia). rewrite H. simpl. fold (count_below D v).
        lia.
      * exact Hs.
      * intro Hin. rewrite Forall_forall in Hlt. specialize (Hlt _ Hin). lia.
    + apply Nat.ltb_ge in E. rewrite IH.
      * unfold ren, count_below. simpl. assert (d <? v = false) by (apply Nat.ltb_ge; lia). rewrite H. reflexivity.
      * exact Hs.
      * intro; apply Hn; right; auto.
Qed.

Lemma fold_dec_above_map D : forall tups, fold_left (fun acc d => dec_above d acc) D tups = map (map (fun v => fold_left (fun a d => dec1 d a) D v)) tups.
Proof.
  induction D as [|d D IH]; intros tups; simpl.
  - symmetry. erewrite map_ext; [apply map_id|]. intros t. simpl. apply map_id.
  - rewrite IH. unfold dec_above. rewrite map_map. apply map_ext. intros t. rewrite map_map. reflexivity.
Qed.

Lemma touches_false ds t : touches ds t = false -> forall v, In v t -> ~ In v ds.
Proof. unfold touches. intros H v Hv Hd. assert (existsb (fun v0 => memb v0 ds) t = true) by (apply existsb_exists; exists v; split; auto; apply memb_In; auto). congruence. Qed.

(* C10 core: the literal algorithm equals the specification *)
Theorem delete_and_reindex_spec ds tups : NoDup ds ->
  fst (delete_and_reindex ds tups) = map (map (ren ds)) (filter (fun t => negb (touches ds t)) tups).
Proof.
  intros Hnd. unfold delete_and_reindex, reindex. simpl. rewrite np_delete_find_idx, fold_dec_above_map.
  apply map_ext_in. intros t Ht. apply filter_In in Ht. destruct Ht as [_ Ht]. apply negb_true_iff in Ht.
  apply map_ext_in. intros v Hv.
  rewrite fold_dec_ren.
  - unfold ren. rewrite (count_below_perm _ _ v (Permutation_sym (sort_desc_perm ds))). reflexivity.
  - apply sort_desc_sdesc; auto.
  - intro Hin. eapply (touches_false ds t Ht v Hv). eapply Permutation_in; [apply Permutation_sym, sort_desc_perm|exact Hin].
Qed.


(* the mutation "process deleted indices in ascending order" is NOT correct: witness *)
Definition reindex_asc (ds : list nat) (tups : list (list nat)) := fold_left (fun acc d => dec_above d acc) (rev (sort_desc ds)) tups.
Example ascending_is_wrong : reindex_asc [1;2] [[0;3]] <> map (map (ren [1;2])) [[0;3]].
Proof. vm_compute. discriminate. Qed.

(* ---------- np_delete as "keep the other indices, in order" *)
Definition keep (n : nat) (ds : list nat) : list nat := filter (fun i => negb (memb i ds)) (seq 0 n).

Lemma np_delete_from_keep {A} (d : A) (l : list A) ds : forall i,
  np_delete_from i l ds = map (fun j => nth (j - i) l d) (filter (fun j => negb (memb j ds)) (seq i (length l))).
Proof.
  induction l as [|x l IH]; intros i; cbn [np_delete_from length seq filter map]; [reflexivity|].
  destruct (memb i ds); cbn [negb].
  - rewrite IH. apply map_ext_in. intros j Hj. apply filter_In in Hj. destruct Hj as [Hj _]. apply in_seq in Hj.
    replace (j - i) with (S (j - S i)) by lia. reflexivity.
  - cbn [map]. rewrite Nat.sub_diag. cbn [nth]. f_equal. rewrite IH. apply map_ext_in. intros j Hj.
    apply filter_In in Hj. destruct Hj as [Hj _]. apply in_seq in Hj. replace (j - i) with (S (j - S i)) by lia. reflexivity.
Qed.
Lemma np_delete_keep {A} (d : A) (l : list A) ds : np_delete l ds = np_take d l (keep (length l) ds).
Proof. unfold np_delete, np_take, keep. rewrite (np_delete_from_keep d). apply map_ext. intros j. rewrite Nat.sub_0_r. reflexivity. Qed.

Lemma np_delete_from_length {A} (l : list A) ds : forall i, length (np_delete_from i l ds) <= length l.
Proof. induction l as [|x l IH]; intros i; cbn; [lia|]. destruct (memb i ds); cbn; specialize (IH (S i)); lia. Qed.

Lemma keep_sorted_count n ds v : v < n -> ~ In v ds ->
  nth_error (keep n ds) (length (filter (fun j => negb (memb j ds)) (seq 0 v))) = Some v.
Proof.
  intros Hv Hn. unfold keep. replace n with (v + (n - v)) by lia. rewrite seq_app, filter_app. cbn [plus].
  rewrite nth_error_app2 by lia. rewrite Nat.sub_diag.
  destruct (n - v) as [|k] eqn:E; [lia|]. cbn [seq filter].
  assert (M : memb v ds = false). { destruct (memb v ds) eqn:M; [|reflexivity]. apply memb_In in M. contradiction. }
  rewrite M. reflexivity.
Qed.

Lemma memb_false x l : ~ In x l -> memb x l = false.
Proof. intros H. destruct (memb x l) eqn:M; [|reflexivity]. apply memb_In in M. contradiction. Qed.
Lemma memb_cons x d l : memb x (d :: l) = Nat.eqb x d || memb x l.
Proof. reflexivity. Qed.

Lemma count_below_S ds v : NoDup ds -> count_below ds (S v) = count_below ds v + (if memb v ds then 1 else 0).
Proof.
  unfold count_below. induction 1 as [|d ds Hni Hnd IH]; [reflexivity|].
  cbn [filter]. rewrite memb_cons.
  destruct (Nat.lt_trichotomy d v) as [Hlt|[Heq|Hgt]].
  - assert (A : d <? S v = true) by (apply Nat.ltb_lt; lia). assert (B : d <? v = true) by (apply Nat.ltb_lt; lia).
    assert (C : Nat.eqb v d = false) by (apply Nat.eqb_neq; lia). rewrite A, B, C. cbn [length orb]. rewrite IH. lia.
  - subst d. assert (A : v <? S v = true) by (apply Nat.ltb_lt; lia). assert (B : v <? v = false) by (apply Nat.ltb_ge; lia).
    rewrite A, B, Nat.eqb_refl. cbn [length orb]. rewrite IH, (memb_false v ds Hni). lia.
  - assert (A : d <? S v = false) by (apply Nat.ltb_ge; lia). assert (B : d <? v = false) by (apply Nat.ltb_ge; lia).
    assert (C : Nat.eqb v d = false) by (apply Nat.eqb_neq; lia). rewrite A, B, C. cbn [orb]. exact IH.
Qed.

Lemma count_kept_below ds v : NoDup ds ->
  length (filter (fun j => negb (memb j ds)) (seq 0 v)) + count_below ds v = v.
Proof.
  intros Hnd. induction v as [|v IH].
  - cbn. unfold count_below. clear Hnd. induction ds as [|d ds IHd]; [reflexivity|]. cbn. exact IHd.
  - rewrite seq_S, filter_app. cbn [plus filter]. rewrite app_length, (count_below_S ds v Hnd).
    destruct (memb v ds); cbn [negb length]; lia.
Qed.

Lemma nth_np_delete_ren {A} (d : A) (l : list A) ds v : NoDup ds -> v < length l -> ~ In v ds ->
  nth (ren ds v) (np_delete l ds) d = nth v l d.
Proof.
  intros Hnd Hv Hn. rewrite (np_delete_keep d). unfold np_take.
  pose proof (count_kept_below ds v Hnd) as Hc. pose proof (keep_sorted_count (length l) ds v Hv Hn) as Hk.
  assert (Hr : ren ds v = length (filter (fun j => negb (memb j ds)) (seq 0 v))) by (unfold ren; lia).
  rewrite Hr. apply nth_error_nth with (d := d). rewrite nth_error_map, Hk. reflexivity.
Qed.

(* ---------- rows of a kind: tuples, types and extra fields are deleted together *)
Lemma find_idx_from_fst {A B} (p : A -> bool) (a : list A) : forall (b : list B) i, length a = length b ->
  find_idx_from p i a = find_idx_from (fun r => p (fst r)) i (combine a b).
Proof.
  induction a as [|x a IH]; intros [|y b] i H; cbn in *; try reflexivity; try discriminate.
  injection H as H. destruct (p x); [f_equal|]; apply IH; exact H.
Qed.
Lemma np_delete_rows {A B} (p : A -> bool) (a : list A) (b : list B) : length a = length b ->
  combine (np_delete a (find_idx p a)) (np_delete b (find_idx p a)) = filter (fun r => negb (p (fst r))) (combine a b).
Proof.
  intros H. unfold np_delete. rewrite <- np_delete_from_combine. unfold find_idx. rewrite (find_idx_from_fst p a b 0 H).
  apply (np_delete_find_idx (fun r => p (fst r))).
Qed.

Lemma reindex_map ds tups : NoDup ds -> Forall (fun t => touches ds t = false) tups -> reindex ds tups = map (map (ren ds)) tups.
Proof.
  intros Hnd Hf. unfold reindex. rewrite fold_dec_above_map. apply map_ext_in. intros t Ht.
  rewrite Forall_forall in Hf. specialize (Hf t Ht). apply map_ext_in. intros v Hv. rewrite fold_dec_ren.
  - unfold ren. rewrite (count_below_perm _ _ v (Permutation_sym (sort_desc_perm ds))). reflexivity.
  - apply sort_desc_sdesc; exact Hnd.
  - intro Hin. eapply (touches_false ds t Hf v Hv). eapply Permutation_in; [apply Permutation_sym, sort_desc_perm|exact Hin].
Qed.

Definition rows (k : kind) : list (list nat * (nat * list Z)) := combine (k_tup k) (combine (k_typ k) (k_xf k)).
Definition kind_sized (k : kind) : Prop := length (k_typ k) = length (k_tup k) /\ length (k_xf k) = length (k_tup k).

Lemma map_fst_filter_combine {A B} (p : A -> bool) (a : list A) (b : list B) : length a = length b ->
  map fst (filter (fun r => p (fst r)) (combine a b)) = filter p a.
Proof.
  revert b; induction a as [|x a IH]; intros [|y b] H; cbn in *; try reflexivity; try discriminate.
  injection H as H. destruct (p x); cbn; [f_equal|]; apply IH; exact H.
Qed.

Lemma delitem_kind_rows ds k : NoDup ds -> kind_sized k ->
  rows (delitem_kind ds k) =
  map (fun r => (map (ren ds) (fst r), snd r)) (filter (fun r => negb (touches ds (fst r))) (rows k)).
Proof.
  intros Hnd [H1 H2]. unfold delitem_kind, rows.
  destruct (k_tup k) as [|t0 ts] eqn:E.
  - rewrite E. cbn. reflexivity.
  - rewrite <- E in *. unfold delete_and_reindex. cbn [k_tup k_typ k_xf].
    set (dead := find_idx (touches ds) (k_tup k)).
    assert (L : length (k_tup k) = length (combine (k_typ k) (k_xf k))) by (rewrite combine_length; lia).
    pose proof (np_delete_rows (touches ds) (k_tup k) (combine (k_typ k) (k_xf k)) L) as R. fold dead in R.
    unfold np_delete in R at 2. rewrite np_delete_from_combine in R. fold (np_delete (k_typ k) dead) in R. fold (np_delete (k_xf k) dead) in R.
    rewrite reindex_map.
    + rewrite <- R. clear R. generalize (np_delete (k_tup k) dead) (combine (np_delete (k_typ k) dead) (np_delete (k_xf k) dead)).
      intros a b. revert b. induction a as [|x a IH]; intros [|y b]; cbn; try reflexivity. f_equal. apply IH.
    + exact Hnd.
    + unfold dead. rewrite np_delete_find_idx. apply Forall_forall. intros t Ht. apply filter_In in Ht. destruct Ht as [_ Ht].
      apply negb_true_iff in Ht. exact Ht.
Qed.

(* pop = delitem of the selected index, negative positions counted from the end *)
Lemma pop_spec a pos : (- Z.of_nat (natoms a) <= pos < Z.of_nat (natoms a))%Z ->
  pop a pos = delitem a [Z.to_nat (pos mod Z.of_nat (natoms a))].
Proof.
  intros H. unfold pop. f_equal. f_equal. f_equal.
  destruct (pos <? 0)%Z eqn:E.
  - apply Z.ltb_lt in E. symmetry. rewrite <- (Z.mod_add pos 1 (Z.of_nat (natoms a))) by lia. rewrite Z.mod_small by lia. lia.
  - apply Z.ltb_ge in E. rewrite Z.mod_small by lia. reflexivity.
Qed.

(* ---------- per-atom arrays *)
Definition atoms_sized (a : atoms) : Prop :=
  length (a_typ a) = natoms a /\ length (a_chg a) = natoms a /\ length (a_grp a) = natoms a /\ length (a_xf a) = natoms a.

Lemma delitem_atoms a ds : atoms_sized a ->
  let K := filter (fun i => negb (memb i ds)) (seq 0 (natoms a)) in
  a_pos (delitem a ds) = map (fun i => nth i (a_pos a) (0, 0, 0)%Z) K /\
  a_typ (delitem a ds) = map (fun i => nth i (a_typ a) 0) K /\
  a_chg (delitem a ds) = map (fun i => nth i (a_chg a) 0%Z) K /\
  a_grp (delitem a ds) = map (fun i => nth i (a_grp a) 0%Z) K /\
  a_xf (delitem a ds) = map (fun i => nth i (a_xf a) []) K /\
  a_xl (delitem a ds) = a_xl a /\ t_el (delitem a ds) = t_el a /\ t_mass (delitem a ds) = t_mass a /\
  t_lab (delitem a ds) = t_lab a /\ t_pair (delitem a ds) = t_pair a /\ a_cell (delitem a ds) = a_cell a.
Proof.
  intros [H1 [H2 [H3 H4]]]. cbv zeta. unfold delitem. cbn [a_pos a_typ a_chg a_grp a_xf a_xl t_el t_mass t_lab t_pair a_cell].
  repeat split.
  - apply (np_delete_keep (0, 0, 0)%Z).
  - rewrite (np_delete_keep 0). unfold np_take, keep. rewrite H1. reflexivity.
  - rewrite (np_delete_keep 0%Z). unfold np_take, keep. rewrite H2. reflexivity.
  - rewrite (np_delete_keep 0%Z). unfold np_take, keep. rewrite H3. reflexivity.
  - rewrite (np_delete_keep []). unfold np_take, keep. rewrite H4. reflexivity.
Qed.

Lemma delitem_kind_tables ds k : k_xl (delitem_kind ds k) = k_xl k /\ k_coef (delitem_kind ds k) = k_coef k.
Proof. unfold delitem_kind. destruct (k_tup k) as [|t0 ts]; [split; reflexivity|]. destruct (delete_and_reindex ds (t0 :: ts)). split; reflexivity. Qed.

(* ---------- the order in which the deleted indices are listed does not matter *)
Lemma np_delete_from_ext {A} (l : list A) ds ds' : (forall x, memb x ds = memb x ds') -> forall i, np_delete_from i l ds = np_delete_from i l ds'.
Proof. intros H. induction l as [|x l IH]; intros i; cbn; [reflexivity|]. rewrite H, IH. reflexivity. Qed.
Lemma find_idx_from_ext {A} (p q : A -> bool) (l : list A) : (forall x, p x = q x) -> forall i, find_idx_from p i l = find_idx_from q i l.
Proof. intros H. induction l as [|x l IH]; intros i; cbn; [reflexivity|]. rewrite H, IH. reflexivity. Qed.
Lemma memb_perm ds ds' : Permutation ds ds' -> forall x, memb x ds = memb x ds'.
Proof.
  intros P x. destruct (memb x ds) eqn:A, (memb x ds') eqn:B; try reflexivity.
  - apply memb_In in A. apply (Permutation_in _ P) in A. apply memb_In in A. congruence.
  - apply memb_In in B. apply (Permutation_in _ (Permutation_sym P)) in B. apply memb_In in B. congruence.
Qed.
Lemma touches_ext ds ds' : (forall x, memb x ds = memb x ds') -> forall t, touches ds t = touches ds' t.
Proof. intros H t. unfold touches. induction t as [|v t IH]; cbn; [reflexivity|]. rewrite H, IH. reflexivity. Qed.

Lemma delete_and_reindex_perm ds ds' tups : NoDup ds -> Permutation ds ds' ->
  delete_and_reindex ds tups = delete_and_reindex ds' tups.
Proof.
  intros Hnd P. assert (Hnd' : NoDup ds') by (eapply Permutation_NoDup; eassumption).
  pose proof (memb_perm _ _ P) as M. pose proof (touches_ext _ _ M) as T.
  assert (F : find_idx (touches ds) tups = find_idx (touches ds') tups) by (apply find_idx_from_ext; exact T).
  apply injective_projections.
  - rewrite (delete_and_reindex_spec ds tups Hnd), (delete_and_reindex_spec ds' tups Hnd').
    rewrite (filter_ext _ (fun t => negb (touches ds' t))) by (intros t; rewrite T; reflexivity).
    apply map_ext. intros t. apply map_ext. intros v. unfold ren. rewrite (count_below_perm _ _ v P). reflexivity.
  - cbn. exact F.
Qed.

Lemma delitem_kind_perm ds ds' k : NoDup ds -> Permutation ds ds' -> delitem_kind ds k = delitem_kind ds' k.
Proof.
  intros Hnd P. unfold delitem_kind. destruct (k_tup k) as [|t ts]; [reflexivity|].
  rewrite (delete_and_reindex_perm ds ds' (t :: ts) Hnd P). reflexivity.
Qed.

Lemma delitem_perm a ds ds' : NoDup ds -> Permutation ds ds' -> delitem a ds = delitem a ds'.
Proof.
  intros Hnd P. pose proof (memb_perm _ _ P) as M. unfold delitem, np_delete.
  rewrite !(np_delete_from_ext _ ds ds' M 0).
  rewrite !(delitem_kind_perm ds ds' _ Hnd P). reflexivity.
Qed.
