From Coq Require Import ZArith List String Lia Bool.
From Mofun Require Import Model.Guess.
Import ListNotations.
Open Scope Z_scope.

Lemma fold_closer_inv m t : forall e0,
  let r := fold_left (closer m) t e0 in
  In r (e0 :: t) /\ (forall c, In c (e0 :: t) -> adiff m (snd r) <= adiff m (snd c)).
Proof.
  induction t as [|c t IH]; intros e0; cbn [fold_left].
  - split; [left; reflexivity|]. intros c [<-|[]]. lia.
  - specialize (IH (closer m e0 c)). cbv zeta in IH. destruct IH as [Hin Hmin].
    set (r := fold_left (closer m) t (closer m e0 c)) in *.
    assert (Hc : (closer m e0 c = c /\ adiff m (snd c) < adiff m (snd e0)) \/
                 (closer m e0 c = e0 /\ adiff m (snd e0) <= adiff m (snd c))).
    { unfold closer. destruct (adiff m (snd c) <? adiff m (snd e0)) eqn:E.
      - left. split; [reflexivity|]. apply Z.ltb_lt in E. exact E.
      - right. split; [reflexivity|]. apply Z.ltb_ge in E. exact E. }
    split.
    + destruct Hin as [Hin|Hin].
      * destruct Hc as [[Hc _]|[Hc _]]; rewrite Hc in Hin; [right; left; exact Hin | left; exact Hin].
      * right; right; exact Hin.
    + intros x Hx. pose proof (Hmin (closer m e0 c) (or_introl eq_refl)) as H0.
      destruct Hx as [<-|[<-|Hx]].
      * destruct Hc as [[Hc Hl]|[Hc Hl]]; rewrite Hc in H0; lia.
      * destruct Hc as [[Hc Hl]|[Hc Hl]]; rewrite Hc in H0; lia.
      * apply Hmin. right; exact Hx.
Qed.

Lemma nearest_spec tbl m r : nearest tbl m = Some r ->
  In r tbl /\ forall c, In c tbl -> adiff m (snd r) <= adiff m (snd c).
Proof.
  destruct tbl as [|e0 t]; cbn [nearest]; [discriminate|]. intros H. injection H as <-.
  apply fold_closer_inv.
Qed.

Lemma nearest_none tbl m : nearest tbl m = None -> tbl = [].
Proof. destruct tbl; cbn; [reflexivity|discriminate]. Qed.

(* "each atom type's element is a periodic-table element whose tabulated mass lies within the
    tolerance, the closest one if several qualify" *)
Lemma find_element_sound tbl delta m e : find_element tbl delta m = Some e ->
  exists me, In (e, me) tbl /\ adiff m me < delta /\ forall e' me', In (e', me') tbl -> adiff m me <= adiff m me'.
Proof.
  unfold find_element. destruct (nearest tbl m) as [[e1 me]|] eqn:N; [|discriminate].
  destruct (adiff m me <? delta) eqn:D; [|discriminate]. intros H; injection H as <-.
  apply nearest_spec in N. destruct N as [Hin Hmin]. exists me. split; [exact Hin|]. split.
  - apply Z.ltb_lt in D. exact D.
  - intros e' me' H'. apply (Hmin (e', me') H').
Qed.

(* "if some mass is not within tolerance of any element, no element is invented for it" *)
Lemma find_element_none tbl delta m : find_element tbl delta m = None ->
  forall e' me', In (e', me') tbl -> delta <= adiff m me'.
Proof.
  unfold find_element. destruct (nearest tbl m) as [[e1 me]|] eqn:N.
  - destruct (adiff m me <? delta) eqn:D; [discriminate|]. intros _ e' me' H'.
    apply nearest_spec in N. destruct N as [_ Hmin]. specialize (Hmin (e', me') H'). cbn [snd] in Hmin.
    apply Z.ltb_ge in D. lia.
  - apply nearest_none in N. subst. intros _ e' me' [].
Qed.

(* completeness: whenever some element is within tolerance, an element is returned *)
Lemma find_element_some tbl delta m e' me' : In (e', me') tbl -> adiff m me' < delta ->
  exists e, find_element tbl delta m = Some e.
Proof.
  intros Hin Hd. destruct (find_element tbl delta m) eqn:F; [eexists; reflexivity|].
  pose proof (find_element_none _ _ _ F _ _ Hin). lia.
Qed.

Lemma sequence_some {A} (l : list (option A)) r : sequence l = Some r -> l = map Some r.
Proof.
  revert r; induction l as [|[x|] l IH]; intros r; cbn [sequence]; [intros H; injection H as <-; reflexivity| |discriminate].
  destruct (sequence l) eqn:S; [|discriminate]. intros H; injection H as <-. cbn. f_equal. apply IH. reflexivity.
Qed.
Lemma sequence_none {A} (l : list (option A)) : sequence l = None <-> In None l.
Proof.
  induction l as [|[x|] l IH]; cbn [sequence In].
  - split; [discriminate|intros []].
  - destruct (sequence l); split.
    + discriminate.
    + intros [H|H]; [discriminate|]. apply IH in H. discriminate.
    + intros _. right. apply IH. reflexivity.
    + reflexivity.
  - split; [left; reflexivity|reflexivity].
Qed.

Lemma guess_some tbl delta ms es : guess tbl delta ms = Some es ->
  List.length es = List.length ms /\ forall i m, nth_error ms i = Some m -> exists e, nth_error es i = Some e /\ find_element tbl delta m = Some e.
Proof.
  unfold guess. intros H. apply sequence_some in H. split.
  - apply (f_equal (@List.length _)) in H. rewrite !map_length in H. symmetry; exact H.
  - intros i m Hm. assert (Hi : nth_error (map (find_element tbl delta) ms) i = Some (find_element tbl delta m)) by (rewrite nth_error_map, Hm; reflexivity).
    rewrite H, nth_error_map in Hi. destruct (nth_error es i) as [e|]; [|discriminate]. cbn in Hi. injection Hi as Hi. exists e. split; [reflexivity|symmetry; exact Hi].
Qed.
Lemma guess_none tbl delta ms : guess tbl delta ms = None <-> exists m, In m ms /\ find_element tbl delta m = None.
Proof.
  unfold guess. rewrite sequence_none, in_map_iff. split; intros [m [A B]]; exists m; auto.
Qed.

(* all-or-nothing fallback of load_lmpdat *)
Lemma load_elements_fallback tbl delta ms m : In m ms -> find_element tbl delta m = None ->
  load_elements tbl delta ms = map (fun i => string_of_nat (S i)) (seq 0 (List.length ms)).
Proof.
  intros Hin Hn. unfold load_elements. assert (G : guess tbl delta ms = None) by (apply guess_none; exists m; auto). rewrite G. reflexivity.
Qed.
Lemma load_elements_guessed tbl delta ms : (forall m, In m ms -> find_element tbl delta m <> None) ->
  guess tbl delta ms = Some (load_elements tbl delta ms).
Proof.
  intros H. unfold load_elements. destruct (guess tbl delta ms) eqn:G; [reflexivity|].
  apply guess_none in G. destruct G as [m [A B]]. exfalso. exact (H m A B).
Qed.

(* "every element whose mass is distinguishable from all others survives a write/read cycle":
   if m is within eps of e's mass, and every *other* entry's mass is more than 2*eps away from e's,
   then e is returned (eps < delta). *)
Lemma distinguishable_roundtrip tbl delta eps m e me :
  In (e, me) tbl -> adiff m me <= eps -> eps < delta ->
  (forall e' me', In (e', me') tbl -> e' <> e -> 2 * eps < adiff me me') ->
  find_element tbl delta m = Some e.
Proof.
  intros Hin Hm Hd Hsep.
  destruct (find_element tbl delta m) as [e1|] eqn:F.
  - apply find_element_sound in F. destruct F as [me1 [Hin1 [_ Hmin]]].
    specialize (Hmin e me Hin).
    destruct (string_dec e1 e) as [->|Hne]; [reflexivity|].
    specialize (Hsep e1 me1 Hin1 Hne). unfold adiff in *. lia.
  - pose proof (find_element_none _ _ _ F _ _ Hin). lia.
Qed.

(* lifting a boolean sweep over a finite table to a universally quantified statement; stated for an abstract
   table, and with the sweep as a named definition, so that using it never makes the kernel unfold a concrete table *)
Definition sweep (tbl : list (string * Z)) (d : string -> Z -> bool) (g : Z -> option string) : bool :=
  forallb (fun c => negb (d (fst c) (snd c)) || match g (snd c) with Some e1 => String.eqb e1 (fst c) | None => false end) tbl.
Lemma table_lift (tbl : list (string * Z)) (d : string -> Z -> bool) (g : Z -> option string) :
  sweep tbl d g = true -> forall e me, In (e, me) tbl -> d e me = true -> g me = Some e.
Proof.
  unfold sweep. intros H e me Hin Hd. pose proof (proj1 (forallb_forall _ _) H (e, me) Hin) as H1. cbn [fst snd] in H1.
  rewrite Hd in H1. cbn [negb orb] in H1. destruct (g me) as [e1|]; [|discriminate].
  apply String.eqb_eq in H1. subst. reflexivity.
Qed.
