(* Completeness of the search model relative to the rotation check (C02): every tuple of nearby image atoms with the pattern's elements
   and pairwise distances, whose first atom is in the home cell and which the rotation check accepts, has its atom group reported. *)
From Coq Require Import ZArith List Bool Arith Lia.
From Mofun Require Import Model.Atoms Model.Geom Model.Find Proofs.FindProofs.
Import ListNotations.
Open Scope Z_scope.

Section Complete.
Variable S : list atom.
Variable cell : mat.
Variable P : list atom.
Variable tol : tolr.
Notation Ppos := (Ppos P).
Definition dv : nat * vec := (0%nat, (0, 0, 0)).

(* pairwise distances of the tuple agree with the pattern's within the tolerance, for every pair (j, i) with j < i and lo <= i *)
Definition dist_ok (lo : nat) (c : list (nat * vec)) : Prop :=
  forall j i, (j < i)%nat -> (i < length c)%nat -> (lo <= i)%nat ->
    isclose_sqrt_b (d2 (nth i Ppos (0, 0, 0)) (nth j Ppos (0, 0, 0))) (d2 (snd (nth i c dv)) (snd (nth j c dv))) tol = true.

Lemma extend_partial_complete nb k pk partial g x :
  In (g, (fst pk, x)) nb ->
  forallb (fun pq => isclose_sqrt_b (d2 (snd pk) (fst pq)) (d2 x (snd (snd pq))) tol) (combine (firstn k Ppos) partial) = true ->
  In (partial ++ [(g, x)]) (extend_partial P tol nb k pk partial).
Proof.
  intros Hin Hf. unfold extend_partial. apply in_flat_map. exists (g, (fst pk, x)). split; [exact Hin|].
  rewrite Nat.eqb_refl, Hf. left. reflexivity.
Qed.

Lemma grow_complete nb : forall rest k partials p ext Pdone,
  In p partials -> length p = k -> P = Pdone ++ rest -> length Pdone = k ->
  Forall2 (member_of nb) ext rest -> dist_ok k (p ++ ext) ->
  In (p ++ ext) (grow P tol nb k rest partials).
Proof.
  induction rest as [|pk rest IH]; intros k partials p ext Pdone Hp Lp EP LP F D.
  - inversion F; subst. rewrite app_nil_r. exact Hp.
  - inversion F as [|gx ? ext' ? Hm F']; subst. cbn [grow]. destruct gx as [g x].
    replace (p ++ (g, x) :: ext') with ((p ++ [(g, x)]) ++ ext') by (rewrite <- app_assoc; reflexivity).
    apply (IH (Datatypes.S (length p)) _ _ _ (Pdone ++ [pk])).
    + apply in_flat_map. exists p. split; [exact Hp|]. apply extend_partial_complete; [exact Hm|].
      apply forallb_forall. intros [pj cj] Hin.
      destruct (In_nth _ _ ((0, 0, 0), dv) Hin) as [j [Hj Ej]]. rewrite combine_length, firstn_length in Hj.
      assert (Lpos : length Ppos = (length Pdone + Datatypes.S (length rest))%nat) by (unfold Find.Ppos; rewrite EP, map_length, app_length; reflexivity).
      assert (Hjk : (j < length p)%nat) by lia.
      rewrite combine_nth in Ej by (rewrite firstn_length; lia). injection Ej as <- <-. cbn [fst snd].
      assert (E1 : nth j (firstn (length p) Ppos) (0, 0, 0) = nth j Ppos (0, 0, 0)).
      { rewrite <- (firstn_skipn (length p) Ppos) at 2. rewrite app_nth1 by (rewrite firstn_length; lia). reflexivity. }
      assert (E2 : snd pk = nth (length p) Ppos (0, 0, 0)).
      { unfold Find.Ppos. rewrite EP, map_app, app_nth2 by (rewrite map_length; lia). rewrite map_length. replace (length p - length Pdone)%nat with 0%nat by lia. reflexivity. }
      unfold vec in *. rewrite E1, E2. specialize (D j (length p) Hjk). rewrite app_length in D. cbn [length] in D.
      assert (Hlt : (length p < length p + Datatypes.S (length ext'))%nat) by lia. specialize (D Hlt (le_n _)).
      rewrite (app_nth2 p _ dv (le_n _)), Nat.sub_diag in D. cbn [nth snd] in D. rewrite (app_nth1 p _ dv Hjk) in D. exact D.
    + rewrite app_length. cbn. lia.
    + rewrite <- app_assoc. exact EP.
    + rewrite app_length. cbn. lia.
    + exact F'.
    + intros j i Hji Hi Hlo. rewrite <- app_assoc in *. cbn [app] in *. apply D; [exact Hji|exact Hi|lia].
Qed.

Theorem cands_complete p0 rest g0 x0 ext :
  P = p0 :: rest -> In (g0, (fst p0, x0)) (near S cell P tol) -> (g0 < length S)%nat ->
  Forall2 (member_of (nearby S cell P tol x0)) ext rest -> dist_ok 1 ((g0, x0) :: ext) ->
  In ((g0, x0) :: ext) (cands S cell P tol).
Proof.
  intros EP Hn Hg F D. unfold cands. rewrite EP. apply in_flat_map. exists (g0, (fst p0, x0)). split; [rewrite <- EP; exact Hn|].
  assert (Hlt : (g0 <? nS S)%nat = true) by (apply Nat.ltb_lt; exact Hg). rewrite Hlt, Nat.eqb_refl. cbn [andb].
  rewrite <- EP. change ((g0, x0) :: ext) with ([(g0, x0)] ++ ext).
  apply (grow_complete _ rest 1%nat [[(g0, x0)]] [(g0, x0)] ext [p0]); [left; reflexivity|reflexivity|exact EP|reflexivity|exact F|exact D].
Qed.

(* every candidate sits in the group of its key *)
Lemma group_add_new k c gs : exists cs, In (k, cs) (group_add k c gs) /\ In c cs.
Proof.
  induction gs as [|[k' cs'] gs IH]; cbn [group_add]; [exists [c]; split; left; reflexivity|].
  destruct (Find.list_eqb k k') eqn:E.
  - apply list_eqb_eq in E. subst k'. exists (cs' ++ [c]). split; [left; reflexivity|apply in_or_app; right; left; reflexivity].
  - destruct IH as [cs [H1 H2]]. exists cs. split; [right; exact H1|exact H2].
Qed.
Lemma group_add_keeps k c gs k' cs' c' : In (k', cs') gs -> In c' cs' -> exists cs'', In (k', cs'') (group_add k c gs) /\ In c' cs''.
Proof.
  induction gs as [|[k0 cs0] gs IH]; intros Hin Hc; [destruct Hin|]. cbn [group_add]. destruct (Find.list_eqb k k0) eqn:E.
  - destruct Hin as [Hin|Hin]; [injection Hin as -> ->; exists (cs' ++ [c]); split; [left; reflexivity|apply in_or_app; left; exact Hc]|].
    exists cs'. split; [right; exact Hin|exact Hc].
  - destruct Hin as [Hin|Hin]; [injection Hin as -> ->; exists cs'; split; [left; reflexivity|exact Hc]|].
    destruct (IH Hin Hc) as [cs'' [H1 H2]]. exists cs''. split; [right; exact H1|exact H2].
Qed.
Lemma groups_fold_complete (L : list (list (nat * vec))) : forall acc c,
  (In c L \/ exists cs, In (key S c, cs) acc /\ In c cs) ->
  exists cs, In (key S c, cs) (fold_left (fun gs c => group_add (key S c) c gs) L acc) /\ In c cs.
Proof.
  induction L as [|c0 L IH]; intros acc c H; cbn [fold_left].
  - destruct H as [[]|H]. exact H.
  - apply IH. destruct H as [[->|H]|[cs [H1 H2]]]; [right; apply group_add_new|left; exact H|right; apply (group_add_keeps _ _ _ _ cs); assumption].
Qed.
Lemma groups_complete c : In c (cands S cell P tol) -> exists cs, In (key S c, cs) (groups S cell P tol) /\ In c cs.
Proof. intros H. unfold groups. apply groups_fold_complete. left. exact H. Qed.

Theorem find_complete rot pick rtol hints c q : In c (cands S cell P tol) -> accept rot P tol rtol hints c = Some q ->
  In (key S c) (map okey (find rot pick S cell P tol rtol hints)).
Proof.
  intros Hc Ha. rewrite find_keys. destruct (groups_complete c Hc) as [cs [Hg Hcs]].
  apply in_map_iff. exists (key S c, cs). split; [reflexivity|]. apply filter_In. split; [exact Hg|].
  unfold has_good. cbn [snd]. assert (Hin : In (c, q) (good_of rot P tol rtol hints cs)).
  { unfold good_of. apply in_flat_map. exists c. split; [exact Hcs|]. rewrite Ha. left. reflexivity. }
  destruct (good_of rot P tol rtol hints cs); [destruct Hin|reflexivity].
Qed.
End Complete.
