From Coq Require Import List Arith Bool String Ascii DecimalString Decimal DecimalNat Lia.
From Mofun Require Import Model.Cif.
Import ListNotations.
Open Scope string_scope.

(* ---------- decimal strings ---------- *)
Definition is_digit (c : ascii) : bool :=
  match c with "0" | "1" | "2" | "3" | "4" | "5" | "6" | "7" | "8" | "9" => true | _ => false end%char.
Fixpoint all_digits (s : string) : bool := match s with EmptyString => true | String c t => is_digit c && all_digits t end.
Fixpoint digit_free (s : string) : bool := match s with EmptyString => true | String c t => negb (is_digit c) && digit_free t end.

Lemma uint_all_digits d : all_digits (NilEmpty.string_of_uint d) = true.
Proof. induction d; cbn; try reflexivity; exact IHd. Qed.
Lemma string_of_nat_digits n : all_digits (string_of_nat n) = true.
Proof. apply uint_all_digits. Qed.
Lemma string_of_nat_nonempty n : string_of_nat n <> "".
Proof.
  unfold string_of_nat. intros H. assert (E : Nat.to_uint n = Nil).
  { apply (f_equal NilEmpty.uint_of_string) in H. rewrite NilEmpty.usu in H. cbn in H. injection H as H. exact H. }
  assert (Z0 : n = 0) by (apply (f_equal Nat.of_uint) in E; rewrite DecimalNat.Unsigned.of_to in E; exact E).
  subst n. cbn in E. discriminate E.
Qed.
Lemma string_of_nat_inj n m : string_of_nat n = string_of_nat m -> n = m.
Proof.
  unfold string_of_nat. intros H. apply (f_equal NilEmpty.uint_of_string) in H. rewrite !NilEmpty.usu in H. injection H as H.
  apply (f_equal Nat.of_uint) in H. rewrite !DecimalNat.Unsigned.of_to in H. exact H.
Qed.

(* a digit-free prefix followed by a non-empty all-digit suffix splits in only one way *)
Lemma label_split e1 : forall e2 d1 d2, digit_free e1 = true -> digit_free e2 = true -> all_digits d1 = true -> all_digits d2 = true ->
  d1 <> "" -> d2 <> "" -> e1 ++ d1 = e2 ++ d2 -> e1 = e2 /\ d1 = d2.
Proof.
  induction e1 as [|c e1 IH]; intros e2 d1 d2 F1 F2 A1 A2 N1 N2 H.
  - destruct e2 as [|c2 e2]; [split; [reflexivity|exact H]|]. cbn in H. destruct d1 as [|x d1]; [contradiction|].
    injection H as -> _. cbn in F2, A1. apply andb_true_iff in F2, A1. destruct F2 as [F2 _]. destruct A1 as [A1 _]. rewrite A1 in F2. discriminate.
  - destruct e2 as [|c2 e2].
    + cbn in H. destruct d2 as [|x d2]; [contradiction|]. injection H as -> _. cbn in F1, A2. apply andb_true_iff in F1, A2.
      destruct F1 as [F1 _]. destruct A2 as [A2 _]. rewrite A2 in F1. discriminate.
    + cbn in H. injection H as -> H. cbn in F1, F2. apply andb_true_iff in F1, F2. destruct F1 as [_ F1]. destruct F2 as [_ F2].
      destruct (IH e2 d1 d2 F1 F2 A1 A2 N1 N2 H) as [-> ->]. split; reflexivity.
Qed.

Theorem label_injective e1 e2 n1 n2 : digit_free e1 = true -> digit_free e2 = true ->
  e1 ++ string_of_nat n1 = e2 ++ string_of_nat n2 -> e1 = e2 /\ n1 = n2.
Proof.
  intros F1 F2 H. destruct (label_split e1 e2 _ _ F1 F2 (string_of_nat_digits n1) (string_of_nat_digits n2) (string_of_nat_nonempty n1) (string_of_nat_nonempty n2) H) as [A B].
  split; [exact A|apply string_of_nat_inj; exact B].
Qed.

(* the hypothesis is needed: element names ending in digits collide ("C1" + "1" = "C" + "11") *)
Example label_collision : "C1" ++ string_of_nat 1 = "C" ++ string_of_nat 11.
Proof. reflexivity. Qed.

(* ---------- labels are pairwise distinct ---------- *)
Arguments string_of_nat : simpl never.
Lemma count_eq_app e a b : count_eq e (a ++ b) = count_eq e a + count_eq e b.
Proof. induction a as [|x a IH]; cbn; [reflexivity|]. rewrite IH. lia. Qed.

Lemma labels_from_in seen els l : In l (labels_from seen els) -> exists e k, In e els /\ count_eq e seen < k /\ l = e ++ string_of_nat k.
Proof.
  revert seen. induction els as [|e t IH]; intros seen H; [destruct H|]. cbn in H. destruct H as [<-|H].
  - exists e, (S (count_eq e seen)). split; [left; reflexivity|]. split; [lia|reflexivity].
  - destruct (IH _ H) as [e' [k [A [B C]]]]. exists e', k. split; [right; exact A|]. split; [|exact C].
    rewrite count_eq_app in B. lia.
Qed.

Theorem labels_nodup_from seen els : Forall (fun e => digit_free e = true) els -> NoDup (labels_from seen els).
Proof.
  revert seen. induction els as [|e t IH]; intros seen HF; cbn; [constructor|]. inversion HF as [|? ? He Ht]; subst. constructor.
  - intros Hin. destruct (labels_from_in _ _ _ Hin) as [e' [k [A [B C]]]].
    assert (Fe' : digit_free e' = true) by (rewrite Forall_forall in Ht; apply Ht; exact A).
    destruct (label_injective e e' _ _ He Fe' C) as [-> Hk]. rewrite count_eq_app in B. cbn in B. rewrite String.eqb_refl in B. lia.
  - apply IH. exact Ht.
Qed.
Theorem labels_nodup els : Forall (fun e => digit_free e = true) els -> NoDup (labels els).
Proof. apply labels_nodup_from. Qed.

Lemma labels_from_length seen els : List.length (labels_from seen els) = List.length els.
Proof. revert seen; induction els as [|e t IH]; intros seen; cbn; [reflexivity|f_equal; apply IH]. Qed.

(* ---------- terms survive the trip through labels ---------- *)
Lemma index_of_nth (l : list string) i : NoDup l -> i < List.length l -> index_of (nth i l "") l = Some i.
Proof.
  revert i. induction l as [|x l IH]; intros i Hnd Hi; [cbn in Hi; lia|]. inversion Hnd as [|? ? Hn Hl]; subst. destruct i as [|i]; cbn.
  - rewrite String.eqb_refl. reflexivity.
  - destruct (String.eqb (nth i l "") x) eqn:E.
    + apply String.eqb_eq in E. exfalso. apply Hn. rewrite <- E. apply nth_In. cbn in Hi. lia.
    + rewrite IH by (try assumption; cbn in Hi; lia). reflexivity.
Qed.

Theorem read_write_terms labs terms : NoDup labs -> Forall (fun t => Forall (fun i => i < List.length labs) t) terms ->
  read_terms labs (write_terms labs terms) = Some terms.
Proof.
  intros Hnd HF. unfold read_terms, write_terms. rewrite map_map.
  induction terms as [|t ts IH]; cbn; [reflexivity|]. inversion HF as [|? ? Ht Hts]; subst.
  assert (E : sequence (map (fun s => index_of s labs) (map (fun i => nth i labs "") t)) = Some t).
  { clear IH HF Hts. induction t as [|i t IHt]; cbn; [reflexivity|]. inversion Ht as [|? ? Hi Htt]; subst.
    rewrite (index_of_nth labs i Hnd Hi). rewrite (IHt Htt). reflexivity. }
  rewrite E. rewrite (IH Hts). reflexivity.
Qed.

Theorem guard_spec tag : accepts_space_group tag = true <-> (tag = None \/ tag = Some "P1" \/ tag = Some "P 1").
Proof.
  destruct tag as [s|]; cbn.
  - rewrite orb_true_iff, !String.eqb_eq. split.
    + intros [E|E]; subst s; [right; left|right; right]; reflexivity.
    + intros [H|[H|H]]; try discriminate; injection H as E; subst s; [left|right]; reflexivity.
  - split; [intros _; left; reflexivity|reflexivity].
Qed.
