(* Proofs about Atoms.extend_types / extend (C11, C06, C09) *)
From Coq Require Import List Arith Bool Lia ZArith.
From Mofun Require Import Lib.NP Model.Atoms Proofs.DelProofs.
Import ListNotations.

(* ---------- np_delete facts *)
Lemma np_delete_from_none {A} (l : list A) ds : forall i, (forall x, In x ds -> x < i) -> np_delete_from i l ds = l.
Proof.
  induction l as [|a l IH]; intros i H; cbn; [reflexivity|].
  rewrite memb_false; [f_equal; apply IH; intros x Hx; specialize (H x Hx); lia|].
  intro Hin. specialize (H i Hin). lia.
Qed.
Lemma np_delete_from_app_low {A} (l l2 : list A) ds : forall i, (forall x, In x ds -> x < i + length l) ->
  np_delete_from i (l ++ l2) ds = np_delete_from i l ds ++ l2.
Proof.
  induction l as [|a l IH]; intros i H; cbn [app np_delete_from].
  - cbn in H. apply np_delete_from_none. intros x Hx. specialize (H x Hx). lia.
  - destruct (memb i ds); [|cbn [app]; f_equal]; apply IH; intros x Hx; specialize (H x Hx); cbn in H; lia.
Qed.
Lemma np_delete_app_low {A} (l l2 : list A) ds : (forall x, In x ds -> x < length l) -> np_delete (l ++ l2) ds = np_delete l ds ++ l2.
Proof. intros H. apply np_delete_from_app_low. exact H. Qed.

Lemma np_delete_ext {A} (l : list A) ds ds' : (forall x, memb x ds = memb x ds') -> np_delete l ds = np_delete l ds'.
Proof. intros H. apply np_delete_from_ext. exact H. Qed.

(* ---------- find_existing_topo = rows equal to a new row, forwards or reversed *)
Definition overridden (new : list (list nat)) (t : list nat) : bool :=
  existsb (fun n => list_nat_eqb t n) new || existsb (fun n => list_nat_eqb t (rev n)) new.

Lemma in_combine_seq {A} (l : list A) : forall s i x, In (i, x) (combine (seq s (length l)) l) <-> s <= i /\ nth_error l (i - s) = Some x.
Proof.
  induction l as [|a l IH]; intros s i x; cbn [length seq combine In].
  - split; [intros []|intros [_ H]; destruct (i - s); discriminate].
  - rewrite IH. split.
    + intros [H|[H1 H2]].
      * injection H as <- <-. rewrite Nat.sub_diag. split; [lia|reflexivity].
      * split; [lia|]. replace (i - s) with (S (i - S s)) by lia. exact H2.
    + intros [H1 H2]. destruct (Nat.eq_dec i s) as [->|Hne].
      * rewrite Nat.sub_diag in H2. cbn in H2. injection H2 as <-. left; reflexivity.
      * right. split; [lia|]. replace (i - s) with (S (i - S s)) in H2 by lia. exact H2.
Qed.

Lemma in_hits topo f new j : In j (hits topo f new) <-> exists t, nth_error topo j = Some t /\ existsb (fun n => list_nat_eqb t (f n)) new = true.
Proof.
  unfold hits. rewrite in_flat_map. split.
  - intros [[i t] [Hin Hj]]. cbn [fst snd] in Hj. apply in_map_iff in Hj. destruct Hj as [n [<- Hn]].
    apply filter_In in Hn. destruct Hn as [Hn He]. apply in_combine_seq in Hin. destruct Hin as [_ Hin]. rewrite Nat.sub_0_r in Hin.
    exists t. split; [exact Hin|]. apply existsb_exists. exists n. split; assumption.
  - intros [t [Ht He]]. apply existsb_exists in He. destruct He as [n [Hn He]]. exists (j, t). split.
    + apply in_combine_seq. split; [lia|]. rewrite Nat.sub_0_r. exact Ht.
    + cbn [fst snd]. apply in_map_iff. exists n. split; [reflexivity|]. apply filter_In. split; assumption.
Qed.

Lemma in_find_idx {A} (p : A -> bool) l j : In j (find_idx p l) <-> exists x, nth_error l j = Some x /\ p x = true.
Proof.
  unfold find_idx. rewrite find_idx_from_spec. split.
  - intros [k [x [-> [H1 H2]]]]. exists x. split; assumption.
  - intros [x [H1 H2]]. exists j, x. repeat split; assumption.
Qed.

Lemma memb_iff_In x l b : (In x l <-> b = true) -> memb x l = b.
Proof.
  intros H. destruct (memb x l) eqn:M.
  - apply memb_In in M. symmetry. apply H. exact M.
  - destruct b; [|reflexivity]. assert (In x l) by (apply H; reflexivity). apply memb_In in H0. congruence.
Qed.

Lemma existing_topo_memb topo new x : memb x (existing_topo topo new) = memb x (find_idx (overridden new) topo).
Proof.
  apply memb_iff_In. rewrite memb_In, in_find_idx. unfold existing_topo.
  destruct topo as [|t0 ts] eqn:E.
  - split; [intros []|intros [t [Ht _]]; destruct x; discriminate].
  - rewrite <- E. rewrite in_app_iff, !in_hits. unfold overridden. split.
    + intros [[t [Ht He]]|[t [Ht He]]]; exists t; (split; [exact Ht|]); rewrite He; [reflexivity|apply orb_true_r].
    + intros [t [Ht He]]. apply orb_true_iff in He. destruct He as [He|He]; [left|right]; exists t; split; assumption.
Qed.

Lemma find_idx_lt {A} (p : A -> bool) l j : In j (find_idx p l) -> j < length l.
Proof. rewrite in_find_idx. intros [x [H _]]. apply nth_error_Some. congruence. Qed.

Lemma combine_app {A B} (a a' : list A) (b b' : list B) : length a = length b -> combine (a ++ a') (b ++ b') = combine a b ++ combine a' b'.
Proof. revert b; induction a as [|x a IH]; intros [|y b] H; cbn in *; try reflexivity; try discriminate. f_equal. apply IH. lia. Qed.

Lemma np_delete_from_length_eq {A B} (a : list A) : forall (b : list B) ds i, length a = length b ->
  length (np_delete_from i a ds) = length (np_delete_from i b ds).
Proof. induction a as [|x a IH]; intros [|y b] ds i H; cbn in *; try reflexivity; try discriminate.
  destruct (memb i ds); cbn; [|f_equal]; apply IH; lia. Qed.

(* deleting the overridden rows from old ++ new: overridden old rows go, everything else stays, in order *)
Lemma np_delete_existing {B} (topo new : list (list nat)) (b b' : list B) : length b = length topo ->
  combine (np_delete (topo ++ new) (existing_topo topo new)) (np_delete (b ++ b') (existing_topo topo new)) =
  filter (fun r => negb (overridden new (fst r))) (combine topo b) ++ combine new b'.
Proof.
  intros H.
  rewrite !(np_delete_ext _ _ _ (existing_topo_memb topo new)).
  rewrite !np_delete_app_low.
  - rewrite combine_app.
    + f_equal. apply np_delete_rows. symmetry; exact H.
    + unfold np_delete. apply np_delete_from_length_eq. symmetry; exact H.
  - intros x Hx. rewrite H. apply (find_idx_lt _ _ _ Hx).
  - intros x Hx. apply (find_idx_lt _ _ _ Hx).
Qed.

(* ---------- extend_kind *)
Definition xf_self (k ko : kind) : list (list Z) := snd (fst (merge_xf (k_xl k) (k_xf k) (k_xl ko) (k_xf ko))).
Definition xf_other (k ko : kind) : list (list Z) := snd (merge_xf (k_xl k) (k_xf k) (k_xl ko) (k_xf ko)).

Lemma xf_self_length k ko : length (xf_self k ko) = length (k_xf k).
Proof. unfold xf_self, merge_xf, pad_fields. cbn. apply map_length. Qed.
Lemma xf_other_length k ko : length (xf_other k ko) = length (k_xf ko).
Proof. unfold xf_other, merge_xf, match_fields. cbn. apply map_length. Qed.

(* C11: every term of the other structure is appended between the corresponding atoms (phi) with its type shifted by the
   offset; an existing term on exactly the same atoms, forwards or backwards, is superseded; every other existing term is
   untouched (same order, type, extra fields padded with DOT); labels are merged; the coefficient table is not touched here *)
Lemma extend_kind_rows off phi k ko : kind_sized k -> kind_sized ko -> k_tup ko <> [] ->
  let new := map (map phi) (k_tup ko) in
  rows (extend_kind off phi k ko) =
    filter (fun r => negb (overridden new (fst r))) (combine (k_tup k) (combine (k_typ k) (xf_self k ko)))
    ++ combine new (combine (map (Nat.add off) (k_typ ko)) (xf_other k ko))
  /\ k_xl (extend_kind off phi k ko) = merge_labels (k_xl k) (k_xl ko)
  /\ k_coef (extend_kind off phi k ko) = k_coef k.
Proof.
  intros [S1 S2] [O1 O2] Hne. cbv zeta. unfold extend_kind, rows, xf_self, xf_other.
  destruct (merge_xf (k_xl k) (k_xf k) (k_xl ko) (k_xf ko)) as [[nl xs] xo] eqn:E. cbn [fst snd].
  assert (Lxs : length xs = length (k_xf k)).
  { pose proof (xf_self_length k ko) as L. unfold xf_self in L. rewrite E in L. exact L. }
  assert (Lxo : length xo = length (k_xf ko)).
  { pose proof (xf_other_length k ko) as L. unfold xf_other in L. rewrite E in L. exact L. }
  destruct (k_tup ko) as [|t0 ts] eqn:Et; [contradiction|]. rewrite <- Et in *.
  cbn [k_tup k_typ k_xf k_xl k_coef]. split; [|split].
  - set (new := map (map phi) (k_tup ko)). set (dead := existing_topo (k_tup k) new).
    unfold np_delete at 2 3. rewrite <- np_delete_from_combine. fold (np_delete (combine (k_typ k ++ map (Nat.add off) (k_typ ko)) (xs ++ xo)) dead).
    rewrite combine_app by lia.
    apply np_delete_existing. rewrite combine_length. lia.
  - unfold merge_xf in E. injection E as <- _ _. reflexivity.
  - reflexivity.
Qed.

Lemma extend_kind_empty off phi k ko : k_tup ko = [] ->
  k_tup (extend_kind off phi k ko) = k_tup k /\ k_typ (extend_kind off phi k ko) = k_typ k /\
  k_xf (extend_kind off phi k ko) = xf_self k ko /\ k_xl (extend_kind off phi k ko) = merge_labels (k_xl k) (k_xl ko) /\
  k_coef (extend_kind off phi k ko) = k_coef k.
Proof.
  intros H. unfold extend_kind, xf_self. destruct (merge_xf (k_xl k) (k_xf k) (k_xl ko) (k_xf ko)) as [[nl xs] xo] eqn:E.
  rewrite H. cbn. unfold merge_xf in E. injection E as <- _ _. repeat split.
Qed.

(* ---------- type resolution through extend_types *)
Definition compat_kind (k : kind) : Prop := k_coef k <> [] \/ k_typ k = [].

Lemma resolve_new (k ko : kind) t d : compat_kind k ->
  nth (num_types k + t) (k_coef k ++ k_coef ko) d = nth t (k_coef ko) d.
Proof.
  intros [H|H]; unfold num_types.
  - destruct (k_coef k) as [|c cs] eqn:E; [contradiction|]. rewrite app_nth2 by lia. f_equal. lia.
  - destruct (k_coef k) as [|c cs] eqn:E.
    + rewrite H. reflexivity.
    + rewrite app_nth2 by lia. f_equal. lia.
Qed.
Lemma resolve_old (c1 c2 : list Z) t d : t < length c1 -> nth t (c1 ++ c2) d = nth t c1 d.
Proof. intros H. apply app_nth1. exact H. Qed.

Lemma extend_types_tables a o : let '(a', f) := extend_types a o in
  t_el a' = t_el a ++ t_el o /\ t_mass a' = t_mass a ++ t_mass o /\ t_lab a' = t_lab a ++ t_lab o /\ t_pair a' = t_pair a ++ t_pair o /\
  k_coef (bonds a') = k_coef (bonds a) ++ k_coef (bonds o) /\ k_coef (angles a') = k_coef (angles a) ++ k_coef (angles o) /\
  k_coef (dihedrals a') = k_coef (dihedrals a) ++ k_coef (dihedrals o) /\ k_coef (impropers a') = k_coef (impropers a) ++ k_coef (impropers o) /\
  f = mk_offs (length (t_el a)) (num_types (bonds a)) (num_types (angles a)) (num_types (dihedrals a)) (num_types (impropers a)) /\
  a_pos a' = a_pos a /\ a_typ a' = a_typ a /\ k_tup (bonds a') = k_tup (bonds a) /\ k_typ (bonds a') = k_typ (bonds a).
Proof. cbn. repeat split. Qed.

(* ---------- atoms of extend_with *)
Lemma set_nth_length {A} i (x : A) l : length (set_nth i x l) = length l.
Proof. revert i; induction l as [|y l IH]; intros [|i]; cbn; try reflexivity. f_equal. apply IH. Qed.
Lemma nth_set_nth_same {A} i (x d : A) l : i < length l -> nth i (set_nth i x l) d = x.
Proof. revert i; induction l as [|y l IH]; intros [|i] H; cbn in *; try lia; [reflexivity|]. apply IH. lia. Qed.
Lemma nth_set_nth_other {A} i j (x d : A) l : i <> j -> nth j (set_nth i x l) d = nth j l d.
Proof. revert i j; induction l as [|y l IH]; intros [|i] [|j] H; cbn; try reflexivity; try lia. apply IH. lia. Qed.

Section FoldSet.
Context {A : Type} (g : nat -> A).
Definition fold_set (m : list (nat * nat)) (l : list A) := fold_left (fun t kv => set_nth (snd kv) (g (fst kv)) t) m l.
Lemma fold_set_length m : forall l, length (fold_set m l) = length l.
Proof. induction m as [|kv m IH]; intros l; cbn; [reflexivity|]. unfold fold_set in IH. rewrite IH. apply set_nth_length. Qed.
Lemma fold_set_other m i d : (forall kv, In kv m -> snd kv <> i) -> forall l, nth i (fold_set m l) d = nth i l d.
Proof.
  induction m as [|kv m IH]; intros H l; cbn; [reflexivity|]. unfold fold_set in IH. rewrite IH.
  - apply nth_set_nth_other. apply H. left; reflexivity.
  - intros kv' H'. apply H. right; exact H'.
Qed.
Lemma fold_set_mapped m k i d : NoDup (map snd m) -> In (k, i) m -> forall l, i < length l -> nth i (fold_set m l) d = g k.
Proof.
  induction m as [|kv m IH]; intros Hnd Hin l Hi; [destruct Hin|]. cbn [map] in Hnd. inversion Hnd as [|? ? Hni Hnd']; subst.
  cbn. destruct Hin as [->|Hin].
  - cbn [fst snd]. fold (fold_set m (set_nth i (g k) l)). rewrite fold_set_other.
    + apply nth_set_nth_same. exact Hi.
    + intros kv' H' E. apply Hni. cbn [snd]. rewrite <- E. apply in_map. exact H'.
  - fold (fold_set m (set_nth (snd kv) (g (fst kv)) l)). apply IH; [exact Hnd'|exact Hin|]. rewrite set_nth_length. exact Hi.
Qed.
End FoldSet.

Lemma rank_nth k l d : In k l -> nth (rank k l) l d = k /\ rank k l < length l.
Proof.
  induction l as [|x l IH]; intros H; [destruct H|]. cbn [rank]. destruct (Nat.eqb k x) eqn:E.
  - apply Nat.eqb_eq in E. subst. cbn. split; [reflexivity|lia].
  - destruct H as [H|H]; [subst; rewrite Nat.eqb_refl in E; discriminate|]. destruct (IH H) as [A B]. cbn. split; [exact A|lia].
Qed.

Definition to_add_of (o : atoms) (m : list (nat * nat)) : list nat := filter (fun i => negb (mem_key i m)) (seq 0 (natoms o)).
Definition phi_of (a o : atoms) (m : list (nat * nat)) (k : nat) : nat :=
  match assoc k m with Some i => i | None => natoms a + rank k (to_add_of o m) end.

Lemma assoc_none k m : mem_key k m = false -> assoc k m = None.
Proof.
  induction m as [|[k' v] m IH]; cbn; [reflexivity|]. destruct (Nat.eqb k k'); cbn; [discriminate|exact IH].
Qed.

(* per-atom arrays after extend_with: old atoms (mapped ones re-typed) followed by the non-mapped atoms of other, in order *)
Lemma extend_with_atoms a o f m :
  let r := extend_with a o f m in let T := to_add_of o m in
  a_pos r = a_pos a ++ map (fun i => nth i (a_pos o) (0, 0, 0)%Z) T /\
  a_chg r = a_chg a ++ map (fun i => nth i (a_chg o) 0%Z) T /\
  a_grp r = a_grp a ++ map (fun i => nth i (a_grp o) 0%Z) T /\
  a_typ r = fold_set (fun k => nth k (a_typ o) 0 + o_atom f) m (a_typ a) ++ map (fun i => nth i (a_typ o) 0 + o_atom f) T /\
  a_xl r = merge_labels (a_xl a) (a_xl o) /\
  t_el r = t_el a /\ t_mass r = t_mass a /\ t_lab r = t_lab a /\ t_pair r = t_pair a /\ a_cell r = a_cell a /\
  bonds r = extend_kind (o_bond f) (phi_of a o m) (bonds a) (bonds o) /\
  angles r = extend_kind (o_angle f) (phi_of a o m) (angles a) (angles o) /\
  dihedrals r = extend_kind (o_dih f) (phi_of a o m) (dihedrals a) (dihedrals o) /\
  impropers r = extend_kind (o_imp f) (phi_of a o m) (impropers a) (impropers o).
Proof.
  cbv zeta. unfold extend_with. destruct (merge_xf (a_xl a) (a_xf a) (a_xl o) (a_xf o)) as [[nl xs] xo] eqn:E.
  cbn [a_pos a_chg a_grp a_typ a_xl t_el t_mass t_lab t_pair a_cell bonds angles dihedrals impropers].
  unfold merge_xf in E. injection E as <- _ _. repeat split.
Qed.

(* an appended atom k of other sits at index phi k *)
Lemma phi_appended a o f m k : k < natoms o -> mem_key k m = false ->
  nth (phi_of a o m k) (a_pos (extend_with a o f m)) (0, 0, 0)%Z = nth k (a_pos o) (0, 0, 0)%Z /\
  natoms a <= phi_of a o m k < natoms (extend_with a o f m).
Proof.
  intros Hk Hm. destruct (extend_with_atoms a o f m) as [Hp _]. cbv zeta in Hp.
  assert (Hn : natoms (extend_with a o f m) = length (a_pos a ++ map (fun i => nth i (a_pos o) (0, 0, 0)%Z) (to_add_of o m))) by (unfold natoms; rewrite Hp; reflexivity).
  rewrite Hn, Hp. clear Hn Hp.
  unfold phi_of. rewrite (assoc_none k m Hm).
  assert (Hin : In k (to_add_of o m)). { unfold to_add_of. apply filter_In. split; [apply in_seq; lia|rewrite Hm; reflexivity]. }
  destruct (rank_nth k (to_add_of o m) 0 Hin) as [Hr Hl]. unfold natoms. split.
  - rewrite app_nth2 by lia. replace (length (a_pos a) + rank k (to_add_of o m) - length (a_pos a)) with (rank k (to_add_of o m)) by lia.
    rewrite (nth_indep _ (0,0,0)%Z (nth 0 (a_pos o) (0,0,0)%Z)) by (rewrite map_length; exact Hl).
    rewrite (map_nth (fun i => nth i (a_pos o) (0,0,0)%Z) (to_add_of o m) 0). rewrite Hr. reflexivity.
  - rewrite app_length, map_length. lia.
Qed.

(* a mapped atom is not duplicated: phi sends it to the existing atom, which adopts other's type plus the offset *)
Lemma phi_mapped a o m k i : assoc k m = Some i -> phi_of a o m k = i.
Proof. intros H. unfold phi_of. rewrite H. reflexivity. Qed.

Lemma extend_with_natoms a o f m : natoms (extend_with a o f m) = natoms a + length (to_add_of o m).
Proof. destruct (extend_with_atoms a o f m) as [Hp _]. cbv zeta in Hp. unfold natoms. rewrite Hp, app_length, map_length. reflexivity. Qed.

(* explicit zero offsets: type ids are shared, nothing is shifted *)
Lemma add_zero_map l : map (Nat.add 0) l = l.
Proof. induction l; cbn; [reflexivity|f_equal; assumption]. Qed.
