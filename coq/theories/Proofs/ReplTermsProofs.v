(* Replication copies every term into every image (C12): tuples shifted by (image number) * N, types unchanged, in image order. *)
From Coq Require Import List Arith Bool Lia ZArith Permutation.
From Mofun Require Import Lib.NP Model.Atoms Proofs.DelProofs Proofs.ExtProofs Proofs.ReplProofs Proofs.WFProofs.
Import ListNotations.

Definition nonempty_tuples (k : kind) : Prop := Forall (fun t => t <> []) (k_tup k).
Definition shift_tups (s : nat) (tups : list (list nat)) := map (map (Nat.add s)) tups.

Lemma rank_seq k : forall s n, s <= k -> k < s + n -> rank k (seq s n) = k - s.
Proof.
  intros s n. revert s. induction n as [|n IH]; intros s H1 H2; [lia|]. cbn [seq rank]. destruct (Nat.eqb_spec k s) as [->|Hne]; [lia|].
  rewrite IH by lia. lia.
Qed.
Lemma phi_nomap a o k : k < natoms o -> phi_of a o [] k = natoms a + k.
Proof. intros H. unfold phi_of. cbn [assoc]. rewrite to_add_nil, rank_seq by lia. lia. Qed.

Lemma map_fst_combine {A B} (a : list A) (b : list B) : length a = length b -> map fst (combine a b) = a.
Proof. revert b. induction a as [|x a IH]; intros [|y b] H; cbn in *; try discriminate; [reflexivity|]. f_equal. apply IH. lia. Qed.
Lemma map_snd_combine {A B} (a : list A) (b : list B) : length a = length b -> map snd (combine a b) = b.
Proof. revert b. induction a as [|x a IH]; intros [|y b] H; cbn in *; try discriminate; [reflexivity|]. f_equal. apply IH. lia. Qed.
Lemma flat_map_map {A B C} (f : B -> list C) (g : A -> B) l : flat_map f (map g l) = flat_map (fun x => f (g x)) l.
Proof. induction l as [|x l IH]; cbn; [reflexivity|]. rewrite IH. reflexivity. Qed.
Lemma filter_all {A} (p : A -> bool) l : (forall x, In x l -> p x = true) -> filter p l = l.
Proof. induction l as [|x l IH]; intros H; cbn; [reflexivity|]. rewrite (H x (or_introl eq_refl)). f_equal. apply IH. intros y Hy. apply H. right. exact Hy. Qed.

(* one step: nothing is superseded, the copy's tuples are appended shifted by n, its types appended unchanged *)
Lemma extend_kind_copy n k ko : kind_sized k -> kind_sized ko -> tuples_in_range n k -> nonempty_tuples k ->
  (forall t, In t (k_tup ko) -> Forall (fun v => True) t) ->
  let phi := Nat.add n in
  k_tup (extend_kind 0 phi k ko) = k_tup k ++ shift_tups n (k_tup ko) /\
  k_typ (extend_kind 0 phi k ko) = k_typ k ++ k_typ ko /\ k_coef (extend_kind 0 phi k ko) = k_coef k.
Proof.
  intros Hs Ho Hr Hne _. cbv zeta. destruct (k_tup ko) as [|t0 ts] eqn:Et.
  - destruct (extend_kind_empty 0 (Nat.add n) k ko Et) as [A [B [_ [_ C]]]]. rewrite A, B, C. destruct Ho as [O1 _]. rewrite Et in O1.
    destruct (k_typ ko); [|discriminate]. cbn. rewrite !app_nil_r. auto.
  - assert (Hne' : k_tup ko <> []) by (rewrite Et; discriminate).
    destruct (extend_kind_rows 0 (Nat.add n) k ko Hs Ho Hne') as [R [_ C]]. cbv zeta in R. rewrite <- Et in *.
    pose proof (extend_kind_sized 0 (Nat.add n) k ko Hs Ho) as Hs'.
    assert (F : filter (fun r => negb (overridden (map (map (Nat.add n)) (k_tup ko)) (fst r))) (combine (k_tup k) (combine (k_typ k) (xf_self k ko)))
                = combine (k_tup k) (combine (k_typ k) (xf_self k ko))).
    { apply filter_all. intros [t r] Hin. cbn [fst]. apply in_combine_l in Hin. apply negb_true_iff. apply (not_overridden_shift n).
      - unfold nonempty_tuples in Hne. rewrite Forall_forall in Hne. apply Hne. exact Hin.
      - unfold tuples_in_range in Hr. rewrite Forall_forall in Hr. apply Hr. exact Hin.
      - apply Forall_forall. intros u Hu. apply in_map_iff in Hu. destruct Hu as [u' [<- _]]. apply Forall_forall. intros v Hv. apply in_map_iff in Hv. destruct Hv as [w [<- _]]. lia. }
    rewrite F in R. destruct Hs as [S1 S2]. destruct Ho as [O1 O2]. destruct Hs' as [T1 T2].
    assert (L1 : length (combine (k_typ k) (xf_self k ko)) = length (k_tup k)) by (rewrite combine_length, xf_self_length; lia).
    assert (L2 : length (combine (map (Nat.add 0) (k_typ ko)) (xf_other k ko)) = length (map (map (Nat.add n)) (k_tup ko))) by (rewrite combine_length, !map_length, xf_other_length; lia).
    split; [|split; [|exact C]].
    + rewrite <- (map_fst_combine (k_tup (extend_kind 0 (Nat.add n) k ko)) (combine (k_typ (extend_kind 0 (Nat.add n) k ko)) (k_xf (extend_kind 0 (Nat.add n) k ko)))) by (rewrite combine_length; lia).
      fold (rows (extend_kind 0 (Nat.add n) k ko)). rewrite R, map_app, !map_fst_combine by lia. reflexivity.
    + assert (E : k_typ (extend_kind 0 (Nat.add n) k ko) = map (fun r => fst (snd r)) (rows (extend_kind 0 (Nat.add n) k ko))).
      { unfold rows. rewrite <- (map_map snd fst). rewrite map_snd_combine by (rewrite combine_length; lia). rewrite map_fst_combine by lia. reflexivity. }
      rewrite E, R, map_app. rewrite <- !(map_map snd fst). rewrite !map_snd_combine by lia. rewrite !map_fst_combine by (rewrite ?map_length, ?xf_self_length, ?xf_other_length; lia).
      f_equal. apply add_zero_map.
Qed.

Lemma shift_in_range n s k : tuples_in_range n k -> Forall (fun t => Forall (fun v => v < s + n) t) (shift_tups s (k_tup k)).
Proof.
  intros H. unfold shift_tups. apply Forall_forall. intros t Ht. apply in_map_iff in Ht. destruct Ht as [u [<- Hu]].
  unfold tuples_in_range in H. rewrite Forall_forall in H. specialize (H u Hu). apply Forall_forall. intros v Hv. apply in_map_iff in Hv. destruct Hv as [w [<- Hw]].
  rewrite Forall_forall in H. specialize (H w Hw). lia.
Qed.
Lemma shift_nonempty s tups : Forall (fun t => t <> []) tups -> Forall (fun t => t <> []) (shift_tups s tups).
Proof. intros H. unfold shift_tups. apply Forall_forall. intros t Ht. apply in_map_iff in Ht. destruct Ht as [u [<- Hu]]. rewrite Forall_forall in H. specialize (H u Hu). destruct u; [contradiction|discriminate]. Qed.

(* the accumulated structure after the images ms, for one kind selected by `sel` with its offset selected by `off` *)
Section OneKind.
Variable sel : atoms -> kind.
Variable off : offsets -> nat.
Hypothesis sel_extend_with : forall acc o f m, sel (extend_with acc o f m) = extend_kind (off f) (phi_of acc o m) (sel acc) (sel o).
Hypothesis off_zero : off zero_offsets = 0.
Hypothesis sel_translate : forall a d, sel (translate a d) = sel a.

Lemma map_phi_nomap acc o tups : Forall (fun t => Forall (fun v => v < natoms o) t) tups -> map (map (phi_of acc o [])) tups = shift_tups (natoms acc) tups.
Proof.
  intros H. unfold shift_tups. apply map_ext_in. intros t Ht. apply map_ext_in. intros v Hv. rewrite Forall_forall in H. specialize (H t Ht). rewrite Forall_forall in H.
  apply phi_nomap. apply H. exact Hv.
Qed.
Lemma extend_kind_phi_ext off' phi phi' k ko : map (map phi) (k_tup ko) = map (map phi') (k_tup ko) -> extend_kind off' phi k ko = extend_kind off' phi' k ko.
Proof. intros H. unfold extend_kind. destruct (merge_xf (k_xl k) (k_xf k) (k_xl ko) (k_xf ko)) as [[nl xs] xo]. destruct (k_tup ko) as [|t0 ts] eqn:E; [reflexivity|]. rewrite H. reflexivity. Qed.

Lemma body_kind a c : sized a -> kind_sized (sel a) -> tuples_in_range (natoms a) (sel a) -> nonempty_tuples (sel a) ->
  forall ms acc q, natoms acc = q * natoms a -> kind_sized (sel acc) -> tuples_in_range (natoms acc) (sel acc) -> nonempty_tuples (sel acc) ->
  let r := body a c ms acc in
  k_tup (sel r) = k_tup (sel acc) ++ flat_map (fun i => shift_tups ((q + i) * natoms a) (k_tup (sel a))) (seq 0 (length ms)) /\
  k_typ (sel r) = k_typ (sel acc) ++ flat_map (fun _ => k_typ (sel a)) ms /\ k_coef (sel r) = k_coef (sel acc).
Proof.
  intros Hs Ks Kr Kn. induction ms as [|[[i j] k] ms IH]; intros acc q Nq As Ar An; cbv zeta.
  - cbn. rewrite !app_nil_r. auto.
  - set (o := translate a (lattice c (Z.of_nat i) (Z.of_nat j) (Z.of_nat k))).
    set (acc' := extend acc o (Some zero_offsets) []).
    change (body a c ((i, j, k) :: ms) acc) with (body a c ms acc').
    assert (No : natoms o = natoms a) by (unfold o, natoms, translate; cbn; apply map_length).
    assert (Eacc' : sel acc' = extend_kind 0 (Nat.add (natoms acc)) (sel acc) (sel a)).
    { unfold acc', extend. rewrite sel_extend_with, off_zero. unfold o at 2. rewrite sel_translate. apply extend_kind_phi_ext.
      rewrite (map_phi_nomap acc o); [reflexivity|]. rewrite No. exact Kr. }
    destruct (extend_kind_copy (natoms acc) (sel acc) (sel a) As Ks Ar An) as [T [Y C]]; [intros; apply Forall_forall; auto|]. cbv zeta in T, Y, C.
    assert (Nacc' : natoms acc' = Datatypes.S q * natoms a).
    { unfold acc', extend. rewrite extend_with_natoms, to_add_nil, seq_length, No, Nq. cbn. lia. }
    specialize (IH acc' (Datatypes.S q) Nacc').
    assert (As' : kind_sized (sel acc')) by (rewrite Eacc'; apply extend_kind_sized; assumption).
    assert (Ar' : tuples_in_range (natoms acc') (sel acc')).
    { unfold tuples_in_range. rewrite Eacc', T. apply Forall_app. split.
      - assert (Hle : natoms acc <= natoms acc') by (rewrite Nacc', Nq; cbn [Nat.mul]; lia).
        eapply Forall_impl; [|exact Ar]. cbv beta. intros t Ht. eapply Forall_impl; [|exact Ht]. cbv beta. intros v Hv. lia.
      - rewrite Nacc'. replace (Datatypes.S q * natoms a) with (natoms acc + natoms a) by (rewrite Nq; cbn; lia). apply shift_in_range. exact Kr. }
    assert (An' : nonempty_tuples (sel acc')) by (unfold nonempty_tuples; rewrite Eacc', T; apply Forall_app; split; [exact An|apply shift_nonempty; exact Kn]).
    destruct (IH As' Ar' An') as [T' [Y' C']]. cbv zeta in T', Y', C'. rewrite T', Y', C', Eacc', T, Y, C. cbn [length seq flat_map]. rewrite <- !app_assoc. repeat split.
    f_equal. rewrite Nq, Nat.add_0_r. f_equal. rewrite <- seq_shift, flat_map_map.
    apply flat_map_ext. intros x. f_equal. lia.
Qed.
End OneKind.

(* every kind of term after replication: image number i (0 = the original, then the multiplier triples in order) carries the original's
   tuples shifted by i * N and the original's types; coefficient tables are unchanged *)
Theorem replicate_terms a c r R : a_cell a = Some c -> WF a ->
  nonempty_tuples (bonds a) -> nonempty_tuples (angles a) -> nonempty_tuples (dihedrals a) -> nonempty_tuples (impropers a) ->
  replicate a r = Some R ->
  let M := length (all_mults r) in let n := natoms a in
  let img (k : kind) := flat_map (fun i => shift_tups (i * n) (k_tup k)) (seq 0 M) in
  let typ (k : kind) := flat_map (fun _ => k_typ k) (seq 0 M) in
  (k_tup (bonds R) = img (bonds a) /\ k_typ (bonds R) = typ (bonds a) /\ k_coef (bonds R) = k_coef (bonds a)) /\
  (k_tup (angles R) = img (angles a) /\ k_typ (angles R) = typ (angles a) /\ k_coef (angles R) = k_coef (angles a)) /\
  (k_tup (dihedrals R) = img (dihedrals a) /\ k_typ (dihedrals R) = typ (dihedrals a) /\ k_coef (dihedrals R) = k_coef (dihedrals a)) /\
  (k_tup (impropers R) = img (impropers a) /\ k_typ (impropers R) = typ (impropers a) /\ k_coef (impropers R) = k_coef (impropers a)).
Proof.
  intros Hc [Hs [[Kb Rb] [[Ka Ra] [[Kd Rd] [Ki Ri]]]]] Nb Na Nd Ni H. unfold replicate in H. rewrite Hc in H. injection H as <-. cbv zeta.
  unfold all_mults. cbn [length seq flat_map]. fold (body a c (ucmults r) a).
  assert (Sh0 : forall tups, shift_tups (0 * natoms a) tups = tups).
  { intros tups. unfold shift_tups. cbn. rewrite <- (map_id tups) at 2. apply map_ext. intros t. rewrite <- (map_id t) at 2. apply map_ext. reflexivity. }
  assert (G : forall (sel : atoms -> kind) (off : offsets -> nat),
             (forall acc o f m, sel (extend_with acc o f m) = extend_kind (off f) (phi_of acc o m) (sel acc) (sel o)) -> off zero_offsets = 0 ->
             (forall a d, sel (translate a d) = sel a) -> (forall x cc, sel (set_cell x cc) = sel x) ->
             kind_sized (sel a) -> tuples_in_range (natoms a) (sel a) -> nonempty_tuples (sel a) ->
             k_tup (sel (set_cell (body a c (ucmults r) a) (Some (scale_rows c r)))) =
               shift_tups (0 * natoms a) (k_tup (sel a)) ++ flat_map (fun i => shift_tups (i * natoms a) (k_tup (sel a))) (seq 1 (length (ucmults r))) /\
             k_typ (sel (set_cell (body a c (ucmults r) a) (Some (scale_rows c r)))) = k_typ (sel a) ++ flat_map (fun _ => k_typ (sel a)) (seq 1 (length (ucmults r))) /\
             k_coef (sel (set_cell (body a c (ucmults r) a) (Some (scale_rows c r)))) = k_coef (sel a)).
  { intros sel off E1 E2 E3 E4 K1 K2 K3. rewrite E4.
    destruct (body_kind sel off E1 E2 E3 a c Hs K1 K2 K3 (ucmults r) a 1) as [T [Y C]]; [lia|exact K1|exact K2|exact K3|]. cbv zeta in T, Y, C.
    rewrite T, Y, C, Sh0. split; [|split; [|reflexivity]].
    - f_equal. rewrite <- seq_shift, flat_map_map. apply flat_map_ext. intros x. reflexivity.
    - f_equal. clear. generalize 1. induction (ucmults r) as [|m ms IH]; intros s; cbn; [reflexivity|]. f_equal. apply IH. }
  assert (X : forall acc o f m, let r := extend_with acc o f m in
            bonds r = extend_kind (o_bond f) (phi_of acc o m) (bonds acc) (bonds o) /\ angles r = extend_kind (o_angle f) (phi_of acc o m) (angles acc) (angles o) /\
            dihedrals r = extend_kind (o_dih f) (phi_of acc o m) (dihedrals acc) (dihedrals o) /\ impropers r = extend_kind (o_imp f) (phi_of acc o m) (impropers acc) (impropers o)).
  { intros acc o f m. destruct (extend_with_atoms acc o f m) as [_ [_ [_ [_ [_ [_ [_ [_ [_ [_ [Eb [Ea [Ed Ei]]]]]]]]]]]]]. cbv zeta in *. auto. }
  split; [|split; [|split]].
  - apply (G bonds o_bond); try reflexivity; try assumption; intros acc o f m; apply (X acc o f m).
  - apply (G angles o_angle); try reflexivity; try assumption; intros acc o f m; apply (X acc o f m).
  - apply (G dihedrals o_dih); try reflexivity; try assumption; intros acc o f m; apply (X acc o f m).
  - apply (G impropers o_imp); try reflexivity; try assumption; intros acc o f m; apply (X acc o f m).
Qed.
(* membership in the per-image listing: a tuple of the replicated structure is exactly an original tuple moved into one image *)
Lemma in_images n M tups t :
  In t (flat_map (fun i => shift_tups (i * n) tups) (seq 0 M)) <-> exists i t0, i < M /\ In t0 tups /\ t = map (Nat.add (i * n)) t0.
Proof.
  rewrite in_flat_map. split.
  - intros [i [Hi Ht]]. apply in_seq in Hi. unfold shift_tups in Ht. apply in_map_iff in Ht. destruct Ht as [t0 [E H0]].
    exists i, t0. repeat split; [lia|exact H0|symmetry; exact E].
  - intros [i [t0 [Hi [H0 E]]]]. exists i. split; [apply in_seq; lia|]. unfold shift_tups. apply in_map_iff. exists t0. split; [symmetry; exact E|exact H0].
Qed.

Lemma images_length n M tups : length (flat_map (fun i => shift_tups (i * n) tups) (seq 0 M)) = M * length tups.
Proof.
  generalize 0 as s. induction M as [|M IH]; intros s; cbn [seq flat_map]; [reflexivity|].
  rewrite app_length, IH. unfold shift_tups. rewrite map_length. cbn. reflexivity.
Qed.

(* an image tuple lies wholly inside image i: every index is i*n + (an index below n), so quotient and remainder by n recover the image and the original tuple *)
Lemma shifted_within n i t0 : Forall (fun v => v < n) t0 ->
  Forall (fun v => v / n = i) (map (Nat.add (i * n)) t0) /\ map (fun v => v mod n) (map (Nat.add (i * n)) t0) = t0.
Proof.
  intros H. induction H as [|v t0 Hv H IH]; [split; [constructor|reflexivity]|].
  destruct IH as [IH1 IH2]. assert (Hn : n <> 0) by lia. cbn [map]. split.
  - constructor; [|exact IH1]. rewrite Nat.add_comm, Nat.div_add by exact Hn. rewrite Nat.div_small by exact Hv. reflexivity.
  - f_equal; [|exact IH2]. rewrite Nat.add_comm, Nat.mod_add by exact Hn. apply Nat.mod_small. exact Hv.
Qed.

Definition per_image (n M : nat) (k kR : kind) : Prop :=
  length (k_tup kR) = M * length (k_tup k) /\
  (forall t, In t (k_tup kR) <-> exists i t0, i < M /\ In t0 (k_tup k) /\ t = map (Nat.add (i * n)) t0) /\
  (forall t, In t (k_tup kR) -> exists i, i < M /\ Forall (fun v => v / n = i) t /\ In (map (fun v => v mod n) t) (k_tup k)).

Lemma per_image_of n M k kR : tuples_in_range n k ->
  k_tup kR = flat_map (fun i => shift_tups (i * n) (k_tup k)) (seq 0 M) -> per_image n M k kR.
Proof.
  intros Hr E. unfold per_image. rewrite E. split; [apply images_length|]. split; [intros t; apply in_images|].
  intros t Ht. apply in_images in Ht. destruct Ht as [i [t0 [Hi [H0 ->]]]].
  unfold tuples_in_range in Hr. rewrite Forall_forall in Hr. destruct (shifted_within n i t0 (Hr t0 H0)) as [Q Rm].
  exists i. split; [exact Hi|]. split; [exact Q|]. rewrite Rm. exact H0.
Qed.

Theorem replicate_terms_within_images a c r R : a_cell a = Some c -> WF a ->
  nonempty_tuples (bonds a) -> nonempty_tuples (angles a) -> nonempty_tuples (dihedrals a) -> nonempty_tuples (impropers a) ->
  replicate a r = Some R ->
  let M := length (all_mults r) in let n := natoms a in
  per_image n M (bonds a) (bonds R) /\ per_image n M (angles a) (angles R) /\
  per_image n M (dihedrals a) (dihedrals R) /\ per_image n M (impropers a) (impropers R).
Proof.
  intros Hc Hwf Nb Na Nd Ni H. pose proof (replicate_terms a c r R Hc Hwf Nb Na Nd Ni H) as T. cbv zeta in T |- *.
  destruct T as [[Tb _] [[Ta _] [[Td _] [Ti _]]]].
  destruct Hwf as [Hs [[Kb Rb] [[Ka Ra] [[Kd Rd] [Ki Ri]]]]].
  split; [apply per_image_of; assumption|]. split; [apply per_image_of; assumption|]. split; apply per_image_of; assumption.
Qed.
Definition grid3 (ra rb rc : nat) : list (nat * nat * nat) :=
  flat_map (fun k => flat_map (fun i => map (fun j => (i, j, k)) (seq 0 rb)) (seq 0 ra)) (seq 0 rc).

Lemma flat_map_const_length {A B} (f : A -> list B) n l : (forall x, In x l -> length (f x) = n) -> length (flat_map f l) = length l * n.
Proof. induction l as [|x l IH]; intros H; cbn [flat_map length]; [reflexivity|]. rewrite app_length, IH, (H x); [cbn; lia|left; reflexivity|intros y Hy; apply H; right; exact Hy]. Qed.

Lemma grid3_length ra rb rc : length (grid3 ra rb rc) = ra * rb * rc.
Proof.
  unfold grid3. rewrite (flat_map_const_length _ (ra * rb)).
  - rewrite seq_length. lia.
  - intros k _. rewrite (flat_map_const_length _ rb); [rewrite seq_length; reflexivity|]. intros i _. rewrite map_length, seq_length. reflexivity.
Qed.

Lemma in_grid3 ra rb rc i j k : In (i, j, k) (grid3 ra rb rc) <-> i < ra /\ j < rb /\ k < rc.
Proof.
  unfold grid3. rewrite in_flat_map. split.
  - intros [k' [Hk H]]. apply in_flat_map in H. destruct H as [i' [Hi H]]. apply in_map_iff in H. destruct H as [j' [E Hj]].
    injection E as <- <- <-. apply in_seq in Hk, Hi, Hj. lia.
  - intros [Hi [Hj Hk]]. exists k. split; [apply in_seq; lia|]. apply in_flat_map. exists i. split; [apply in_seq; lia|].
    apply in_map_iff. exists j. split; [reflexivity|apply in_seq; lia].
Qed.

Lemma grid3_nodup ra rb rc : NoDup (grid3 ra rb rc).
Proof.
  unfold grid3. apply NoDup_flat_map; [apply seq_NoDup| |].
  + intros k _. apply NoDup_flat_map; [apply seq_NoDup| |].
    * intros i _. apply NoDup_map_inj; [|apply seq_NoDup]. intros x y _ _ E. injection E as E. exact E.
    * intros x y b _ _ Hx Hy. apply in_map_iff in Hx, Hy. destruct Hx as [j1 [<- _]]. destruct Hy as [j2 [E _]]. injection E as E _. symmetry; exact E.
  + intros x y b _ _ Hx Hy. apply in_flat_map in Hx, Hy. destruct Hx as [i1 [_ Hx]]. destruct Hy as [i2 [_ Hy]].
    apply in_map_iff in Hx, Hy. destruct Hx as [j1 [<- _]]. destruct Hy as [j2 [E _]]. injection E as _ _ E. symmetry; exact E.
Qed.

(* a*b*c images *)
Lemma all_mults_length ra rb rc : 0 < ra -> 0 < rb -> 0 < rc -> length (all_mults (ra, rb, rc)) = ra * rb * rc.
Proof.
  intros Ha Hb Hc. rewrite <- grid3_length. apply Permutation_length. apply NoDup_Permutation; [apply ucmults_nodup|apply grid3_nodup|].
  intros [[i j] k]. rewrite in_grid3. exact (in_all_mults (ra, rb, rc) i j k Ha Hb Hc).
Qed.

Theorem replicate_counts a c ra rb rc R : a_cell a = Some c -> WF a ->
  nonempty_tuples (bonds a) -> nonempty_tuples (angles a) -> nonempty_tuples (dihedrals a) -> nonempty_tuples (impropers a) ->
  0 < ra -> 0 < rb -> 0 < rc -> replicate a (ra, rb, rc) = Some R ->
  let M := ra * rb * rc in
  natoms R = M * natoms a /\ length (k_tup (bonds R)) = M * length (k_tup (bonds a)) /\ length (k_tup (angles R)) = M * length (k_tup (angles a)) /\ length (k_tup (dihedrals R)) = M * length (k_tup (dihedrals a)) /\ length (k_tup (impropers R)) = M * length (k_tup (impropers a)).
Proof.
  intros Hc Hwf Nb Na Nd Ni Ha Hb Hcc H. cbv zeta. rewrite <- (all_mults_length ra rb rc Ha Hb Hcc).
  destruct (replicate_terms_within_images a c (ra, rb, rc) R Hc Hwf Nb Na Nd Ni H) as [[Lb _] [[La _] [[Ld _] [Li _]]]].
  split; [|repeat split; assumption].
  destruct Hwf as [Hs _]. destruct (replicate_spec a c (ra, rb, rc) Hc Hs) as [R' [E [P _]]]. rewrite H in E. injection E as <-.
  unfold natoms. rewrite P. rewrite (flat_map_const_length _ (length (a_pos a))); [reflexivity|]. intros m _. apply map_length.
Qed.
(* pointwise reading of the per-image listing: entry q*n + v of the concatenated images is entry v of image q *)
Lemma nth_flat_map_blocks {A B} (f : A -> list B) (n : nat) (d : B) : forall (ms : list A) (da : A) q v,
  (forall m, In m ms -> length (f m) = n) -> q < length ms -> v < n ->
  nth (q * n + v) (flat_map f ms) d = nth v (f (nth q ms da)) d.
Proof.
  induction ms as [|m ms IH]; intros da q v Hl Hq Hv; [cbn in Hq; lia|]. cbn [flat_map].
  pose proof (Hl m (or_introl eq_refl)) as Lm. destruct q as [|q].
  - cbn [Nat.mul Nat.add nth]. apply app_nth1. lia.
  - rewrite app_nth2 by (rewrite Lm; cbn; lia). rewrite Lm. replace (Datatypes.S q * n + v - n) with (q * n + v) by (cbn; lia).
    cbn [nth]. apply IH; [intros m' Hm'; apply Hl; right; exact Hm'|cbn in Hq; lia|exact Hv].
Qed.

Theorem replicate_pointwise a c r : a_cell a = Some c -> sized a ->
  exists R, replicate a r = Some R /\
  forall q v, q < length (all_mults r) -> v < natoms a ->
    let i := q * natoms a + v in
    nth i (a_pos R) (0, 0, 0)%Z = vadd (nth v (a_pos a) (0, 0, 0)%Z) (offs_vec c (nth q (all_mults r) (0, 0, 0))) /\
    nth i (a_typ R) 0 = nth v (a_typ a) 0 /\ nth i (a_chg R) 0%Z = nth v (a_chg a) 0%Z /\ nth i (a_grp R) 0%Z = nth v (a_grp a) 0%Z /\
    element_of R i = element_of a v /\ mass_of R i = mass_of a v /\ label_of R i = label_of a v /\ pair_of R i = pair_of a v.
Proof.
  intros Hc Hs. destruct (replicate_spec a c r Hc Hs) as [R [E [P [T [C [G [E1 [E2 [E3 [E4 _]]]]]]]]]]. exists R. split; [exact E|].
  intros q v Hq Hv. cbv zeta. destruct Hs as [S1 [S2 [S3 _]]].
  assert (HT : nth (q * natoms a + v) (a_typ R) 0 = nth v (a_typ a) 0).
  { rewrite T. rewrite (nth_flat_map_blocks (fun _ => a_typ a) (natoms a) 0 (all_mults r) (0, 0, 0) q v); [reflexivity|intros; exact S1|exact Hq|exact Hv]. }
  split.
  { rewrite P. rewrite (nth_flat_map_blocks _ (natoms a) (0, 0, 0)%Z (all_mults r) (0, 0, 0) q v); [|intros; apply map_length|exact Hq|exact Hv].
    rewrite (nth_indep _ (0, 0, 0)%Z (vadd (0, 0, 0)%Z (offs_vec c (nth q (all_mults r) (0, 0, 0))))) by (rewrite map_length; exact Hv).
    apply (map_nth (fun p => vadd p (offs_vec c (nth q (all_mults r) (0, 0, 0))))). }
  split; [exact HT|]. split.
  { rewrite C. rewrite (nth_flat_map_blocks (fun _ => a_chg a) (natoms a) 0%Z (all_mults r) (0, 0, 0) q v); [reflexivity|intros; exact S2|exact Hq|exact Hv]. }
  split.
  { rewrite G. rewrite (nth_flat_map_blocks (fun _ => a_grp a) (natoms a) 0%Z (all_mults r) (0, 0, 0) q v); [reflexivity|intros; exact S3|exact Hq|exact Hv]. }
  unfold element_of, mass_of, label_of, pair_of. rewrite HT, E1, E2, E3, E4. repeat split.
Qed.
