(* Proofs about the LAMMPS data file content model (C13) *)
From Coq Require Import ZArith List Bool Arith Lia.
From Mofun Require Import Lib.NP Model.Atoms Model.Lmpdat Proofs.DelProofs.
Import ListNotations.
Open Scope Z_scope.

(* ---------- rounding ---------- *)
Lemma round6_micro x : round6 1000000 x = x.
Proof. unfold round6. rewrite Z.div_mul by lia. rewrite Z.mod_mul by lia. reflexivity. Qed.
Lemma round6_zero d : 0 < d -> round6 d 0 = 0.
Proof.
  intros H. unfold round6. change (0 * 1000000) with 0. rewrite Z.div_0_l by lia. rewrite Z.mod_0_l by lia. change (2 * 0) with 0.
  assert (E : (0 <? d) = true) by (apply Z.ltb_lt; exact H). rewrite E. reflexivity.
Qed.
Lemma r6v_micro v : r6v 1000000 v = v.
Proof. destruct v as [[x y] z]. unfold r6v. rewrite !round6_micro. reflexivity. Qed.

(* ---------- list plumbing ---------- *)
Lemma map_snd_combine {A B} (a : list A) (b : list B) : length a = length b -> map snd (combine a b) = b.
Proof. revert b; induction a as [|x a IH]; intros [|y b] H; cbn in *; try reflexivity; try discriminate. f_equal. apply IH. lia. Qed.
Lemma map_fst_combine {A B} (a : list A) (b : list B) : length a = length b -> map fst (combine a b) = a.
Proof. revert b; induction a as [|x a IH]; intros [|y b] H; cbn in *; try reflexivity; try discriminate. f_equal. apply IH. lia. Qed.
Lemma map_snd_numbered {A} (l : list A) : map snd (numbered l) = l.
Proof. unfold numbered. apply map_snd_combine. apply seq_length. Qed.
Lemma map_numbered {A B} (h : A -> B) (l : list A) : map (fun x => h (snd x)) (numbered l) = map h l.
Proof. rewrite <- (map_map snd h). rewrite map_snd_numbered. reflexivity. Qed.
Lemma numbered_length {A} (l : list A) : length (numbered l) = length l.
Proof. unfold numbered. rewrite combine_length, seq_length. lia. Qed.
Lemma map_pred_S l : map Nat.pred (map S l) = l.
Proof. rewrite map_map. cbn. apply map_id. Qed.

(* ---------- terms ---------- *)
Lemma load_save_terms k coef : kind_sized k -> load_terms (save_terms k) (numbered coef) = mk_kind (k_tup k) (k_typ k) (map (fun _ => []) (k_typ k)) [] coef.
Proof.
  intros [H1 H2]. unfold load_terms, save_terms. rewrite !map_map. cbn [tl_atoms tl_typ].
  rewrite map_snd_numbered. f_equal.
  - rewrite (map_numbered (fun x => map Nat.pred (map S (snd x)))). rewrite <- (map_map snd (fun t => map Nat.pred (map S t))).
    rewrite map_snd_combine by exact H1. erewrite map_ext; [apply map_id|]. intros t. apply map_pred_S.
  - rewrite (map_numbered (fun x => Nat.pred (S (fst x)))). rewrite <- (map_map fst (fun t => Nat.pred (S t))).
    rewrite map_fst_combine by exact H1. cbn. apply map_id.
  - rewrite (map_numbered (fun _ => @nil Z)). rewrite <- (map_map fst (fun _ => @nil Z)). rewrite map_fst_combine by exact H1. reflexivity.
Qed.

(* ---------- whole file ---------- *)
Definition tables_sized (a : atoms) : Prop := length (t_lab a) = length (t_mass a).
Definition cell_ok (d : Z) (a : atoms) : Prop :=
  match a_cell a with
  | None => True
  | Some ((ax, ay, az), (bx, by_, bz), (cx, cy, cz)) =>
    ay = 0 /\ az = 0 /\ bz = 0 /\ 0 < round6 d ax /\ 0 < round6 d by_ /\ 0 < round6 d cz
  end.

Lemma save_is_some d st a : cell_ok d a -> exists f, save d st a = Some f.
Proof.
  unfold cell_ok, save. destruct (a_cell a) as [[[[[ax ay] az] [[bx by_] bz]] [[cx cy] cz]]|]; [|eexists; reflexivity].
  intros [E1 [E2 [E3 _]]]. subst ay az bz. cbn [is_orthorhombic lammps_oriented]. rewrite !Z.eqb_refl. cbn [andb].
  destruct ((bx =? 0) && true && (cx =? 0) && (cy =? 0)); eexists; reflexivity.
Qed.

Theorem roundtrip d st els a f : 0 < d -> atoms_sized a -> tables_sized a ->
  kind_sized (bonds a) -> kind_sized (angles a) -> kind_sized (dihedrals a) -> kind_sized (impropers a) -> cell_ok d a ->
  save d st a = Some f -> load st els f = normalise d st els a.
Proof.
  intros Hd [S1 [S2 [S3 S4]]] HT Kb Ka Kd Ki HC HS. unfold natoms in *.
  unfold save in HS.
  set (rows := numbered (combine (a_pos a) (combine (a_typ a) (combine (a_chg a) (a_grp a))))) in *.
  assert (L1 : length (combine (a_chg a) (a_grp a)) = length (a_pos a)) by (rewrite combine_length; lia).
  assert (L2 : length (combine (a_typ a) (combine (a_chg a) (a_grp a))) = length (a_pos a)) by (rewrite combine_length; lia).
  assert (P1 : map (fun x => fst (snd x)) rows = a_pos a).
  { unfold rows. rewrite (map_numbered fst). apply map_fst_combine. lia. }
  assert (P2 : map (fun x => fst (snd (snd x))) rows = a_typ a).
  { unfold rows. rewrite (map_numbered (fun y => fst (snd y))). rewrite <- (map_map snd fst). rewrite map_snd_combine by lia. apply map_fst_combine. lia. }
  assert (P3 : map (fun x => fst (snd (snd (snd x)))) rows = a_chg a).
  { unfold rows. rewrite (map_numbered (fun y => fst (snd (snd y)))). rewrite <- (map_map snd (fun y => fst (snd y))). rewrite map_snd_combine by lia.
    rewrite <- (map_map snd fst). rewrite map_snd_combine by lia. apply map_fst_combine. lia. }
  assert (P4 : map (fun x => snd (snd (snd (snd x)))) rows = a_grp a).
  { unfold rows. rewrite (map_numbered (fun y => snd (snd (snd y)))). rewrite <- (map_map snd (fun y => snd (snd y))). rewrite map_snd_combine by lia.
    rewrite <- (map_map snd snd). rewrite map_snd_combine by lia. apply map_snd_combine. lia. }
  (* the cell *)
  assert (CELL : forall b, (match a_cell a with
             | None => Some None
             | Some c => let '((ax, _, _), (bx, by_, _), (cx, cy, cz)) := c in
               if is_orthorhombic c then Some (Some (r6v d (ax, by_, cz), None))
               else if lammps_oriented c then Some (Some (r6v d (ax, by_, cz), Some (r6v d (bx, cx, cy)))) else None end) = Some b ->
     match b with
     | None => None
     | Some ((cx, cy, cz), tilt) =>
       if (0 <? cx) && (0 <? cy) && (0 <? cz) then
         match tilt with
         | Some (xy, xz, yz) => if (xy =? 0) && (xz =? 0) && (yz =? 0) then Some ((cx, 0, 0), (0, cy, 0), (0, 0, cz)) else Some ((cx, 0, 0), (xy, cy, 0), (xz, yz, cz))
         | None => Some ((cx, 0, 0), (0, cy, 0), (0, 0, cz))
         end
       else None
     end = a_cell (normalise d st els a)).
  { intros b Hb. unfold normalise. cbn [a_cell]. unfold cell_ok in HC.
    destruct (a_cell a) as [[[[[ax ay] az] [[bx by_] bz]] [[cx cy] cz]]|]; [|injection Hb as <-; reflexivity].
    destruct HC as [Q1 [Q2 [Q3 [Hx [Hy Hz]]]]]. subst ay az bz. cbn [is_orthorhombic lammps_oriented] in Hb. rewrite !Z.eqb_refl in Hb. cbn [andb] in Hb.
    assert (Px : (0 <? round6 d ax) = true) by (apply Z.ltb_lt; exact Hx). assert (Py : (0 <? round6 d by_) = true) by (apply Z.ltb_lt; exact Hy).
    assert (Pz : (0 <? round6 d cz) = true) by (apply Z.ltb_lt; exact Hz).
    destruct ((bx =? 0) && true && (cx =? 0) && (cy =? 0)) eqn:O; injection Hb as <-; cbn [r6v]; rewrite Px, Py, Pz; cbn [andb].
    - apply andb_true_iff in O. destruct O as [O O3]. apply andb_true_iff in O. destruct O as [O O2]. apply andb_true_iff in O. destruct O as [O1 _].
      apply Z.eqb_eq in O1, O2, O3. subst. rewrite !(round6_zero d Hd). reflexivity.
    - destruct ((round6 d bx =? 0) && (round6 d cx =? 0) && (round6 d cy =? 0)) eqn:T; [|reflexivity].
      apply andb_true_iff in T. destruct T as [T T3]. apply andb_true_iff in T. destruct T as [T1 T2]. apply Z.eqb_eq in T1, T2, T3. rewrite T1, T2, T3. reflexivity. }
  destruct (match a_cell a with None => Some None | Some c => _ end) as [b|] eqn:EB; [|discriminate]. injection HS as <-.
  specialize (CELL b eq_refl).
  unfold load. cbn [f_atoms f_masses f_pair f_bonds f_angles f_dihedrals f_impropers f_bondc f_anglec f_dihc f_impc f_box].
  rewrite !map_map. cbn [al_pos al_typ al_chg al_grp].
  rewrite (load_save_terms _ _ Kb), (load_save_terms _ _ Ka), (load_save_terms _ _ Kd), (load_save_terms _ _ Ki).
  rewrite map_snd_numbered.
  unfold normalise, norm_kind.
  assert (E1 : map (fun x => al_pos (let '(i, (p, (t, (q, g)))) := x in mk_aline i match st with Full => g + 1 | Atomic => 0 end (S t) match st with Full => round6 d q | Atomic => 0 end (r6v d p))) rows
               = map (r6v d) (a_pos a)).
  { rewrite <- P1, map_map. apply map_ext. intros [i [p [t [q g]]]]. reflexivity. }
  assert (E2 : map (fun x => Nat.pred (al_typ (let '(i, (p, (t, (q, g)))) := x in mk_aline i match st with Full => g + 1 | Atomic => 0 end (S t) match st with Full => round6 d q | Atomic => 0 end (r6v d p)))) rows
               = a_typ a).
  { rewrite <- P2. apply map_ext. intros [i [p [t [q g]]]]. reflexivity. }
  assert (E3 : map (fun x => match st with Full => al_chg (let '(i, (p, (t, (q, g)))) := x in mk_aline i match st with Full => g + 1 | Atomic => 0 end (S t) match st with Full => round6 d q | Atomic => 0 end (r6v d p)) | Atomic => 0 end) rows
               = map (fun q => match st with Full => round6 d q | Atomic => 0 end) (a_chg a)).
  { rewrite <- P3, map_map. apply map_ext. intros [i [p [t [q g]]]]. destruct st; reflexivity. }
  assert (E4 : map (fun x => match st with Full => al_grp (let '(i, (p, (t, (q, g)))) := x in mk_aline i match st with Full => g + 1 | Atomic => 0 end (S t) match st with Full => round6 d q | Atomic => 0 end (r6v d p)) - 1 | Atomic => 0 end) rows
               = map (fun g => match st with Full => g | Atomic => 0 end) (a_grp a)).
  { rewrite <- P4, map_map. apply map_ext. intros [i [p [t [q g]]]]. destruct st; cbn; [lia|reflexivity]. }
  assert (E5 : map (fun _ : nat * (vec * (nat * (Z * Z))) => @nil Z) rows = map (fun _ => []) (a_pos a)).
  { rewrite <- P1, map_map. reflexivity. }
  assert (E6 : map (fun x : nat * (Z * Z) => snd (fst (fst x, round6 d (fst (snd x)), snd (snd x)))) (numbered (combine (t_mass a) (t_lab a))) = map (round6 d) (t_mass a)).
  { cbn [fst snd]. rewrite (map_numbered (fun y => round6 d (fst y))). rewrite <- (map_map fst (round6 d)). rewrite map_fst_combine by (unfold tables_sized in HT; lia). reflexivity. }
  assert (E7 : map (fun x : nat * (Z * Z) => snd (fst x, round6 d (fst (snd x)), snd (snd x))) (numbered (combine (t_mass a) (t_lab a))) = t_lab a).
  { cbn [fst snd]. rewrite (map_numbered snd). apply map_snd_combine. unfold tables_sized in HT. lia. }
  rewrite E1, E2, E3, E4, E5, E6, E7, CELL. reflexivity.
Qed.

(* what was read back is a fixed point of write-then-read: from the second generation on nothing changes *)
Theorem normalise_idempotent d st els a : normalise 1000000 st els (normalise d st els a) = normalise d st els a.
Proof.
  unfold normalise. cbn [a_pos a_typ a_chg a_grp t_mass t_lab t_pair bonds angles dihedrals impropers a_cell]. f_equal.
  - rewrite map_map. apply map_ext. intros p. apply r6v_micro.
  - rewrite map_map. apply map_ext. intros q. destruct st; [apply round6_micro|reflexivity].
  - rewrite map_map. apply map_ext. intros g. destruct st; reflexivity.
  - rewrite map_map. reflexivity.
  - rewrite map_map. apply map_ext. intros m. apply round6_micro.
  - destruct (a_cell a) as [[[[[ax ay] az] [[bx by_] bz]] [[cx cy] cz]]|]; [|reflexivity]. rewrite !round6_micro. reflexivity.
Qed.

(* declared counts are the section lengths *)
Theorem save_counts d st a f : atoms_sized a -> kind_sized (bonds a) -> kind_sized (angles a) -> kind_sized (dihedrals a) -> kind_sized (impropers a) ->
  save d st a = Some f ->
  f_counts f = (length (f_atoms f), length (f_bonds f), length (f_angles f), length (f_dihedrals f), length (f_impropers f)).
Proof.
  intros [S1 [S2 [S3 S4]]] [B1 _] [A1 _] [D1 _] [I1 _] H. unfold save in H. unfold natoms in *.
  destruct (match a_cell a with None => Some None | Some c => _ end) as [b|]; [|discriminate]. injection H as <-.
  cbn [f_counts f_atoms f_bonds f_angles f_dihedrals f_impropers]. unfold save_terms.
  rewrite !map_length, !numbered_length, !combine_length. repeat f_equal; lia.
Qed.
