(* "every type id in use has its type-level data" (C09) and its preservation by every operation, together with WF,
   over histories of all supported operations: delete, pop, extend (default or explicit offsets), replicate, subset. *)
From Coq Require Import List Arith Bool Lia ZArith.
From Mofun Require Import Lib.NP Model.Atoms Proofs.DelProofs Proofs.ExtProofs Proofs.ReplProofs Proofs.WFProofs.
Import ListNotations.

(* a term kind either carries no coefficient table at all (unparameterised structure: nothing to resolve) or every type id in use
   indexes an entry of it *)
Definition kind_typed (k : kind) : Prop := k_coef k = [] \/ Forall (fun t => t < length (k_coef k)) (k_typ k).
(* element, mass and label tables have one entry per atom type; the pair table is absent or has one entry per atom type *)
Definition tables_ok (a : atoms) : Prop :=
  length (t_mass a) = length (t_el a) /\ length (t_lab a) = length (t_el a) /\ (t_pair a = [] \/ length (t_pair a) = length (t_el a)).
Definition Typed (a : atoms) : Prop :=
  tables_ok a /\ Forall (fun t => t < length (t_el a)) (a_typ a) /\
  kind_typed (bonds a) /\ kind_typed (angles a) /\ kind_typed (dihedrals a) /\ kind_typed (impropers a).

(* ---------- deletion *)
Lemma np_delete_Forall {A} (P : A -> Prop) (l : list A) ds : Forall P l -> Forall P (np_delete l ds).
Proof. apply np_delete_from_Forall. Qed.

Lemma delitem_kind_typed ds k : kind_typed k -> kind_typed (delitem_kind ds k).
Proof.
  intros H. unfold delitem_kind. destruct (k_tup k) as [|t0 ts]; [exact H|].
  destruct (delete_and_reindex ds (t0 :: ts)) as [tups dead]. unfold kind_typed. cbn [k_coef k_typ].
  destruct H as [H|H]; [left; exact H|right; apply np_delete_Forall; exact H].
Qed.

Theorem Typed_delitem a ds : Typed a -> Typed (delitem a ds).
Proof.
  intros [T [A [B [C [D E]]]]]. unfold Typed, tables_ok, delitem. cbn [t_mass t_el t_lab t_pair a_typ bonds angles dihedrals impropers].
  split; [exact T|]. split; [apply np_delete_Forall; exact A|].
  repeat split; apply delitem_kind_typed; assumption.
Qed.

(* ---------- extension with given offsets: the shifted ids of other must resolve in self's tables *)
Definition kind_resolves (off : nat) (k ko : kind) : Prop :=
  k_coef k = [] \/ Forall (fun t => off + t < length (k_coef k)) (k_typ ko).
Definition resolves_in (a o : atoms) (f : offsets) : Prop :=
  Forall (fun t => t + o_atom f < length (t_el a)) (a_typ o) /\
  kind_resolves (o_bond f) (bonds a) (bonds o) /\ kind_resolves (o_angle f) (angles a) (angles o) /\
  kind_resolves (o_dih f) (dihedrals a) (dihedrals o) /\ kind_resolves (o_imp f) (impropers a) (impropers o).
(* the identity map names atoms of other *)
Definition map_dom (o : atoms) (m : list (nat * nat)) : Prop := forall k i, In (k, i) m -> k < natoms o.

Lemma extend_kind_coef off phi k ko : k_coef (extend_kind off phi k ko) = k_coef k.
Proof.
  unfold extend_kind. destruct (merge_xf (k_xl k) (k_xf k) (k_xl ko) (k_xf ko)) as [[nl xs] xo].
  destruct (k_tup ko); reflexivity.
Qed.
Lemma extend_kind_typ off phi k ko :
  k_typ (extend_kind off phi k ko) = k_typ k \/
  exists dead, k_typ (extend_kind off phi k ko) = np_delete (k_typ k ++ map (Nat.add off) (k_typ ko)) dead.
Proof.
  unfold extend_kind. destruct (merge_xf (k_xl k) (k_xf k) (k_xl ko) (k_xf ko)) as [[nl xs] xo].
  destruct (k_tup ko); [left; reflexivity|right; eexists; reflexivity].
Qed.

Lemma extend_kind_typed off phi k ko : kind_typed k -> kind_resolves off k ko -> kind_typed (extend_kind off phi k ko).
Proof.
  intros Hk Hr. unfold kind_typed. rewrite extend_kind_coef.
  destruct Hk as [Hk|Hk]; [left; exact Hk|]. destruct Hr as [Hr|Hr]; [left; exact Hr|]. right.
  destruct (extend_kind_typ off phi k ko) as [E|[dead E]]; rewrite E; [exact Hk|].
  apply np_delete_Forall. apply Forall_app. split; [exact Hk|].
  apply Forall_forall. intros t Ht. apply in_map_iff in Ht. destruct Ht as [t' [<- Ht']].
  rewrite Forall_forall in Hr. apply Hr. exact Ht'.
Qed.

Lemma set_nth_Forall {A} (P : A -> Prop) x : P x -> forall (l : list A) i, Forall P l -> Forall P (set_nth i x l).
Proof.
  intros Hx l. induction l as [|y l IH]; intros i H; [destruct i; exact H|].
  inversion H as [|? ? Hy Hl]; subst. destruct i as [|i]; cbn; constructor; try assumption. apply IH. exact Hl.
Qed.
Lemma fold_set_Forall {A} (P : A -> Prop) (g : nat -> A) m : (forall kv, In kv m -> P (g (fst kv))) ->
  forall l, Forall P l -> Forall P (fold_set g m l).
Proof.
  induction m as [|kv m IH]; intros H l Hl; [exact Hl|]. cbn. fold (fold_set g m (set_nth (snd kv) (g (fst kv)) l)).
  apply IH; [intros kv' Hin; apply H; right; exact Hin|]. apply set_nth_Forall; [apply H; left; reflexivity|exact Hl].
Qed.

Theorem Typed_extend_with a o f m : Typed a -> atoms_sized o -> map_dom o m -> resolves_in a o f -> Typed (extend_with a o f m).
Proof.
  intros [T [A [B [C [D E]]]]] So Hd [Ra [Rb [Rg [Rd Ri]]]].
  destruct (extend_with_atoms a o f m) as [_ [_ [_ [Ht [_ [E1 [E2 [E3 [E4 [_ [Eb [Ea [Ed Ei]]]]]]]]]]]]]. cbv zeta in *.
  unfold Typed, tables_ok. rewrite E1, E2, E3, E4, Ht, Eb, Ea, Ed, Ei.
  split; [exact T|]. split.
  - assert (G : forall k, k < natoms o -> nth k (a_typ o) 0 + o_atom f < length (t_el a)).
    { intros k Hk. rewrite Forall_forall in Ra. apply Ra. apply nth_In. destruct So as [S1 _]. rewrite S1. exact Hk. }
    apply Forall_app. split.
    + apply (fold_set_Forall (fun t => t < length (t_el a))); [|exact A]. intros [k i] Hin. cbn [fst]. apply G. apply (Hd k i Hin).
    + apply Forall_forall. intros t Hin. apply in_map_iff in Hin. destruct Hin as [i [<- Hi]]. apply G.
      unfold to_add_of in Hi. apply filter_In in Hi. destruct Hi as [Hi _]. apply in_seq in Hi. lia.
  - repeat split; apply extend_kind_typed; assumption.
Qed.

(* ---------- extension with the default offsets: other must be typed itself and agree with self on being parameterised *)
Definition kind_strict (k : kind) : Prop := Forall (fun t => t < length (k_coef k)) (k_typ k).
Definition kinds_compat (k ko : kind) : Prop := (k_coef k = [] /\ k_coef ko = []) \/ (kind_strict k /\ kind_strict ko).
Definition pair_compat (a o : atoms) : Prop :=
  (t_pair a = [] /\ t_pair o = []) \/ (length (t_pair a) = length (t_el a) /\ length (t_pair o) = length (t_el o)).
Definition compat (a o : atoms) : Prop :=
  pair_compat a o /\ kinds_compat (bonds a) (bonds o) /\ kinds_compat (angles a) (angles o) /\
  kinds_compat (dihedrals a) (dihedrals o) /\ kinds_compat (impropers a) (impropers o).

Lemma num_types_strict k : kind_strict k -> num_types k = length (k_coef k).
Proof.
  intros H. unfold num_types. destruct (k_coef k) as [|c cs] eqn:E; [|reflexivity].
  destruct (k_typ k) as [|t ts] eqn:Et; [reflexivity|]. unfold kind_strict in H. rewrite E, Et in H. inversion H as [|? ? Hlt _]. cbn in Hlt. lia.
Qed.

Lemma with_coef_typed k ko : kinds_compat k ko ->
  kind_typed (with_coef k (k_coef k ++ k_coef ko)) /\ kind_resolves (num_types k) (with_coef k (k_coef k ++ k_coef ko)) ko.
Proof.
  intros [[H1 H2]|[H1 H2]]; unfold kind_typed, kind_resolves, with_coef; cbn [k_coef k_typ].
  - rewrite H1, H2. split; left; reflexivity.
  - rewrite app_length, (num_types_strict k H1). split; right.
    + eapply Forall_impl; [|exact H1]. cbn. intros t Ht. lia.
    + eapply Forall_impl; [|exact H2]. cbn. intros t Ht. lia.
Qed.

Theorem Typed_extend a o offs m : Typed a -> Typed o -> atoms_sized o -> map_dom o m ->
  match offs with Some f => resolves_in a o f | None => compat a o end -> Typed (extend a o offs m).
Proof.
  intros Ha Ho So Hd Hc. unfold extend. destruct offs as [f|]; [apply Typed_extend_with; assumption|].
  destruct (extend_types a o) as [a' f] eqn:E. unfold extend_types in E. injection E as <- <-.
  destruct Ha as [[T1 [T2 T3]] [A [B [C [D F]]]]]. destruct Ho as [[U1 [U2 U3]] [A' _]]. destruct Hc as [Hp [Kb [Ka [Kd Ki]]]].
  destruct (with_coef_typed _ _ Kb) as [Wb Rb]. destruct (with_coef_typed _ _ Ka) as [Wa Ra].
  destruct (with_coef_typed _ _ Kd) as [Wd Rd]. destruct (with_coef_typed _ _ Ki) as [Wi Ri].
  apply Typed_extend_with; [|exact So|exact Hd|].
  - unfold Typed, tables_ok. cbn [t_mass t_el t_lab t_pair a_typ bonds angles dihedrals impropers]. rewrite !app_length.
    split; [split; [lia|split; [lia|]]|].
    + destruct Hp as [[P1 P2]|[P1 P2]]; [left; rewrite P1, P2; reflexivity|right; lia].
    + split; [eapply Forall_impl; [|exact A]; cbn; intros t Ht; lia|]. repeat split; assumption.
  - unfold resolves_in. cbn [t_el bonds angles dihedrals impropers o_atom o_bond o_angle o_dih o_imp]. unfold num_atom_types.
    split; [rewrite app_length; eapply Forall_impl; [|exact A']; cbn; intros t Ht; lia|]. repeat split; assumption.
Qed.

(* ---------- subset *)
Theorem WF_getitem a idxs : WF (getitem a idxs).
Proof.
  unfold WF, atoms_sized, natoms, getitem, np_take. cbn [a_pos a_typ a_chg a_grp a_xf bonds angles dihedrals impropers]. rewrite !map_length.
  split; [repeat split|]. repeat split; try reflexivity; constructor.
Qed.
Theorem Typed_getitem a idxs : Typed a -> atoms_sized a -> Forall (fun i => i < natoms a) idxs -> Typed (getitem a idxs).
Proof.
  intros [T [A _]] [S1 _] Hi. unfold Typed, tables_ok, getitem. cbn [t_mass t_el t_lab t_pair a_typ bonds angles dihedrals impropers].
  split; [exact T|]. split.
  - unfold np_take. apply Forall_forall. intros t Ht. apply in_map_iff in Ht. destruct Ht as [i [<- Hin]].
    rewrite Forall_forall in A, Hi. apply A. apply nth_In. rewrite S1. apply Hi. exact Hin.
  - repeat split; left; reflexivity.
Qed.

(* ---------- replicate: every copy shares self's type ids (explicit zero offsets) *)
Lemma WF_translate a d : WF a -> WF (translate a d).
Proof.
  intros [[S1 [S2 [S3 S4]]] K]. unfold WF, atoms_sized, natoms, translate in *. cbn [a_pos a_typ a_chg a_grp a_xf bonds angles dihedrals impropers].
  rewrite map_length. split; [repeat split; assumption|exact K].
Qed.
Lemma WF_set_cell a c : WF a -> WF (set_cell a c).
Proof. intros H. exact H. Qed.
Lemma Typed_set_cell a c : Typed a -> Typed (set_cell a c).
Proof. intros H. exact H. Qed.

Definition same_tables (a b : atoms) : Prop :=
  t_el b = t_el a /\ k_coef (bonds b) = k_coef (bonds a) /\ k_coef (angles b) = k_coef (angles a) /\
  k_coef (dihedrals b) = k_coef (dihedrals a) /\ k_coef (impropers b) = k_coef (impropers a).

Lemma kind_typed_resolves_zero k k' : k_coef k' = k_coef k -> kind_typed k -> kind_resolves 0 k' k.
Proof. intros E [H|H]; [left; congruence|right; rewrite E; exact H]. Qed.

Theorem replicate_WF_Typed a r R : WF a -> Typed a -> replicate a r = Some R -> WF R /\ Typed R.
Proof.
  intros Hw Ht. unfold replicate. destruct (a_cell a) as [c|]; [|discriminate]. intros E. injection E as <-.
  assert (G : forall ms acc, WF acc -> Typed acc -> same_tables a acc ->
              let body := fold_left (fun acc m => let '(i, j, k) := m in
                 extend acc (translate a (lattice c (Z.of_nat i) (Z.of_nat j) (Z.of_nat k))) (Some zero_offsets) []) ms acc in
              WF body /\ Typed body).
  { induction ms as [|[[i j] k] ms IH]; intros acc Wa Ta Sa; cbn [fold_left]; [split; assumption|].
    apply IH.
    - apply WF_extend; [exact Wa|apply WF_translate; exact Hw|intros ? ? []].
    - apply (Typed_extend acc _ (Some zero_offsets) []); [exact Ta|exact Ht|destruct Hw as [S _]; destruct S as [S1 [S2 [S3 S4]]];
        unfold atoms_sized, natoms, translate; cbn [a_pos a_typ a_chg a_grp a_xf]; rewrite map_length; repeat split; assumption|intros ? ? []|].
      destruct Sa as [Q1 [Q2 [Q3 [Q4 Q5]]]]. destruct Ht as [_ [A [B [C [D F]]]]].
      unfold resolves_in, translate, zero_offsets. cbn [a_typ bonds angles dihedrals impropers o_atom o_bond o_angle o_dih o_imp].
      split; [rewrite Q1; eapply Forall_impl; [|exact A]; cbn; intros t Hlt; lia|].
      repeat split; apply kind_typed_resolves_zero; assumption.
    - destruct Sa as [Q1 [Q2 [Q3 [Q4 Q5]]]]. unfold extend.
      destruct (extend_with_atoms acc (translate a (lattice c (Z.of_nat i) (Z.of_nat j) (Z.of_nat k))) zero_offsets [])
        as [_ [_ [_ [_ [_ [E1 [_ [_ [_ [_ [Eb [Ea [Ed Ei]]]]]]]]]]]]]. cbv zeta in *.
      unfold same_tables. rewrite E1, Eb, Ea, Ed, Ei, !extend_kind_coef. repeat split; assumption. }
  destruct (G (ucmults r) a Hw Ht) as [W T]; [repeat split|]. split; [apply WF_set_cell; exact W|apply Typed_set_cell; exact T].
Qed.

(* ---------- histories over every supported operation *)
Inductive fop :=
| FDel (ds : list nat) | FPop (pos : Z) | FExtend (o : atoms) (offs : option offsets) (m : list (nat * nat))
| FReplicate (r : nat * nat * nat) | FSubset (idxs : list nat) | FCopy.
Definition fstep (a : atoms) (h : fop) : atoms :=
  match h with
  | FDel ds => delitem a ds
  | FPop pos => pop a pos
  | FExtend o offs m => extend a o offs m
  | FReplicate r => match replicate a r with Some R => R | None => a end      (* no cell: the call raises, nothing changes *)
  | FSubset idxs => getitem a idxs
  | FCopy => a
  end.
Definition fpre (a : atoms) (h : fop) : Prop :=
  match h with
  | FDel ds => NoDup ds
  | FExtend o offs m => WF o /\ Typed o /\ map_ok a m /\ map_dom o m /\ match offs with Some f => resolves_in a o f | None => compat a o end
  | FSubset idxs => Forall (fun i => i < natoms a) idxs
  | _ => True
  end.
Fixpoint fpres (a : atoms) (hs : list fop) : Prop :=
  match hs with [] => True | h :: t => fpre a h /\ fpres (fstep a h) t end.

Theorem fstep_inv a h : WF a -> Typed a -> fpre a h -> WF (fstep a h) /\ Typed (fstep a h).
Proof.
  intros W T P. destruct h as [ds|pos|o offs m|r|idxs|]; cbn [fstep fpre] in *.
  - split; [apply WF_delitem; assumption|apply Typed_delitem; assumption].
  - unfold pop. split; [apply WF_delitem; [exact W|constructor; [intros []|constructor]]|apply Typed_delitem; exact T].
  - destruct P as [Wo [To [Mo [Md Hc]]]]. split; [apply WF_extend; assumption|apply Typed_extend; try assumption]. destruct Wo as [S _]. exact S.
  - destruct (replicate a r) as [R|] eqn:E; [apply (replicate_WF_Typed a r R W T E)|split; assumption].
  - split; [apply WF_getitem|apply Typed_getitem; [exact T|destruct W as [S _]; exact S|exact P]].
  - split; assumption.
Qed.

Theorem full_history hs : forall a, WF a -> Typed a -> fpres a hs -> WF (fold_left fstep hs a) /\ Typed (fold_left fstep hs a).
Proof.
  induction hs as [|h hs IH]; intros a W T P; [split; assumption|]. destruct P as [P Ps]. cbn [fold_left].
  destruct (fstep_inv a h W T P) as [W' T']. apply IH; assumption.
Qed.

(* ---------- a concrete history through every operation that meets all preconditions (non-vacuity) *)
Ltac conc := repeat match goal with
  | |- _ /\ _ => split
  | |- True => exact I
  | |- _ \/ _ => first [ left; solve [conc] | right; solve [conc] ]
  | |- Forall _ _ => constructor
  | |- NoDup _ => constructor
  | |- ~ In _ _ => cbn; intros H; repeat (destruct H as [H|H]; [discriminate H|]); exact H
  | |- _ = _ => reflexivity
  | |- _ < _ => cbn; lia
  | |- _ <= _ => cbn; lia
  | |- forall k i : nat, _ -> _ => intros ? ? H; cbn in H; repeat (destruct H as [H|H]; [inversion H; subst; cbn; lia|]); destruct H
  end.
Definition ex_a := mk_atoms [(0,0,0)%Z;(1,0,0)%Z;(2,0,0)%Z] [0;0;1] [0%Z;0%Z;0%Z] [0%Z;0%Z;0%Z] [[];[];[]] [] [1%Z;2%Z] [3%Z;4%Z] [5%Z;6%Z] []
             (mk_kind [[0;1];[1;2]] [0;1] [[];[]] [] [7%Z;8%Z]) empty_kind empty_kind empty_kind (Some ((10,0,0),(0,10,0),(0,0,10))%Z).
Definition ex_o := mk_atoms [(5,0,0)%Z;(6,0,0)%Z] [0;0] [0%Z;0%Z] [0%Z;0%Z] [[];[]] [] [9%Z] [10%Z] [11%Z] []
             (mk_kind [[0;1]] [0] [[]] [] [12%Z]) empty_kind empty_kind empty_kind None.
Definition ex_history := [FDel [1]; FExtend ex_o None [(0, 1)]; FReplicate (1, 1, 2); FSubset [2; 0]; FPop (-1)%Z; FCopy].
Lemma ex_start : WF ex_a /\ Typed ex_a.
Proof. unfold WF, Typed, atoms_sized, kind_ok, kind_sized, tuples_in_range, tables_ok, kind_typed, ex_a, empty_kind, natoms. cbn. conc. Qed.
Lemma ex_pre : fpres ex_a ex_history.
Proof.
  unfold ex_history. cbn [fpres fpre]. split; [conc|]. split.
  - unfold WF, Typed, atoms_sized, kind_ok, kind_sized, tuples_in_range, tables_ok, kind_typed, map_ok, map_dom, compat, pair_compat, kinds_compat,
      kind_strict, ex_o, ex_a, empty_kind, natoms. cbn. conc.
  - split; [exact I|]. split; [|split; [exact I|split; [exact I|exact I]]]. vm_compute. conc.
Qed.
Lemma ex_result : let r := fold_left fstep ex_history ex_a in (natoms r, a_typ r, t_el r) = (1, [2], [1%Z; 2%Z; 9%Z]).
Proof. vm_compute. reflexivity. Qed.
