(* Correspondence for replace_pattern_in_structure (C04-C08).  Positions are in FINE units (2^30 per Angstrom). *)
From Coq Require Import ZArith List Bool Arith.
From Mofun Require Import Lib.NP Model.Atoms Model.Geom Model.Find Model.Replace Corr.CorrLib Corr.AtomsCorr.
Import ListNotations.
Open Scope Z_scope.

Inductive observed := ObsOk (a : atoms) (k : nat) | ObsOverlap | ObsError.

(* a selected match as the implementation reported it: indices, positions of the matched atoms (stored + lattice), quaternion *)
Record rmatch := mk_rmatch { r_idx : list nat; r_pos : list vec; r_q : quat; r_placed : list vec }.

Record case := mk_case {
  c_S : atoms; c_search : atoms; c_repl : atoms; c_all : bool; c_ignore : bool;
  c_sel : list rmatch; c_found : nat; c_frac : Z * Z;      (* matches found by the search; replace_fraction as a ratio *)
  c_tol : tolr; c_hints : option (nat * nat * nat);          (* atol in fine units, hint triple *)
  c_obs : observed
}.

Definition sel_of (c : case) : list smatch := map (fun r => mk_smatch (r_idx r) (r_placed r)) (c_sel c).
Definition model_out (c : case) : outcome := replace_from (c_S c) (c_search c) (c_repl c) (c_all c) (c_ignore c) (sel_of c).
Definition model_ok (c : case) : bool :=
  match model_out c, c_obs c with
  | Ok a k, ObsOk a' k' => atoms_eqb a a' && Nat.eqb k k'
  | Overlap, ObsOverlap => true
  | _, _ => false
  end.

(* ---- C05 on the implementation's placed coordinates: each inserted atom sits at R (repl_j - search_0) + pos_0 modulo the lattice
   (within eps), and inside the cell (fractional coordinates in [0,1] within eps) *)
Definition eps : Z := 2048.                 (* 2^-19 A  ~ 1.9e-6 A, in fine units *)
Definition m33 : list Z := [-3; -2; -1; 0; 1; 2; 3].
Definition near_mod_lattice (cell : mat) (N : Z) (target p : vec) : bool :=
  (* exists lattice L with | N p - (target + N L) | <= N eps per component *)
  existsb (fun i => existsb (fun j => existsb (fun k =>
     let '(t1, t2, t3) := vadd target (vscale N (lattice cell i j k)) in let '(p1, p2, p3) := vscale N p in
     (Z.abs (p1 - t1) <=? N * eps) && (Z.abs (p2 - t2) <=? N * eps) && (Z.abs (p3 - t3) <=? N * eps)) m33) m33) m33.
Definition abs1 (v : vec) : Z := let '(a, b, c) := v in Z.abs a + Z.abs b + Z.abs c.
Definition inside_eps (cell : mat) (p : vec) : bool :=
  let '(c0, c1, c2) := cell in
  let D := dot c0 (cross c1 c2) in
  let chk u := let s := if 0 <? D then dot p u else - dot p u in (- eps * abs1 u <=? s) && (s <=? Z.abs D + eps * abs1 u) in
  chk (cross c1 c2) && chk (cross c2 c0) && chk (cross c0 c1).
(* the matched atoms themselves are the search pattern under the returned rotation within the tolerance (C01's acceptance test, exact) *)
Definition matched_fit_ok (c : case) : bool :=
  let P := combine (map (fun _ => 0%nat) (a_pos (c_search c))) (a_pos (c_search c)) in
  let slack := {| tn := tn (c_tol c) * 1000000001; td := td (c_tol c) * 1000000000 |} in
  forallb (fun r => match accept (fun _ _ => r_q r) P slack 100000 (c_hints c) (combine (r_idx r) (r_pos r)) with Some _ => true | None => false end) (c_sel c).

Definition placement_ok (c : case) : bool :=
  matched_fit_ok c &&
  match a_cell (c_S c) with
  | None => true
  | Some cell =>
    let s0 := nth 0 (a_pos (c_search c)) (0, 0, 0) in
    forallb (fun r =>
      let q := r_q r in let N := qn2 q in let x0 := nth 0 (r_pos r) (0, 0, 0) in
      let kept := map fst (index_map (c_all c) (c_repl c) (c_search c) (mk_smatch (r_idx r) (r_placed r))) in
      negb (N =? 0) &&
      forallb (fun jrp => let '(j, (rj, p)) := jrp in
                 existsb (Nat.eqb j) kept ||      (* atoms common to both patterns are not inserted: nothing to place *)
                 (near_mod_lattice cell N (fst (place q x0 (vsub rj s0))) p && inside_eps cell p))
              (combine (seq 0 (length (r_placed r))) (combine (a_pos (c_repl c)) (r_placed r)))) (c_sel c)
  end.

(* ---- C04 / C07 bookkeeping on the implementation's output *)
Definition round_ok (c : case) : bool :=   (* number replaced = a nearest integer to f * found; f >= 1 replaces all *)
  let '(fn, fd) := c_frac c in let k := Z.of_nat (length (c_sel c)) in let M := Z.of_nat (c_found c) in
  if fd <=? fn then k =? M else (Z.abs (2 * (k * fd - fn * M)) <=? fd).
Definition counts_ok (c : case) : bool :=
  match c_obs c with
  | ObsOk a' k' =>
    Nat.eqb k' (length (c_sel c)) && round_ok c
  | _ => true
  end.

Definition spec_ok (c : case) : bool :=
  match c_obs c with ObsOk _ _ => placement_ok c && counts_ok c | _ => true end.
Definition case_ok (c : case) : bool := model_ok c && spec_ok c.
Definition failing := failing_by case_ok.
Definition spec_failing := failing_by spec_ok.
Definition explain_failing := explain_by case_ok (fun c => (model_ok c, placement_ok c, counts_ok c,
   match model_out c with Ok a k => Some (a, k) | Overlap => None end)).
