(* Correspondence for C14: run_case evaluates the model on the input the implementation ran on and
   compares with the implementation's observed output; spec_ok evaluates the property itself on the
   implementation's output. The mass table is a parameter: the generated cases file passes Tables.atomic_masses. *)
From Coq Require Import ZArith List String Bool.
From Mofun Require Import Model.Guess Corr.CorrLib.
Import ListNotations.
Open Scope Z_scope.

(* delta, masses, observed result of guess_elements_from_masses (None = raised), observed elements after load_lmpdat *)
Record case := { c_delta : Z; c_masses : list Z; c_guess : option (list string); c_load : list string }.

Section WithTable.
Variable tbl : list (string * Z).

Definition model_ok (c : case) : bool :=
  option_eqb (list_eqb String.eqb) (guess tbl (c_delta c) (c_masses c)) (c_guess c) &&
  list_eqb String.eqb (load_elements tbl (c_delta c) (c_masses c)) (c_load c).

(* the property, evaluated on the implementation's own output *)
Definition within (delta m : Z) (e : string) : bool :=
  existsb (fun c => String.eqb (fst c) e && (adiff m (snd c) <? delta) &&
                    forallb (fun c' => adiff m (snd c) <=? adiff m (snd c')) tbl) tbl.
Definition none_within (delta m : Z) : bool := forallb (fun c => delta <=? adiff m (snd c)) tbl.
Definition spec_ok (c : case) : bool :=
  let ms := c_masses c in
  if existsb (none_within (c_delta c)) ms
  then list_eqb String.eqb (c_load c) (map (fun i => string_of_nat (S i)) (seq 0 (List.length ms)))
       && match c_guess c with None => true | Some _ => false end
  else (Nat.eqb (List.length (c_load c)) (List.length ms)) &&
       forallb (fun me => within (c_delta c) (fst me) (snd me)) (combine ms (c_load c)) &&
       option_eqb (list_eqb String.eqb) (c_guess c) (Some (c_load c)).

Definition case_ok (c : case) : bool := model_ok c && spec_ok c.
Definition failing := failing_by case_ok.
Definition explain_failing := explain_by case_ok (fun c => (model_ok c, spec_ok c, guess tbl (c_delta c) (c_masses c), load_elements tbl (c_delta c) (c_masses c))).
Definition spec_failing := failing_by spec_ok.
End WithTable.
