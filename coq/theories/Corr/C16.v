From Coq Require Import ZArith List Bool Arith.
From Mofun Require Import Model.Atoms Model.Cml Corr.CorrLib Corr.AtomsCorr.
Import ListNotations.

Record case := mk_case { c_doc : cml; c_obs : option loaded }.
Definition loaded_eqb (a b : loaded) : bool :=
  list_eqb Z.eqb (l_elements a) (l_elements b) && list_eqb AtomsCorr.vec_eqb (l_positions a) (l_positions b) &&
  list_eqb (fun p q => Nat.eqb (fst p) (fst q) && Nat.eqb (snd p) (snd q)) (l_bonds a) (l_bonds b).
Definition case_ok (c : case) : bool := option_eqb loaded_eqb (load (c_doc c)) (c_obs c).
Definition failing := failing_by case_ok.
Definition explain_failing := explain_by case_ok (fun c => load (c_doc c)).
