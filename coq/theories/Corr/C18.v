(* Correspondence for C18, discrete part: bond-order guesses, angle potential style, torsion case / d / n / undefined / unsupported.
   (The magnitudes are compared by interval enclosures in generated goal files.) *)
From Coq Require Import Reals ZArith List String Bool.
From Mofun Require Import Model.UFF Corr.CorrLib.
Import ListNotations.
Open Scope Z_scope.

(* observed discrete outcome codes *)
Inductive obs :=
| OBond (a1 a2 : string) (rules : list rule) (bo_num bo_den : Z)                         (* guess_bond_order = num/den *)
| OAngle (a2 : string) (style : Z) (b n : Z)                                             (* style 0 = cosine/periodic, 1 = fourier *)
| OTors (a1 a2 a3 a4 : string) (code : Z) (d n : Z).                                     (* code 0 = harmonic, 1 = None, 2 = exception *)

Section WithTable.
Variable T : list (string * list Z).
Variable main_group : list string.

Definition border_eqb (b : border) (n d : Z) : bool :=
  match b with BO1 => (n =? d) | BO15 => (2 * n =? 3 * d) | BO2 => (n =? 2 * d) | BOuser p q => (n * q =? p * d) end.
Definition ok (o : obs) : bool :=
  match o with
  | OBond a1 a2 rules n d => border_eqb (guess_bond_order a1 a2 rules) n d
  | OAngle a2 st b n =>
    match angle_style T a2 with
    | CosPeriodic b' n' => (st =? 0) && (b =? b') && (n =? n')
    | Fourier => (st =? 1)
    | AngleUnsupported => false
    end
  | OTors a1 a2 a3 a4 code d n =>
    match tors_case main_group a1 a2 a3 a4 with
    | TorsHarmonic _ d' n' => (code =? 0) && (d =? d') && (n =? n')
    | TorsNone => (code =? 1)
    | TorsUnsupported => (code =? 2)
    end
  end.
Definition failing := failing_by ok.
Definition explain_failing := explain_by ok (fun o => match o with
  | OBond a1 a2 r _ _ => (a1, a2, a1, a2) | OAngle a2 _ _ _ => (a2, a2, a2, a2) | OTors a1 a2 a3 a4 _ _ _ => (a1, a2, a3, a4) end).
End WithTable.
