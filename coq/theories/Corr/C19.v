(* Correspondence for C19 *)
From Coq Require Import List Arith Bool.
From Mofun Require Import Model.Terms Corr.CorrLib.
Import ListNotations.

Fixpoint ins (x : list nat) (l : list (list nat)) := match l with [] => [x] | y :: t => if lex_leb x y then x :: l else y :: ins x t end.
Definition sortk (l : list (list nat)) := fold_right ins [] l.
Definition canon (l : list (list nat)) : list (list nat) := sortk (map typekey l).
Definition lleqb := CorrLib.list_eqb (CorrLib.list_eqb Nat.eqb).

Record case := mk_case {
  c_bonds : list (nat * nat);           (* as passed to calc_angles / calc_dihedrals (any order, direction, duplication) *)
  c_angles : list (list nat);           (* observed calc_angles *)
  c_dihedrals : list (list nat);        (* observed calc_dihedrals *)
  c_uff : list nat;                     (* rank of the UFF type of every atom *)
  c_exclude : option (list nat);
  c_bond_terms : list (list nat);       (* the structure's bond list handed to assign_bond_types *)
  c_bond_obs : list (list nat) * list nat * list (list nat);      (* observed: bonds kept, their types, unique keys in type order *)
  c_angle_obs : list (list nat) * list nat * list (list nat);     (* angle terms handed over are c_angles *)
  c_dead : list (list nat);             (* dihedral keys for which no torsion is defined (dihedral_params is None) *)
  c_dih_obs : list (list nat) * list nat * list (list nat)
}.

Definition enum_ok (c : case) : bool :=
  lleqb (canon (calc_angles (c_bonds c))) (canon (c_angles c)) && lleqb (canon (calc_dihedrals (c_bonds c))) (canon (c_dihedrals c)).

Definition typed (uff : list nat) (arity : nat) (terms : list (list nat)) (exclude : option (list nat)) : list (list nat) * list nat * list (list nat) :=
  let kept := apply_exclude arity terms exclude in
  let '(types, u) := assign (bond_keys uff kept) in (kept, types, u).
Definition obs_eqb (a b : list (list nat) * list nat * list (list nat)) : bool :=
  lleqb (fst (fst a)) (fst (fst b)) && CorrLib.list_eqb Nat.eqb (snd (fst a)) (snd (fst b)) && lleqb (snd a) (snd b).

Definition typed_dihedrals (uff : list nat) (all : list (list nat)) (exclude : option (list nat)) (dead : list (list nat)) :=
  let kept := apply_exclude 4 all exclude in
  let keys := dihedral_keys uff all kept in
  let alive k := negb (existsb (Terms.list_eqb k) dead) in
  let kept' := map fst (filter (fun tk => alive (snd tk)) (combine kept keys)) in
  let keys' := filter alive keys in
  let u := filter alive (uniq_keys keys) in
  (kept', map (fun k => index_of_key k u) keys', u).

Definition typing_ok (c : case) : bool :=
  obs_eqb (typed (c_uff c) 2 (c_bond_terms c) (c_exclude c)) (c_bond_obs c) &&
  obs_eqb (typed (c_uff c) 3 (c_angles c) (c_exclude c)) (c_angle_obs c) &&
  obs_eqb (typed_dihedrals (c_uff c) (c_dihedrals c) (c_exclude c) (c_dead c)) (c_dih_obs c).

Definition case_ok (c : case) : bool := enum_ok c && typing_ok c.
Definition failing := failing_by case_ok.
Definition explain_failing := explain_by case_ok (fun c => (enum_ok c, typing_ok c, canon (calc_angles (c_bonds c)), canon (calc_dihedrals (c_bonds c)),
   typed (c_uff c) 2 (c_bond_terms c) (c_exclude c), typed_dihedrals (c_uff c) (c_dihedrals c) (c_exclude c) (c_dead c))).
