(* Correspondence for the pattern search (C01, C02, C03). *)
From Coq Require Import ZArith List Bool Arith.
From Mofun Require Import Model.Atoms Model.Geom Model.Find Corr.CorrLib.
Import ListNotations.
Open Scope Z_scope.

Fixpoint lle (a b : list nat) : bool :=
  match a, b with [], _ => true | _, [] => false | x :: a', y :: b' => if Nat.ltb x y then true else if Nat.ltb y x then false else lle a' b' end.
Fixpoint ins (x : list nat) (l : list (list nat)) := match l with [] => [x] | y :: t => if lle x y then x :: l else y :: ins x t end.
Definition sortk (l : list (list nat)) := fold_right ins [] l.
Definition keys_of (outs : list (list nat * list vec * quat)) : list (list nat) := sortk (map (fun r => sort_nat (fst (fst r))) outs).

Definition vec_eqb (a b : vec) : bool := let '(a1, a2, a3) := a in let '(b1, b2, b3) := b in (a1 =? b1) && (a2 =? b2) && (a3 =? b3).
Fixpoint nodupb (l : list nat) : bool := match l with [] => true | x :: t => negb (existsb (Nat.eqb x) t) && nodupb t end.

Record case := mk_case {
  c_S : list atom; c_cell : mat; c_P : list atom; c_tol : tolr; c_hints : option (nat * nat * nat);
  c_outs : list (list nat * list vec * quat);     (* what the implementation returned: indices, positions, quaternion (exact dyadic, common factor cleared) *)
  c_expect : option (list (list nat))             (* planted ground truth (sorted index groups), when the generator knows it *)
}.

Definition rtol_den : Z := 100000.
(* C01 on one reported match, in exact arithmetic (tolerance widened by 1e-9 relative for the code's own rounding) *)
Definition out_ok (c : case) (o : list nat * list vec * quat) : bool :=
  let '(idx, pos, q) := o in
  let S := c_S c in let P := c_P c in
  let slack := {| tn := tn (c_tol c) * 1000000001; td := td (c_tol c) * 1000000000 |} in
  Nat.eqb (length idx) (length P) && Nat.eqb (length pos) (length P) && nodupb idx &&
  forallb (fun ip => let '(i, pk) := ip in Nat.ltb i (length S) && Nat.eqb (fst (nth i S (0%nat, (0,0,0)))) (fst pk)) (combine idx P) &&
  forallb (fun ix => let '(i, x) := ix in existsb (fun o => vec_eqb x (vadd (snd (nth i S (0%nat, (0,0,0)))) o)) (offsets27 (c_cell c))) (combine idx pos) &&
  match accept (fun _ _ => q) P slack rtol_den (c_hints c) (combine idx pos) with Some _ => true | None => false end.

Fixpoint keys_nodupb (l : list (list nat)) : bool :=
  match l with [] => true | x :: t => negb (existsb (list_eqb Nat.eqb x) t) && keys_nodupb t end.

(* the property on the implementation's own output: every reported match is a genuine rigid image (C01), no atom group twice (C02),
   and -- when the generator knows the ground truth -- exactly the planted occurrences are reported (C02) *)
Definition spec_ok (c : case) : bool :=
  forallb (out_ok c) (c_outs c) && keys_nodupb (keys_of (c_outs c)) &&
  match c_expect c with Some e => list_eqb (list_eqb Nat.eqb) (keys_of (c_outs c)) (sortk e) | None => true end.

Definition model_keys (c : case) : list (list nat) :=
  let P := c_P c in let h := c_hints c in
  keys_of (find (rot_model h (a1 P h) (a2 P h)) (fun _ => 0%nat) (c_S c) (c_cell c) P (c_tol c) rtol_den h).
Definition model_ok (c : case) : bool := list_eqb (list_eqb Nat.eqb) (model_keys c) (keys_of (c_outs c)).

Definition case_ok (c : case) : bool := spec_ok c && model_ok c.
Definition failing := failing_by case_ok.
Definition spec_failing := failing_by spec_ok.
Definition explain_failing := explain_by case_ok (fun c => (spec_ok c, model_ok c, model_keys c, keys_of (c_outs c))).
