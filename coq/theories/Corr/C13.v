(* Correspondence for C13 *)
From Coq Require Import ZArith List Bool Arith.
From Mofun Require Import Model.Atoms Model.Lmpdat Corr.CorrLib Corr.AtomsCorr.
Import ListNotations.
Open Scope Z_scope.

Definition v_eqb := AtomsCorr.vec_eqb.
Definition aline_eqb (a b : aline) : bool :=
  Nat.eqb (al_id a) (al_id b) && (al_grp a =? al_grp b) && Nat.eqb (al_typ a) (al_typ b) && (al_chg a =? al_chg b) && v_eqb (al_pos a) (al_pos b).
Definition tline_eqb (a b : tline) : bool :=
  Nat.eqb (tl_id a) (tl_id b) && Nat.eqb (tl_typ a) (tl_typ b) && list_eqb Nat.eqb (tl_atoms a) (tl_atoms b).
Definition nz_eqb (a b : nat * Z) : bool := Nat.eqb (fst a) (fst b) && (snd a =? snd b).
Definition mass_eqb (a b : nat * Z * Z) : bool := Nat.eqb (fst (fst a)) (fst (fst b)) && (snd (fst a) =? snd (fst b)) && (snd a =? snd b).
Definition counts_eqb (a b : nat * nat * nat * nat * nat) : bool :=
  let '(a1, a2, a3, a4, a5) := a in let '(b1, b2, b3, b4, b5) := b in Nat.eqb a1 b1 && Nat.eqb a2 b2 && Nat.eqb a3 b3 && Nat.eqb a4 b4 && Nat.eqb a5 b5.
Definition box_eqb (a b : option (vec * option vec)) : bool :=
  option_eqb (fun x y => v_eqb (fst x) (fst y) && option_eqb v_eqb (snd x) (snd y)) a b.
Definition lfile_eqb (a b : lfile) : bool :=
  counts_eqb (f_counts a) (f_counts b) && list_eqb (option_eqb Nat.eqb) (f_ntypes a) (f_ntypes b) && box_eqb (f_box a) (f_box b) &&
  list_eqb mass_eqb (f_masses a) (f_masses b) && list_eqb nz_eqb (f_pair a) (f_pair b) && list_eqb nz_eqb (f_bondc a) (f_bondc b) &&
  list_eqb nz_eqb (f_anglec a) (f_anglec b) && list_eqb nz_eqb (f_dihc a) (f_dihc b) && list_eqb nz_eqb (f_impc a) (f_impc b) &&
  list_eqb aline_eqb (f_atoms a) (f_atoms b) && list_eqb tline_eqb (f_bonds a) (f_bonds b) && list_eqb tline_eqb (f_angles a) (f_angles b) &&
  list_eqb tline_eqb (f_dihedrals a) (f_dihedrals b) && list_eqb tline_eqb (f_impropers a) (f_impropers b).

Record case := mk_case {
  c_d : Z; c_style : style; c_atoms : atoms;        (* the structure handed to save_lmpdat, numbers over the denominator c_d *)
  c_written : option lfile;                          (* what the implementation wrote, tokenised by the harness's independent reader; None = it refused *)
  c_els : list Z;                                    (* elements the implementation assigned on reading *)
  c_read : option atoms                              (* what the implementation read back from that text (numbers in 1e-6) *)
}.

Definition write_ok (c : case) : bool := option_eqb lfile_eqb (save (c_d c) (c_style c) (c_atoms c)) (c_written c).
Definition read_ok (c : case) : bool :=
  match c_written c, c_read c with
  | Some f, Some a => atoms_eqb (load (c_style c) (c_els c) f) a
  | None, None => true
  | _, _ => false
  end.
(* the statement on the implementation's own behaviour: what was read back is the structure, normalised to the printed precision *)
Definition spec_ok (c : case) : bool :=
  match c_written c, c_read c with
  | Some f, Some a =>
    atoms_eqb (normalise (c_d c) (c_style c) (c_els c) (c_atoms c)) a &&
    counts_eqb (f_counts f) (length (f_atoms f), length (f_bonds f), length (f_angles f), length (f_dihedrals f), length (f_impropers f))
  | _, _ => true
  end.
Definition case_ok (c : case) : bool := write_ok c && read_ok c && spec_ok c.
Definition failing := failing_by case_ok.
Definition spec_failing := failing_by spec_ok.
Definition explain_failing := explain_by case_ok (fun c => (write_ok c, read_ok c, spec_ok c, save (c_d c) (c_style c) (c_atoms c))).
