From Coq Require Import List Arith Bool String.
From Mofun Require Import Model.Cif Corr.CorrLib.
Import ListNotations.

(* elements in atom order; labels the implementation wrote; term label rows it wrote for (bonds, angles, torsions); terms it read back;
   the structure's own terms; the space-group tag of a file and whether the reader accepted it *)
Record case := mk_case {
  c_els : list string; c_labels : list string;
  c_terms : list (list nat);            (* bonds ++ angles ++ dihedrals ++ impropers of the written structure, as index tuples *)
  c_rows : list (list string);          (* the corresponding label rows found in the written file *)
  c_back : option (list (list nat));    (* the tuples the implementation read back from that file *)
  c_tag : option string; c_accepted : bool
}.
Definition lsb := list_eqb (list_eqb String.eqb).
Definition lnb := list_eqb (list_eqb Nat.eqb).
Definition case_ok (c : case) : bool :=
  list_eqb String.eqb (labels (c_els c)) (c_labels c) &&
  lsb (write_terms (c_labels c) (c_terms c)) (c_rows c) &&
  option_eqb lnb (read_terms (c_labels c) (c_rows c)) (c_back c) &&
  Bool.eqb (accepts_space_group (c_tag c)) (c_accepted c).
Definition failing := failing_by case_ok.
Definition explain_failing := explain_by case_ok (fun c => (labels (c_els c), read_terms (c_labels c) (c_rows c))).
