(* helpers shared by the correspondence modules: decidable equalities and the `failing` combinator *)
From Coq Require Import ZArith List String Bool.
Import ListNotations.

Fixpoint list_eqb {A} (eqb : A -> A -> bool) (a b : list A) : bool :=
  match a, b with
  | [], [] => true
  | x :: a', y :: b' => eqb x y && list_eqb eqb a' b'
  | _, _ => false
  end.
Definition option_eqb {A} (eqb : A -> A -> bool) (a b : option A) : bool :=
  match a, b with Some x, Some y => eqb x y | None, None => true | _, _ => false end.
Definition pair_eqb {A B} (ea : A -> A -> bool) (eb : B -> B -> bool) (a b : A * B) : bool :=
  ea (fst a) (fst b) && eb (snd a) (snd b).

Definition failing_by {C} (ok : C -> bool) (cases : list C) : list nat :=
  flat_map (fun ic => if ok (snd ic) then [] else [fst ic]) (combine (seq 0 (List.length cases)) cases).
Definition explain_by {C E} (ok : C -> bool) (ex : C -> E) (cases : list C) : list (nat * E) :=
  firstn 2 (flat_map (fun ic => if ok (snd ic) then [] else [(fst ic, ex (snd ic))]) (combine (seq 0 (List.length cases)) cases)).
