(* the plan, encoded as lists of integers so that the harness can read it from coqc's output *)
From Coq Require Import ZArith List Bool.
From Mofun Require Import Model.Cli.
Import ListNotations.
Open Scope Z_scope.
Definition oz (o : option Z) : Z := match o with Some x => x | None => -1 end.
Definition encode (c : call) : list Z :=
  match c with
  | Load p => [0; p] | SetCell p => [1; p] | SetPositions p => [2; p] | SetCharges f => [3; f]
  | Replicate (a, b, c) => [4; a; b; c] | Mic c => [5; c] | AssignPP => [6] | Find p a => [7; p; a]
  | Replace p r a x y z f => [8; p; r; a; oz x; oz y; oz z; f] | MsgNoFind => [9] | FrameworkElement e => [10; e] | Save p => [11; p]
  end.
Definition plan_codes (o : options) : list (list Z) := map encode (plan o).
