(* Correspondence for the Atoms model: operation histories are run on the model and every
   intermediate state is compared with the state dumped from the implementation. *)
From Coq Require Import ZArith List Bool Arith.
From Mofun Require Import Lib.NP Model.Atoms Corr.CorrLib.
Import ListNotations.

Definition vec_eqb (a b : vec) : bool :=
  let '(a1, a2, a3) := a in let '(b1, b2, b3) := b in (a1 =? b1)%Z && (a2 =? b2)%Z && (a3 =? b3)%Z.
Definition mat_eqb (a b : mat) : bool :=
  let '(a1, a2, a3) := a in let '(b1, b2, b3) := b in vec_eqb a1 b1 && vec_eqb a2 b2 && vec_eqb a3 b3.
Definition kind_eqb (a b : kind) : bool :=
  list_eqb (list_eqb Nat.eqb) (k_tup a) (k_tup b) && list_eqb Nat.eqb (k_typ a) (k_typ b) &&
  list_eqb (list_eqb Z.eqb) (k_xf a) (k_xf b) && list_eqb Z.eqb (k_xl a) (k_xl b) && list_eqb Z.eqb (k_coef a) (k_coef b).
Definition atoms_eqb (a b : atoms) : bool :=
  list_eqb vec_eqb (a_pos a) (a_pos b) && list_eqb Nat.eqb (a_typ a) (a_typ b) &&
  list_eqb Z.eqb (a_chg a) (a_chg b) && list_eqb Z.eqb (a_grp a) (a_grp b) &&
  list_eqb (list_eqb Z.eqb) (a_xf a) (a_xf b) && list_eqb Z.eqb (a_xl a) (a_xl b) &&
  list_eqb Z.eqb (t_el a) (t_el b) && list_eqb Z.eqb (t_mass a) (t_mass b) &&
  list_eqb Z.eqb (t_lab a) (t_lab b) && list_eqb Z.eqb (t_pair a) (t_pair b) &&
  kind_eqb (bonds a) (bonds b) && kind_eqb (angles a) (angles b) &&
  kind_eqb (dihedrals a) (dihedrals b) && kind_eqb (impropers a) (impropers b) &&
  option_eqb mat_eqb (a_cell a) (a_cell b).

Inductive op :=
| OExtend (o : atoms) (m : list (nat * nat))          (* extend(other, structure_index_map=m) *)
| OExtendOffs (o : atoms) (f : offsets) (m : list (nat * nat))   (* extend(other, offsets=f, structure_index_map=m) *)
| OExtendTwice (o : atoms)                             (* offs = extend_types(o); extend(o, offs); extend(o, offs) *)
| ODel (ds : list nat)
| OPop (p : Z)
| OReplicate (r : nat * nat * nat)
| OSubset (idxs : list nat)
| OCopy.

Definition step (a : atoms) (o : op) : option atoms :=
  match o with
  | OExtend x m => Some (extend a x None m)
  | OExtendOffs x f m => Some (extend a x (Some f) m)
  | OExtendTwice x => let '(a1, f) := extend_types a x in Some (extend (extend a1 x (Some f) []) x (Some f) [])
  | ODel ds => Some (delitem a ds)
  | OPop p => Some (pop a p)
  | OReplicate r => replicate a r
  | OSubset idxs => Some (getitem a idxs)
  | OCopy => Some a
  end.

(* states after each operation *)
Fixpoint run_ops (a : atoms) (ops : list op) : list (option atoms) :=
  match ops with
  | [] => []
  | o :: t => match step a o with
              | Some a' => Some a' :: run_ops a' t
              | None => [None]
              end
  end.

Record case := mk_case { c_init : atoms; c_ops : list op; c_obs : list (option atoms) }.
Definition case_ok (c : case) : bool := list_eqb (option_eqb atoms_eqb) (run_ops (c_init c) (c_ops c)) (c_obs c).
Definition failing := failing_by case_ok.
(* index of the first differing step, and the model's state there *)
Fixpoint first_diff (n : nat) (ms os : list (option atoms)) : option (nat * option atoms) :=
  match ms, os with
  | [], [] => None
  | m :: ms', o :: os' => if option_eqb atoms_eqb m o then first_diff (S n) ms' os' else Some (n, m)
  | m :: _, [] => Some (n, m)
  | [], _ :: _ => Some (n, None)
  end.
Definition explain_failing := explain_by case_ok (fun c => first_diff 0 (run_ops (c_init c) (c_ops c)) (c_obs c)).
