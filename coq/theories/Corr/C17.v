(* Correspondence for C17 *)
From Coq Require Import ZArith List Bool String Arith.
From Mofun Require Import Model.Atoms Model.Geom Model.Bonds Corr.CorrLib.
Import ListNotations.
Open Scope Z_scope.

Record case := mk_case { c_cell : option mat; c_atoms : list (string * vec); c_obs : option (list (nat * nat)) }.

Section WithTables.
Variable radii : list (string * Z).
Variable non_metals : list string.
Definition U : Z := 4096.

Definition pair_eqb' (a b : nat * nat) : bool := Nat.eqb (fst a) (fst b) && Nat.eqb (snd a) (snd b).
Definition model_ok (c : case) : bool := option_eqb (list_eqb pair_eqb') (detect radii non_metals U (c_cell c) (c_atoms c)) (c_obs c).

(* the statement itself: smallest distance over periodic images, evaluated over the 125 translates i,j,k in -2..2 *)
Definition m22 : list Z := [-2; -1; 0; 1; 2].
Definition offsets125 (cell : option mat) : list vec :=
  match cell with None => [(0, 0, 0)] | Some c => flat_map (fun i => flat_map (fun j => map (fun k => lattice c i j k) m22) m22) m22 end.
Definition spec_bonded (cell : option mat) (a b : string * vec) : bool :=
  match cutoff100 radii non_metals (fst a) (fst b) with
  | None => false
  | Some c => existsb (fun o => within U (d2 (vadd (snd a) o) (snd b)) c) (offsets125 cell)
  end.
Definition spec_pairs (cell : option mat) (atoms : list (string * vec)) : list (nat * nat) :=
  let ia := combine (seq 0 (List.length atoms)) atoms in
  flat_map (fun p => flat_map (fun q => if Nat.ltb (fst p) (fst q) && spec_bonded cell (snd p) (snd q) then [(fst p, fst q)] else []) ia) ia.
Definition spec_ok (c : case) : bool := option_eqb (list_eqb pair_eqb') (Some (spec_pairs (c_cell c) (c_atoms c))) (c_obs c).

Definition case_ok (c : case) : bool := model_ok c && spec_ok c.
Definition failing := failing_by case_ok.
Definition spec_failing := failing_by spec_ok.
Definition explain_failing := explain_by case_ok (fun c => (model_ok c, spec_ok c, detect radii non_metals U (c_cell c) (c_atoms c), spec_pairs (c_cell c) (c_atoms c))).
End WithTables.
