From Coq Require Import List Arith Bool Lia.
Import ListNotations.

(* np.delete(l, idxs, axis=0): drop the rows whose index occurs in idxs *)
Definition memb (x:nat) (l:list nat) : bool := existsb (Nat.eqb x) l.
Fixpoint np_delete_from {A} (i:nat) (l:list A) (idxs:list nat) : list A :=
  match l with [] => [] | x::t => if memb i idxs then np_delete_from (S i) t idxs else x :: np_delete_from (S i) t idxs end.
Definition np_delete {A} (l:list A) (idxs:list nat) := np_delete_from 0 l idxs.

(* indices of rows satisfying p *)
Fixpoint find_idx_from {A} (p:A->bool) (i:nat) (l:list A) : list nat :=
  match l with [] => [] | x::t => if p x then i :: find_idx_from p (S i) t else find_idx_from p (S i) t end.
Definition find_idx {A} (p:A->bool) (l:list A) := find_idx_from p 0 l.

Lemma memb_In x l : memb x l = true <-> In x l.
Proof. unfold memb. rewrite existsb_exists. split; [intros [y [H E]]; apply Nat.eqb_eq in E; subst; auto | intros H; exists x; split; auto; apply Nat.eqb_refl]. Qed.

Lemma find_idx_from_spec {A} (p:A->bool) l : forall i j, In j (find_idx_from p i l) <-> exists k x, j = i + k /\ nth_error l k = Some x /\ p x = true.
Proof.
  induction l as [|a l IH]; intros i j; simpl.
  - split; [intros []|intros [k [x [_ [H _]]]]; destruct k; discriminate].
  - destruct (p a) eqn:E; simpl; rewrite ?IH.
    + split.
      * intros [H|[k [x [Hj [Hn Hp]]]]]; [exists 0, a; subst; simpl; repeat split; auto; lia | exists (S k), x; simpl; repeat split; auto; lia].
      * intros [k [x [Hj [Hn Hp]]]]. destruct k; simpl in *; [left; lia | right; exists k, x; repeat split; auto; lia].
    + split.
      * intros [k [x [Hj [Hn Hp]]]]. exists (S k), x; simpl; repeat split; auto; lia.
      * intros [k [x [Hj [Hn Hp]]]]. destruct k; simpl in *; [inversion Hn; subst; congruence | exists k, x; repeat split; auto; lia].
Qed.

(* deleting exactly the rows that satisfy p = filtering by negb p *)
Lemma np_delete_find_idx_from {A} (p:A->bool) l : forall i (extra : list nat),
  (forall j, In j extra -> j < i) ->
  np_delete_from i l (extra ++ find_idx_from p i l) = filter (fun x => negb (p x)) l.
Proof.
  induction l as [|a l IH]; intros i extra Hex; simpl; auto.
  destruct (p a) eqn:E; simpl.
  - assert (M: memb i (extra ++ i :: find_idx_from p (S i) l) = true) by (apply memb_In, in_or_app; right; left; auto).
    rewrite M. replace (extra ++ i :: find_idx_from p (S i) l) with ((extra ++ [i]) ++ find_idx_from p (S i) l) by (rewrite <- app_assoc; reflexivity).
    apply IH. intros j Hj. apply in_app_or in Hj. destruct Hj as [Hj|[Hj|[]]]; [specialize (Hex _ Hj); lia | lia].
  - assert (M: memb i (extra ++ find_idx_from p (S i) l) = false).
    { destruct (memb i _) eqn:M; auto. apply memb_In in M. apply in_app_or in M. destruct M as [M|M].
      - specialize (Hex _ M). lia.
      - apply find_idx_from_spec in M. destruct M as [k [x [Hj _]]]. lia. }
    rewrite M. f_equal. apply IH. intros j Hj. specialize (Hex _ Hj). lia.
Qed.
Lemma np_delete_find_idx {A} (p:A->bool) (l:list A) : np_delete l (find_idx p l) = filter (fun x => negb (p x)) l.
Proof. apply (np_delete_find_idx_from p l 0 []). intros j []. Qed.

Lemma combine_nil_r {A B} (l:list A) : combine l (@nil B) = [].
Proof. destruct l; auto. Qed.
Lemma np_delete_from_combine {A B} (l1:list A) (l2:list B) idxs : forall i,
  np_delete_from i (combine l1 l2) idxs = combine (np_delete_from i l1 idxs) (np_delete_from i l2 idxs).
Proof. revert l2; induction l1 as [|a l1 IH]; intros [|b l2] i; simpl; auto.
  - rewrite combine_nil_r. reflexivity.
  - destruct (memb i idxs); simpl; rewrite IH; auto.
Qed.
