(* C01 -- Every reported match is a genuine rigid-motion image of the pattern.
   Model: Model/Find.v (find), parameterised by the quaternion construction `rot` and the random choice `pick`:
   the theorem holds for EVERY rot and pick, so nothing is assumed about helpers.quaternion_from_two_vectors*, arccos,
   numpy's RNG or scipy's Rotation. *)
From Coq Require Import ZArith List Bool Arith.
From Mofun Require Import Model.Atoms Model.Geom Model.Find Proofs.FindProofs Proofs.FindDistinct.
Import ListNotations.
Open Scope Z_scope.

(* every output (idx, pos, q): one index and one position per pattern atom; every index is a stored atom with the pattern's
   element; every position is that atom's stored position plus one of the 27 lattice offsets; q is non-zero and, with
   M = rotapply q (the rotation matrix times N = |q|^2) and a1 the anchor atom, for every pattern atom k and component c:
     | (M (P_k - P_a1))_c + N (pos_a1 - pos_k)_c | <= N * (atol + 1e-5 * |target_c|)        [np.allclose semantics] *)
Theorem C01_sound : forall rot pick S cell P tol rtol hints idx pos q,
  In (idx, pos, q) (find rot pick S cell P tol rtol hints) ->
  length idx = length P /\ length pos = length P /\
  Forall2 (fun i pk => (i < length S)%nat /\ fst (nth i S dflt_atom) = fst pk) idx P /\
  Forall2 (fun i x => exists o, In o (offsets27 cell) /\ x = vadd (snd (nth i S dflt_atom)) o) idx pos /\
  qn2 q <> 0 /\
  Forall (fun px => atom_close q tol rtol (nth (a1 P hints) pos (0,0,0)) (fst px) (snd px)) (combine (Prel P hints) pos).
Proof. exact find_sound. Qed.
Print Assumptions C01_sound.

(* M/N is a proper rotation for every non-zero quaternion: it preserves dot products (orthogonal) and cross products
   (orientation), so a mirror image can only be reported if it is ALSO a proper rigid image within the tolerance *)
Theorem C01_rotation_orthogonal : forall q p r, dot (rotapply q p) (rotapply q r) = qn2 q * qn2 q * dot p r.
Proof. exact rot_orth. Qed.
Print Assumptions C01_rotation_orthogonal.
Theorem C01_rotation_proper : forall q p r, cross (rotapply q p) (rotapply q r) = vscale (qn2 q) (rotapply q (cross p r)).
Proof. exact rot_proper. Qed.
Print Assumptions C01_rotation_proper.

(* "distinct atoms": on the property's domain no match lists an atom twice.  The domain, as a computable test on (cell, pattern, atol,
   R): R bounds the pattern diameter (every pair distance <= R); pattern atoms are pairwise farther apart than atol; every non-zero
   lattice vector with coefficients in -2..2 is longer than R + atol (implied by "every perpendicular cell width exceeds the pattern
   diameter plus twice the tolerance").  Outside it the statement is false of the code: a pattern as long as the cell is matched
   by an atom and its own image. *)
Theorem C01_distinct : forall S cell P tol R rot pick rtol hints idx pos q, domain_b cell P tol R = true ->
  In (idx, pos, q) (find rot pick S cell P tol rtol hints) -> NoDup idx.
Proof. exact find_distinct_b. Qed.
Print Assumptions C01_distinct.
Example C01_distinct_domain_nonvacuous :
  domain_b ((40960, 0, 0), (8192, 40960, 0), (-4096, 6144, 40960)) [(6%nat, (0, 0, 0)); (7%nat, (5120, 0, 0)); (8%nat, (5120, 4096, 1024))]
           {| tn := 4096; td := 20 |} 6700 = true.
Proof. exact distinct_domain_nonvacuous. Qed.
(* the hypothesis is needed: a one-atom cell and a two-atom pattern as long as the cell -- the match is (0, 0) *)
Example C01_distinct_needs_the_domain :
  let S := [(0%nat, (2048, 2048, 2048))] in let cell := ((12288, 0, 0), (0, 32768, 0), (0, 0, 32768)) in
  let P := [(0%nat, (0, 0, 0)); (0%nat, (12288, 0, 0))] in let tol := {| tn := 4096; td := 20 |} in
  map (fun r => fst (fst r)) (find (rot_model None (a1 P None) (a2 P None)) (fun _ => 0%nat) S cell P tol 100000 None) = [[0%nat; 0%nat]]
  /\ domain_b cell P tol 12288 = false.
Proof. vm_compute. split; reflexivity. Qed.

(* non-vacuity: a two-atom pattern found across a cell corner by the default quaternion construction of the model *)
Example C01_nonvacuous :
  let S := [(0%nat, (40, 40, 40)); (1%nat, (8000, 40, 40)); (0%nat, (4000, 4000, 4000))] in
  let cell := ((8192, 0, 0), (0, 8192, 0), (0, 0, 8192)) in
  let P := [(0%nat, (0, 0, 0)); (1%nat, (232, 0, 0))] in
  let tol := {| tn := 4096; td := 20 |} in
  map (fun r => fst (fst r)) (find (rot_model None (a1 P None) (a2 P None)) (fun _ => 0%nat) S cell P tol 100000 None) = [[0%nat; 1%nat]].
Proof. vm_compute. reflexivity. Qed.
