(* C09 -- Atoms objects stay consistent and type ids keep their meaning.
   Model: Model/Atoms.v.  WF = every per-atom array has one entry per atom, every term row has its type and extra-field row,
   every term refers only to existing atoms. *)
From Coq Require Import List Arith Bool ZArith.
From Mofun Require Import Lib.NP Model.Atoms Proofs.DelProofs Proofs.ExtProofs Proofs.ReplProofs Proofs.WFProofs Proofs.TypeProofs Proofs.ReplTypeProofs.
From Mofun Require Import Model.Replace.
Import ListNotations.

Theorem C09_wf_delete : forall a ds, WF a -> NoDup ds -> WF (delitem a ds).
Proof. exact WF_delitem. Qed.
Print Assumptions C09_wf_delete.

Theorem C09_wf_extend : forall a o offs m, WF a -> WF o -> map_ok a m -> WF (extend a o offs m).
Proof. exact WF_extend. Qed.
Print Assumptions C09_wf_extend.

(* any history of deletions and extensions (default or explicit offsets, any identity maps into existing atoms) from a consistent
   structure: induction over the operation list *)
Theorem C09_wf_history : forall hs a, WF a -> hpres a hs -> WF (fold_left hstep hs a).
Proof. exact WF_history. Qed.
Print Assumptions C09_wf_history.

(* "every type id in use has its type-level data": Typed = element / mass / label tables of one length, pair table absent or of that
   length, every atom type id below that length, and for every term kind either no coefficient table at all or every term type id
   below its length.  Preserved by every operation, hence over any history of delete, pop, extend (default offsets between
   structures that agree on being parameterised, or explicit offsets under which other's ids resolve in self's tables),
   replicate, subset and copy. *)
Theorem C09_types_delete : forall a ds, Typed a -> Typed (delitem a ds).
Proof. exact Typed_delitem. Qed.
Print Assumptions C09_types_delete.
Theorem C09_types_extend : forall a o offs m, Typed a -> Typed o -> atoms_sized o -> map_dom o m ->
  match offs with Some f => resolves_in a o f | None => compat a o end -> Typed (extend a o offs m).
Proof. exact Typed_extend. Qed.
Print Assumptions C09_types_extend.
Theorem C09_replicate : forall a r R, WF a -> Typed a -> replicate a r = Some R -> WF R /\ Typed R.
Proof. exact replicate_WF_Typed. Qed.
Print Assumptions C09_replicate.
Theorem C09_subset : forall a idxs, Typed a -> atoms_sized a -> Forall (fun i => i < natoms a) idxs -> WF (getitem a idxs) /\ Typed (getitem a idxs).
Proof. intros a idxs T S H. exact (conj (WF_getitem a idxs) (Typed_getitem a idxs T S H)). Qed.
Print Assumptions C09_subset.
Theorem C09_full_history : forall hs a, WF a -> Typed a -> fpres a hs -> WF (fold_left fstep hs a) /\ Typed (fold_left fstep hs a).
Proof. exact full_history. Qed.
Print Assumptions C09_full_history.
(* replacing: the result of replace_pattern_in_structure's model (extend_types once, one extend per selected match, one deletion) on
   consistent, typed, mutually compatible structure and replacement pattern, for ANY selection of well-formed matches, is consistent
   and typed *)
Theorem C09_replace : forall S search repl ra ig sel S' k, WF S -> Typed S -> WF repl -> Typed repl -> compat S repl ->
  Forall (match_ok S search repl) sel -> replace_from S search repl ra ig sel = Ok S' k -> WF S' /\ Typed S'.
Proof. exact replace_WF_Typed. Qed.
Print Assumptions C09_replace.
(* non-vacuity: a history through all six operations whose every precondition holds, and what it ends in *)
Example C09_full_history_nonvacuous : (WF ex_a /\ Typed ex_a) /\ fpres ex_a ex_history /\
  (let r := fold_left fstep ex_history ex_a in (natoms r, a_typ r, t_el r) = (1, [2], [1%Z; 2%Z; 9%Z])).
Proof. exact (conj ex_start (conj ex_pre ex_result)). Qed.

(* meaning of type ids.  Deletion never touches a type table and keeps the type id of every surviving atom and term
   (C10_atoms / C10_terms).  extend_types appends other's tables after self's, so
   - an old id still resolves to its old text, and
   - a new item's id (other's id + offset) resolves to other's text -- also when the kind has just been emptied, because
     after fix D7 the offset follows the table, not the (empty) term list. *)
Theorem C09_old_id_keeps_meaning : forall (c1 c2 : list Z) t d, t < length c1 -> nth t (c1 ++ c2) d = nth t c1 d.
Proof. exact resolve_old. Qed.
Print Assumptions C09_old_id_keeps_meaning.
Theorem C09_new_term_id_means_others_text : forall k ko t d, compat_kind k ->
  nth (num_types k + t) (k_coef k ++ k_coef ko) d = nth t (k_coef ko) d.
Proof. exact resolve_new. Qed.
Print Assumptions C09_new_term_id_means_others_text.
Theorem C09_new_atom_id_means_others_text : forall (t1 t2 : list Z) t d, nth (length t1 + t) (t1 ++ t2) d = nth t t2 d.
Proof. exact atom_table_resolve. Qed.
Print Assumptions C09_new_atom_id_means_others_text.

(* the offsets extend_types hands out are exactly these *)
Theorem C09_offsets : forall a o, snd (extend_types a o) =
  mk_offs (length (t_el a)) (num_types (bonds a)) (num_types (angles a)) (num_types (dihedrals a)) (num_types (impropers a)).
Proof. reflexivity. Qed.
Print Assumptions C09_offsets.

(* before fix D7 the count was taken from the term list: with all bonds deleted but a two-entry coefficient table, the offset
   was 0 and a new bond of type 0 resolved to the OLD entry.  The repaired count gives the new text. *)
Example C09_emptied_kind_then_extend :
  let k := mk_kind [] [] [] [] [11%Z; 12%Z] in let ko := mk_kind [[0;1]] [0] [[]] [] [99%Z] in
  compat_kind k /\ nth (num_types k + 0) (k_coef k ++ k_coef ko) 0%Z = 99%Z /\ nth (0 + 0) (k_coef k ++ k_coef ko) 0%Z = 11%Z.
Proof. cbv zeta. split; [left; discriminate|]. split; reflexivity. Qed.

(* non-vacuity: a history of length 3 satisfying every precondition *)
Example C09_nonvacuous :
  let a := mk_atoms [(0,0,0)%Z;(1,0,0)%Z;(2,0,0)%Z] [0;0;1] [0%Z;0%Z;0%Z] [0%Z;0%Z;0%Z] [[];[];[]] [] [1%Z;2%Z] [3%Z;4%Z] [5%Z;6%Z] []
             (mk_kind [[0;1];[1;2]] [0;1] [[];[]] [] [7%Z;8%Z]) empty_kind empty_kind empty_kind None in
  let o := mk_atoms [(5,0,0)%Z;(6,0,0)%Z] [0;0] [0%Z;0%Z] [0%Z;0%Z] [[];[]] [] [9%Z] [10%Z] [11%Z] []
             (mk_kind [[0;1]] [0] [[]] [] [12%Z]) empty_kind empty_kind empty_kind None in
  let r := fold_left hstep [HDel [1]; HExtend o None [(0, 1)]; HDel [0]] a in
  (natoms r, k_tup (bonds r), map (fun j => coef_of (bonds r) j) [0]) = (2, [[0;1]], [12%Z]).
Proof. vm_compute. reflexivity. Qed.
