(* C20 -- The command line does exactly load, replicate, find/replace, save.
   Model: Model/Cli.v (plan : options -> list of API calls).  The theorems are small; the substance is the tie: for every generated option
   combination the plan is obtained FROM COQ, executed call by call through the Python API with the same seeds, and the files written are
   compared with those of the real entry point (correspondence run). *)
From Coq Require Import ZArith List Bool.
From Mofun Require Import Model.Cli Proofs.CliProofs.
Import ListNotations.

Theorem C20_load_first_save_last : forall o, exists mid, plan o = Load (o_in o) :: mid ++ [Save (o_out o)].
Proof. exact plan_first_last. Qed.
Print Assumptions C20_load_first_save_last.

(* order: cell, positions, charges, replicate, minimum-image replication, pair potentials, find/replace, framework element, save *)
Theorem C20_order : forall o, increasing (map rank (plan o)) = true.
Proof. exact plan_order. Qed.
Print Assumptions C20_order.

(* every documented option reaches the operation it names, with the value given *)
Theorem C20_options_are_wired : forall o,
  (forall p, o_uc o = Some p -> In (SetCell p) (plan o)) /\
  (forall p, o_dump o = Some p -> In (SetPositions p) (plan o)) /\
  (forall f, o_charges o = Some f -> In (SetCharges f) (plan o)) /\
  (forall r, o_replicate o = Some r -> In (Replicate r) (plan o)) /\
  (forall c, o_mic o = Some c -> In (Mic c) (plan o)) /\
  (o_pp o = true -> In AssignPP (plan o)) /\
  (forall f r, o_find o = Some f -> o_replace o = Some r -> In (Replace f r (o_atol o) (o_ap1 o) (o_ap2 o) (o_op o) (o_frac o)) (plan o)) /\
  (forall f, o_find o = Some f -> o_replace o = None -> In (Find f (o_atol o)) (plan o)) /\
  (forall e, o_framework o = Some e -> In (FrameworkElement e) (plan o)).
Proof. exact plan_wires. Qed.
Print Assumptions C20_options_are_wired.

Theorem C20_find_only : forall o f, o_find o = Some f -> o_replace o = None ->
  In (Find f (o_atol o)) (plan o) /\ forall a b c d e g h, ~ In (Replace a b c d e g h) (plan o).
Proof. exact plan_find_only. Qed.
Print Assumptions C20_find_only.

Open Scope Z_scope.
Example C20_nonvacuous :
  plan (mk_options 1 2 (Some 3) (Some 4) 50 5 (Some 0) None None None None (Some 9) (Some (2, 1, 1)) (Some 12) None true) =
  [Load 1; SetCharges 9; Replicate (2, 1, 1); Mic 12; AssignPP; Replace 3 4 5 (Some 0) None None 50; Save 2].
Proof. reflexivity. Qed.
