(* C04 -- Replacement changes exactly the matched atoms and nothing else.
   Model: Model/Replace.v (replace_from).  The list of selected matches is a parameter: the theorems hold for ANY selection the search
   and random.sample hand over. *)
From Coq Require Import List Arith Bool ZArith.
From Mofun Require Import Lib.NP Model.Atoms Model.Geom Model.Replace Proofs.DelProofs Proofs.ExtProofs Proofs.ReplaceProofs Proofs.ReplTypeProofs Proofs.ReplCountProofs.
Import ListNotations.

(* a successful replacement with a non-empty replacement pattern: the reported count is the number of selected matches; the deleted set is
   exactly the union over the selected matches of the matched atoms that are not common to both patterns (each once); positions, charges
   and groups are [the original atoms] ++ [for each match in order the replacement atoms that are not common to both patterns] with exactly
   the deleted atoms removed (np_delete keeps everything else in order, untouched -- C10_atoms); type tables are the original ones followed
   by the replacement pattern's; the cell is unchanged *)
Theorem C04_atoms : forall S search repl ra ig sel S' k, natoms repl <> 0 ->
  replace_from S search repl ra ig sel = Ok S' k ->
  k = length sel /\ exists del, NoDup del /\ (forall x, In x del <-> exists m, In m sel /\ In x (dels ra repl search m)) /\
  a_pos S' = np_delete (a_pos S ++ inserted ra repl search sel (fun m i => nth i (m_placed m) (0, 0, 0)%Z)) del /\
  a_chg S' = np_delete (a_chg S ++ inserted ra repl search sel (fun _ i => nth i (a_chg repl) 0%Z)) del /\
  a_grp S' = np_delete (a_grp S ++ inserted ra repl search sel (fun _ i => nth i (a_grp repl) 0%Z)) del /\
  t_el S' = t_el S ++ t_el repl /\ t_mass S' = t_mass S ++ t_mass repl /\ t_lab S' = t_lab S ++ t_lab repl /\ a_cell S' = a_cell S.
Proof. exact replace_ok_atoms. Qed.
Print Assumptions C04_atoms.

(* counting: with M selected matches that share no atom, the atom count changes by exactly M * (atoms of the replacement pattern -
   atoms of the search pattern), whatever the two patterns have in common (stated without subtraction).  match_ok: a match names
   existing atoms, one per search atom, and carries one placed coordinate per replacement atom. *)
Theorem C04_count : forall S search repl ra ig sel S' k, natoms repl <> 0 -> pattern_distinct repl ->
  Forall (match_ok S search repl) sel -> disjoint_matches sel ->
  replace_from S search repl ra ig sel = Ok S' k ->
  k = length sel /\ natoms S' + length sel * natoms search = natoms S + length sel * natoms repl.
Proof. exact replace_count. Qed.
Print Assumptions C04_count.

(* empty replacement pattern: every matched atom is deleted, each once; nothing else happens *)
Theorem C04_empty_replacement : forall S search repl ra ig sel, natoms repl = 0 ->
  replace_from S search repl ra ig sel = Ok (delitem S (fold_left (fun acc m => union acc (m_idx m)) sel [])) (length sel)
  /\ NoDup (fold_left (fun acc m => union acc (m_idx m)) sel []).
Proof. exact replace_empty. Qed.
Print Assumptions C04_empty_replacement.

(* atoms common to both patterns (same element, same coordinates) are the ones the index map retains: for a pattern replaced by itself
   every atom is common, nothing is deleted or inserted *)
Theorem C04_common_atoms_stay : forall S P ig sel S' k, pattern_distinct P -> natoms P <> 0 ->
  Forall (fun m => length (m_idx m) = natoms P /\ length (m_placed m) = natoms P) sel ->
  replace_from S P P false ig sel = Ok S' k -> a_pos S' = a_pos S /\ a_chg S' = a_chg S /\ a_grp S' = a_grp S.
Proof. exact self_replace_atoms. Qed.
Print Assumptions C04_common_atoms_stay.

(* non-vacuity: two matches, N-H -> N-F with N common: two H deleted, two F appended, count 2 *)
Example C04_nonvacuous :
  let S := mk_atoms [(0,0,0)%Z; (10,0,0)%Z; (50,0,0)%Z; (60,0,0)%Z; (90,9,9)%Z] [0;1;0;1;2] [1%Z;2%Z;3%Z;4%Z;5%Z] [0%Z;0%Z;1%Z;1%Z;2%Z] [[];[];[];[];[]] []
              [7%Z;1%Z;54%Z] [14%Z;1%Z;131%Z] [7%Z;1%Z;54%Z] [] empty_kind empty_kind empty_kind empty_kind None in
  let P := mk_atoms [(0,0,0)%Z; (10,0,0)%Z] [0;1] [0%Z;0%Z] [0%Z;0%Z] [[];[]] [] [7%Z;1%Z] [14%Z;1%Z] [7%Z;1%Z] [] empty_kind empty_kind empty_kind empty_kind None in
  let R := mk_atoms [(0,0,0)%Z; (10,0,0)%Z] [0;1] [0%Z;9%Z] [0%Z;7%Z] [[];[]] [] [7%Z;9%Z] [14%Z;19%Z] [7%Z;9%Z] [] empty_kind empty_kind empty_kind empty_kind None in
  match replace_from S P R false false [mk_smatch [0;1] [(0,0,0)%Z; (10,0,0)%Z]; mk_smatch [2;3] [(50,0,0)%Z; (60,0,0)%Z]] with
  | Ok S' k => (k, a_pos S', a_chg S', map (fun t => nth t (t_el S') 0%Z) (a_typ S')) =
               (2, [(0,0,0)%Z; (50,0,0)%Z; (90,9,9)%Z; (10,0,0)%Z; (60,0,0)%Z], [1%Z;3%Z;5%Z;9%Z;9%Z], [7%Z;7%Z;54%Z;9%Z;9%Z])
  | Overlap => False
  end.
Proof. vm_compute. reflexivity. Qed.
