(* C18 -- UFF parameters follow the published formulas for every type combination.
   Model: Model/UFF.v over the real numbers.  The theorems below are generic in the table; pertree/C18_tables.v instantiates the
   table-wide facts for the table regenerated from /repo/mofun/uff4mof.py on every run.  That the CODE computes these formulas is
   checked per combination by kernel-checked interval enclosures (correspondence run), not proved. *)
From Coq Require Import Reals ZArith List String Bool.
From Mofun Require Import Model.UFF Proofs.UFFProofs.
Import ListNotations.
Open Scope R_scope.

(* identical under reversal of the type sequence, including the bond-order guess and whether a torsion is undefined / unsupported *)
Theorem C18_bond_order_symmetric : forall a1 a2 rules, guess_bond_order a1 a2 rules = guess_bond_order a2 a1 rules.
Proof. exact guess_bond_order_sym. Qed.
Print Assumptions C18_bond_order_symmetric.
Theorem C18_bond_symmetric : forall T a1 a2 bo, bond_length T a1 a2 bo = bond_length T a2 a1 bo /\ bond_force T a1 a2 bo = bond_force T a2 a1 bo.
Proof. intros. split; [apply bond_length_sym|apply bond_force_sym]. Qed.
Print Assumptions C18_bond_symmetric.
Theorem C18_angle_symmetric : forall T a1 a2 a3 b12 b23, angle_force T a1 a2 a3 b12 b23 = angle_force T a3 a2 a1 b23 b12.
Proof. exact angle_force_sym. Qed.
Print Assumptions C18_angle_symmetric.
Theorem C18_torsion_symmetric : forall T mg a1 a2 a3 a4 bo m,
  tors_case mg a1 a2 a3 a4 = tors_case mg a4 a3 a2 a1 /\ tors_force T mg a1 a2 a3 a4 bo m = tors_force T mg a4 a3 a2 a1 bo m.
Proof. intros. split; [apply tors_case_sym|apply tors_force_sym]. Qed.
Print Assumptions C18_torsion_symmetric.

(* positive bond lengths and force constants, positive angle force constants -- for every table that passes the boolean sweep table_ok *)
Theorem C18_bonds_positive : forall T, table_ok T = true -> forall a1 a2 v1 v2 bo, lookup a1 T = Some v1 -> lookup a2 T = Some v2 -> 1 <= bo <= 3 ->
  0.39 * (getR T a1 0 + getR T a2 0) <= bond_length T a1 a2 bo <= getR T a1 0 + getR T a2 0 /\ 0 < bond_length T a1 a2 bo /\ 0 < bond_force T a1 a2 bo.
Proof. exact table_bond_positive. Qed.
Print Assumptions C18_bonds_positive.
Theorem C18_angles_positive : forall T, table_ok T = true -> forall a1 a2 a3 v1 v2 v3 b12 b23,
  lookup a1 T = Some v1 -> lookup a2 T = Some v2 -> lookup a3 T = Some v3 -> 1 <= b12 <= 3 -> 1 <= b23 <= 3 -> 0 < angle_force T a1 a2 a3 b12 b23.
Proof. exact table_angle_positive. Qed.
Print Assumptions C18_angles_positive.

(* torsion barriers are finite and non-negative; the fourier angle coefficients are finite when sin(theta0) <> 0 *)
Theorem C18_torsion_nonnegative : forall v1 v2 u2 u3 bo m, 0 < m -> 1 <= bo -> 0 <= tors_sp3 v1 v2 m /\ 0 <= tors_sp2 u2 u3 bo m.
Proof. intros. split; [apply tors_sp3_nonneg|apply tors_sp2_nonneg]; assumption. Qed.
Print Assumptions C18_torsion_nonnegative.
Theorem C18_fourier_finite : forall th, sin th <> 0 -> 0 < four_c2 th.
Proof. exact fourier_c2_finite. Qed.
Print Assumptions C18_fourier_finite.
