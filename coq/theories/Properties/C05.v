(* C05 -- Inserted atoms land where the replacement pattern says, modulo the lattice.
   The exact placement (Model/Replace.place) is R (r - s_0) + pos_0, R = M(q)/|q|^2.  Proved: it equals the image of the replacement
   coordinate under the rigid motion that C01 certifies for the match, up to exactly the residual of the first matched atom, which C01
   bounds by the tolerance -- so matched atoms and inserted atoms together are a proper rigid image of search + replacement coordinates
   within a bound proportional to the tolerance.  Checked on every inserted atom of every run, in exact integer arithmetic: the
   implementation's coordinate is place(...) modulo the lattice (1.9e-6 A) and lies inside the cell.  Joint rigid motion of both patterns:
   validated per run for patterns whose pose is unique (partial). *)
From Coq Require Import List Arith Bool ZArith.
From Mofun Require Import Model.Atoms Model.Geom Model.Find Model.Replace Proofs.FindProofs Proofs.ReplaceProofs Proofs.BondsProofs Proofs.WrapProofs.
Import ListNotations.
Open Scope Z_scope.

Theorem C05_frame : forall q (s0 sa1 r pos0 posa1 : vec),
  let N := qn2 q in
  let g v := vadd (rotapply q (vsub v sa1)) (vscale N posa1) in
  vsub (fst (place q pos0 (vsub r s0))) (g r) = vsub (vscale N pos0) (g s0).
Proof. exact placement_in_matched_frame. Qed.
Print Assumptions C05_frame.

(* the rotation used for the placement is proper (same identities as C01) and acts linearly *)
Theorem C05_rotation_linear : forall q a b, rotapply q (vsub a b) = vsub (rotapply q a) (rotapply q b).
Proof. exact rotapply_sub. Qed.
Print Assumptions C05_rotation_linear.
Theorem C05_rotation_proper : forall q p r, cross (rotapply q p) (rotapply q r) = vscale (qn2 q) (rotapply q (cross p r)).
Proof. exact rot_proper. Qed.
Print Assumptions C05_rotation_proper.

(* wrapping into the cell (positions % 1.0 in fractional coordinates, after fix D6 for triclinic cells): the wrapped point lies inside the
   cell, is a lattice translate of the unwrapped one, and is THE only such point -- so the per-run check "the implementation's coordinate
   is a lattice translate of place(...) and lies inside the cell" pins the coordinate down completely *)
Theorem C05_wrap_inside : forall c p, 0 < det3 c -> inside c (wrap c p).
Proof. exact wrap_inside. Qed.
Print Assumptions C05_wrap_inside.
Theorem C05_wrap_same_site : forall c p, exists i j k, wrap c p = vsub p (lattice c i j k).
Proof. exact wrap_same_site. Qed.
Print Assumptions C05_wrap_same_site.
Theorem C05_inside_and_same_site_is_wrap : forall c p y i j k, 0 < det3 c -> inside c y -> y = vsub p (lattice c i j k) -> y = wrap c p.
Proof. exact wrap_characterised. Qed.
Print Assumptions C05_inside_and_same_site_is_wrap.
Theorem C05_wrap_idempotent : forall c p, 0 < det3 c -> inside c p -> wrap c p = p.
Proof. exact wrap_idempotent. Qed.
Print Assumptions C05_wrap_idempotent.
Example C05_wrap_nonvacuous : wrap ((10, 0, 0), (3, 10, 0), (-2, 4, 10)) (-7, 23, 31) = (6, 1, 1) /\ det3 ((10, 0, 0), (3, 10, 0), (-2, 4, 10)) = 1000.
Proof. vm_compute. split; reflexivity. Qed.

(* non-vacuity: a quarter turn about z, N = 2 *)
Example C05_nonvacuous : place (0, 0, 1, 1) (100, 0, 0) (10, 0, 0) = ((200, 20, 0), 2).
Proof. vm_compute. reflexivity. Qed.
