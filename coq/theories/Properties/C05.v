(* C05 -- Inserted atoms land where the replacement pattern says, modulo the lattice.
   The exact placement (Model/Replace.place) is R (r - s_0) + pos_0, R = M(q)/|q|^2.  Proved: it equals the image of the replacement
   coordinate under the rigid motion that C01 certifies for the match, up to exactly the residual of the first matched atom, which C01
   bounds by the tolerance -- so matched atoms and inserted atoms together are a proper rigid image of search + replacement coordinates
   within a bound proportional to the tolerance.  Checked on every inserted atom of every run, in exact integer arithmetic: the
   implementation's coordinate is place(...) modulo the lattice (1.9e-6 A) and lies inside the cell.  Joint rigid motion of both patterns:
   validated per run for patterns whose pose is unique (partial). *)
From Coq Require Import List Arith Bool ZArith.
From Mofun Require Import Model.Atoms Model.Geom Model.Find Model.Replace Proofs.FindProofs Proofs.ReplaceProofs.
Import ListNotations.
Open Scope Z_scope.

Theorem C05_frame : forall q (s0 sa1 r pos0 posa1 : vec),
  let N := qn2 q in
  let g v := vadd (rotapply q (vsub v sa1)) (vscale N posa1) in
  vsub (fst (place q pos0 (vsub r s0))) (g r) = vsub (vscale N pos0) (g s0).
Proof. exact placement_in_matched_frame. Qed.
Print Assumptions C05_frame.

(* the rotation used for the placement is proper (same identities as C01) and acts linearly *)
Theorem C05_rotation_linear : forall q a b, rotapply q (vsub a b) = vsub (rotapply q a) (rotapply q b).
Proof. exact rotapply_sub. Qed.
Print Assumptions C05_rotation_linear.
Theorem C05_rotation_proper : forall q p r, cross (rotapply q p) (rotapply q r) = vscale (qn2 q) (rotapply q (cross p r)).
Proof. exact rot_proper. Qed.
Print Assumptions C05_rotation_proper.

(* non-vacuity: a quarter turn about z, N = 2 *)
Example C05_nonvacuous : place (0, 0, 1, 1) (100, 0, 0) (10, 0, 0) = ((200, 20, 0), 2).
Proof. vm_compute. reflexivity. Qed.
