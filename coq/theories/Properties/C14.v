(* C14 -- Elements inferred from masses are the nearest element within tolerance.
   Generic theorems (any table).  The instance for the repository's current ATOMIC_MASSES is
   Properties/C14_tables.v, compiled on every run against the regenerated Tables.v. *)
From Coq Require Import ZArith List String.
From Mofun Require Import Model.Guess Proofs.GuessProofs.
Import ListNotations.
Open Scope Z_scope.

Theorem C14_within_tolerance_and_closest : forall tbl delta m e, find_element tbl delta m = Some e ->
  exists me, In (e, me) tbl /\ adiff m me < delta /\ forall e' me', In (e', me') tbl -> adiff m me <= adiff m me'.
Proof. exact find_element_sound. Qed.
Print Assumptions C14_within_tolerance_and_closest.

Theorem C14_none_means_none_within : forall tbl delta m, find_element tbl delta m = None ->
  forall e' me', In (e', me') tbl -> delta <= adiff m me'.
Proof. exact find_element_none. Qed.
Print Assumptions C14_none_means_none_within.

Theorem C14_some_when_within : forall tbl delta m e' me', In (e', me') tbl -> adiff m me' < delta ->
  exists e, find_element tbl delta m = Some e.
Proof. exact find_element_some. Qed.
Print Assumptions C14_some_when_within.

Theorem C14_guess_elementwise : forall tbl delta ms es, guess tbl delta ms = Some es ->
  List.length es = List.length ms /\ forall i m, nth_error ms i = Some m -> exists e, nth_error es i = Some e /\ find_element tbl delta m = Some e.
Proof. exact guess_some. Qed.
Print Assumptions C14_guess_elementwise.

Theorem C14_all_or_nothing : forall tbl delta ms m, In m ms -> find_element tbl delta m = None ->
  load_elements tbl delta ms = map (fun i => string_of_nat (S i)) (seq 0 (List.length ms)).
Proof. exact load_elements_fallback. Qed.
Print Assumptions C14_all_or_nothing.

Theorem C14_guessed_when_all_within : forall tbl delta ms, (forall m, In m ms -> find_element tbl delta m <> None) ->
  guess tbl delta ms = Some (load_elements tbl delta ms).
Proof. exact load_elements_guessed. Qed.
Print Assumptions C14_guessed_when_all_within.

Theorem C14_distinguishable_roundtrip : forall tbl delta eps m e me,
  In (e, me) tbl -> adiff m me <= eps -> eps < delta ->
  (forall e' me', In (e', me') tbl -> e' <> e -> 2 * eps < adiff me me') ->
  find_element tbl delta m = Some e.
Proof. exact distinguishable_roundtrip. Qed.
Print Assumptions C14_distinguishable_roundtrip.

(* non-vacuity: a concrete table and masses on both sides of a boundary *)
Example C14_nonvacuous :
  let tbl := [("Ar", 39948); ("K", 39098); ("Ca", 40078)]%string in
  find_element tbl 100 39098 = Some "K"%string /\ find_element tbl 100 39500 = None /\
  load_elements tbl 100 [39098; 39500] = ["1"; "2"]%string /\ load_elements tbl 100 [39098; 39950] = ["K"; "Ar"]%string.
Proof. vm_compute. repeat split. Qed.
