(* C13 -- LAMMPS data files round-trip and mean what the structure says.
   Model: Model/Lmpdat.v, the CONTENT of the file (header counts, box, sections as records).  The text layout -- formatting,
   section detection by blank lines, split, float() -- is glue, exercised on every run by tokenising the implementation's text with an
   independent reader and by comparing second- and third-generation text byte for byte. *)
From Coq Require Import ZArith List Bool Arith.
From Mofun Require Import Lib.NP Model.Atoms Model.Lmpdat Proofs.DelProofs Proofs.LmpProofs.
Import ListNotations.
Open Scope Z_scope.

(* reading back what was written reproduces atom order, type ids, groups and charges (full style; zeros in atomic style), positions, masses
   and cell rounded to the printed six decimals, labels, every term with its type, every coefficient entry *)
Theorem C13_roundtrip : forall d st els a f, 0 < d -> atoms_sized a -> tables_sized a ->
  kind_sized (bonds a) -> kind_sized (angles a) -> kind_sized (dihedrals a) -> kind_sized (impropers a) -> cell_ok d a ->
  save d st a = Some f -> load st els f = normalise d st els a.
Proof. exact roundtrip. Qed.
Print Assumptions C13_roundtrip.

(* the re-read structure is a fixed point of write-then-read, so writing it again gives the same content from the second generation on *)
Theorem C13_idempotent : forall d st els a, normalise 1000000 st els (normalise d st els a) = normalise d st els a.
Proof. exact normalise_idempotent. Qed.
Print Assumptions C13_idempotent.

(* header counts state the section lengths *)
Theorem C13_counts : forall d st a f, atoms_sized a -> kind_sized (bonds a) -> kind_sized (angles a) -> kind_sized (dihedrals a) -> kind_sized (impropers a) ->
  save d st a = Some f ->
  f_counts f = (length (f_atoms f), length (f_bonds f), length (f_angles f), length (f_dihedrals f), length (f_impropers f)).
Proof. exact save_counts. Qed.
Print Assumptions C13_counts.

(* every structure in the domain (cell absent, orthorhombic or LAMMPS-oriented, with positive printed lengths) can be written *)
Theorem C13_writable : forall d st a, cell_ok d a -> exists f, save d st a = Some f.
Proof. exact save_is_some. Qed.
Print Assumptions C13_writable.

Example C13_nonvacuous :
  let a := mk_atoms [(4096, -2048, 1)%Z; (0, 0, 0)%Z] [1; 0]%nat [(-2048)%Z; 4096%Z] [2%Z; 0%Z] [[]; []] [] [6%Z; 1%Z] [49196%Z; 4128%Z] [11%Z; 12%Z] [21%Z; 22%Z]
             (mk_kind [[1; 0]%nat] [1%nat] [[]] [] [31%Z; 32%Z]) empty_kind empty_kind empty_kind
             (Some ((40960, 0, 0), (-4096, 40960, 0), (2048, 1024, 40960))%Z) in
  atoms_sized a /\ tables_sized a /\ kind_sized (bonds a) /\ cell_ok 4096 a /\
  match save 4096 Full a with
  | Some f => (f_counts f, f_ntypes f, map al_pos (f_atoms f), f_bonds f) =
              ((2, 1, 0, 0, 0)%nat, [Some 2; Some 2; None; None; None]%nat, [(1000000, -500000, 244)%Z; (0, 0, 0)%Z], [mk_tline 1 2 [2; 1]%nat])
  | None => False end.
Proof. cbv zeta. repeat split; try reflexivity; try (vm_compute; intuition discriminate); vm_compute; reflexivity. Qed.
