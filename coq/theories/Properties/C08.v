(* C08 -- Self-replacement is a no-op and element substitutions are reversible.
   Proved: replacing a pattern (no two same-element atoms at the same coordinates) by itself, replace_all off, deletes and inserts nothing and
   leaves position, charge and group of every atom unchanged -- for any matches.  Elements: the matched atoms are re-typed to the pattern's
   types, which resolve to the same elements because the search only matches equal elements (C01_sound).  Term tuples: unchanged when the pattern has no terms
   (C08_self_replacement_terms); otherwise by C11_terms the pattern adds only what it carries.  The substitution round trip A -> B -> A and "a second search finds none" involve
   the search's completeness (C02, open) and are validated on every run (partial). *)
From Coq Require Import List Arith Bool ZArith.
From Mofun Require Import Lib.NP Model.Atoms Model.Geom Model.Replace Proofs.ReplaceProofs.
Import ListNotations.

Theorem C08_self_replacement : forall S P ig sel S' k, pattern_distinct P -> natoms P <> 0 ->
  Forall (fun m => length (m_idx m) = natoms P /\ length (m_placed m) = natoms P) sel ->
  replace_from S P P false ig sel = Ok S' k -> a_pos S' = a_pos S /\ a_chg S' = a_chg S /\ a_grp S' = a_grp S.
Proof. exact self_replace_atoms. Qed.
Print Assumptions C08_self_replacement.

Theorem C08_identity_map : forall P, pattern_distinct P -> unchanged P P = map (fun i => (i, i)) (seq 0 (natoms P)).
Proof. exact unchanged_self. Qed.
Print Assumptions C08_identity_map.

(* ... and, when the pattern carries no terms of its own, every bond, angle, dihedral and improper of the structure keeps its atom tuple
   and its type, in the same order (same_terms: k_tup and k_typ of all four kinds are equal) -- inside, outside and across the matches *)
Theorem C08_self_replacement_terms : forall S P ig sel S' k, pattern_distinct P -> natoms P <> 0 -> termless P ->
  Forall (fun m => length (m_idx m) = natoms P /\ length (m_placed m) = natoms P) sel ->
  replace_from S P P false ig sel = Ok S' k -> same_terms S' S.
Proof. exact self_replace_terms. Qed.
Print Assumptions C08_self_replacement_terms.

(* the hypothesis is needed: with two coincident same-element atoms the second one maps onto the first *)
Example C08_distinct_needed :
  let P := mk_atoms [(0,0,0)%Z; (0,0,0)%Z] [0;0] [0%Z;0%Z] [0%Z;0%Z] [[];[]] [] [6%Z] [12%Z] [6%Z] [] empty_kind empty_kind empty_kind empty_kind None in
  unchanged P P = [(0, 0); (1, 0)].
Proof. vm_compute. reflexivity. Qed.

Example C08_nonvacuous :
  let S := mk_atoms [(5,0,0)%Z; (15,0,0)%Z; (90,9,9)%Z] [0;1;2] [1%Z;2%Z;3%Z] [0%Z;1%Z;2%Z] [[];[];[]] [] [7%Z;1%Z;54%Z] [14%Z;1%Z;131%Z] [7%Z;1%Z;54%Z] []
              empty_kind empty_kind empty_kind empty_kind None in
  let P := mk_atoms [(0,0,0)%Z; (10,0,0)%Z] [0;1] [0%Z;0%Z] [0%Z;0%Z] [[];[]] [] [7%Z;1%Z] [14%Z;1%Z] [7%Z;1%Z] [] empty_kind empty_kind empty_kind empty_kind None in
  pattern_distinct P /\
  match replace_from S P P false false [mk_smatch [0;1] [(5,0,0)%Z; (15,0,0)%Z]] with
  | Ok S' k => (a_pos S', a_chg S', map (fun t => nth t (t_el S') 0%Z) (a_typ S')) = (a_pos S, a_chg S, [7%Z;1%Z;54%Z])
  | Overlap => False end.
Proof. split; [split; [reflexivity|repeat constructor; cbn; intuition discriminate]|vm_compute; reflexivity]. Qed.

Example C08_terms_nonvacuous :
  let S := mk_atoms [(5,0,0)%Z; (15,0,0)%Z; (90,9,9)%Z] [0;1;2] [1%Z;2%Z;3%Z] [0%Z;1%Z;2%Z] [[];[];[]] [] [7%Z;1%Z;54%Z] [14%Z;1%Z;131%Z] [7%Z;1%Z;54%Z] []
              (mk_kind [[0;1];[1;2]] [0;1] [[];[]] [] []) (mk_kind [[0;1;2]] [0] [[]] [] []) empty_kind empty_kind None in
  let P := mk_atoms [(0,0,0)%Z; (10,0,0)%Z] [0;1] [0%Z;0%Z] [0%Z;0%Z] [[];[]] [] [7%Z;1%Z] [14%Z;1%Z] [7%Z;1%Z] [] empty_kind empty_kind empty_kind empty_kind None in
  termless P /\
  match replace_from S P P false false [mk_smatch [0;1] [(5,0,0)%Z; (15,0,0)%Z]] with
  | Ok S' k => (k_tup (bonds S'), k_typ (bonds S'), k_tup (angles S')) = ([[0;1];[1;2]], [0;1], [[0;1;2]])
  | Overlap => False end.
Proof. split; [repeat split|vm_compute; reflexivity]. Qed.
