(* C08 -- Self-replacement is a no-op and element substitutions are reversible.
   Proved: replacing a pattern (no two same-element atoms at the same coordinates) by itself, replace_all off, deletes and inserts nothing and
   leaves position, charge and group of every atom unchanged -- for any matches.  Elements: the matched atoms are re-typed to the pattern's
   types, which resolve to the same elements because the search only matches equal elements (C01_sound): C08_self_replacement_elements.  Term tuples: unchanged when the pattern has no terms
   (C08_self_replacement_terms); otherwise by C11_terms the pattern adds only what it carries.  The substitution round trip A -> B -> A and "a second search finds none" involve
   the search's completeness (C02, open) and are validated on every run (partial). *)
From Coq Require Import List Arith Bool ZArith.
From Mofun Require Import Lib.NP Model.Atoms Model.Geom Model.Replace Proofs.ReplaceProofs.
Import ListNotations.

Theorem C08_self_replacement : forall S P ig sel S' k, pattern_distinct P -> natoms P <> 0 ->
  Forall (fun m => length (m_idx m) = natoms P /\ length (m_placed m) = natoms P) sel ->
  replace_from S P P false ig sel = Ok S' k -> a_pos S' = a_pos S /\ a_chg S' = a_chg S /\ a_grp S' = a_grp S.
Proof. exact self_replace_atoms. Qed.
Print Assumptions C08_self_replacement.

Theorem C08_identity_map : forall P, pattern_distinct P -> unchanged P P = map (fun i => (i, i)) (seq 0 (natoms P)).
Proof. exact unchanged_self. Qed.
Print Assumptions C08_identity_map.

(* ... and, when the pattern carries no terms of its own, every bond, angle, dihedral and improper of the structure keeps its atom tuple
   and its type, in the same order (same_terms: k_tup and k_typ of all four kinds are equal) -- inside, outside and across the matches *)
Theorem C08_self_replacement_terms : forall S P ig sel S' k, pattern_distinct P -> natoms P <> 0 -> termless P ->
  Forall (fun m => length (m_idx m) = natoms P /\ length (m_placed m) = natoms P) sel ->
  replace_from S P P false ig sel = Ok S' k -> same_terms S' S.
Proof. exact self_replace_terms. Qed.
Print Assumptions C08_self_replacement_terms.

(* elements: matched atoms are re-typed to the pattern's (appended) types; provided every matched atom has the element of the pattern atom
   it is matched to -- which is what the search guarantees (C01_sound) -- every atom of the structure resolves to the same element as before,
   for any number of matches, overlapping or not.  (S consistent: one type per atom, every type id inside the element table.) *)
Theorem C08_self_replacement_elements : forall S P ig sel S' k, pattern_distinct P -> natoms P <> 0 ->
  Forall (fun m => length (m_idx m) = natoms P /\ length (m_placed m) = natoms P) sel ->
  length (a_typ S) = natoms S -> Forall (fun t => t < length (t_el S)) (a_typ S) ->
  (forall m j, In m sel -> j < natoms P -> element_of S (nth j (m_idx m) 0) = element_of P j) ->
  replace_from S P P false ig sel = Ok S' k ->
  forall i, i < natoms S -> element_of S' i = element_of S i.
Proof. exact self_replace_elements. Qed.
Print Assumptions C08_self_replacement_elements.

(* self-replacement is never refused: nothing is deleted, so matches that share atoms do not count as overlapping *)
Theorem C08_self_replacement_never_refused : forall S P ig sel, pattern_distinct P ->
  Forall (fun m => length (m_idx m) = natoms P /\ length (m_placed m) = natoms P) sel ->
  replace_from S P P false ig sel <> Overlap.
Proof. exact self_replace_never_refused. Qed.
Print Assumptions C08_self_replacement_never_refused.

(* the hypothesis is needed: with two coincident same-element atoms the second one maps onto the first *)
Example C08_distinct_needed :
  let P := mk_atoms [(0,0,0)%Z; (0,0,0)%Z] [0;0] [0%Z;0%Z] [0%Z;0%Z] [[];[]] [] [6%Z] [12%Z] [6%Z] [] empty_kind empty_kind empty_kind empty_kind None in
  unchanged P P = [(0, 0); (1, 0)].
Proof. vm_compute. reflexivity. Qed.

Example C08_nonvacuous :
  let S := mk_atoms [(5,0,0)%Z; (15,0,0)%Z; (90,9,9)%Z] [0;1;2] [1%Z;2%Z;3%Z] [0%Z;1%Z;2%Z] [[];[];[]] [] [7%Z;1%Z;54%Z] [14%Z;1%Z;131%Z] [7%Z;1%Z;54%Z] []
              empty_kind empty_kind empty_kind empty_kind None in
  let P := mk_atoms [(0,0,0)%Z; (10,0,0)%Z] [0;1] [0%Z;0%Z] [0%Z;0%Z] [[];[]] [] [7%Z;1%Z] [14%Z;1%Z] [7%Z;1%Z] [] empty_kind empty_kind empty_kind empty_kind None in
  pattern_distinct P /\
  match replace_from S P P false false [mk_smatch [0;1] [(5,0,0)%Z; (15,0,0)%Z]] with
  | Ok S' k => (a_pos S', a_chg S', map (fun t => nth t (t_el S') 0%Z) (a_typ S')) = (a_pos S, a_chg S, [7%Z;1%Z;54%Z])
  | Overlap => False end.
Proof. split; [split; [reflexivity|repeat constructor; cbn; intuition discriminate]|vm_compute; reflexivity]. Qed.

Example C08_terms_nonvacuous :
  let S := mk_atoms [(5,0,0)%Z; (15,0,0)%Z; (90,9,9)%Z] [0;1;2] [1%Z;2%Z;3%Z] [0%Z;1%Z;2%Z] [[];[];[]] [] [7%Z;1%Z;54%Z] [14%Z;1%Z;131%Z] [7%Z;1%Z;54%Z] []
              (mk_kind [[0;1];[1;2]] [0;1] [[];[]] [] []) (mk_kind [[0;1;2]] [0] [[]] [] []) empty_kind empty_kind None in
  let P := mk_atoms [(0,0,0)%Z; (10,0,0)%Z] [0;1] [0%Z;0%Z] [0%Z;0%Z] [[];[]] [] [7%Z;1%Z] [14%Z;1%Z] [7%Z;1%Z] [] empty_kind empty_kind empty_kind empty_kind None in
  termless P /\
  match replace_from S P P false false [mk_smatch [0;1] [(5,0,0)%Z; (15,0,0)%Z]] with
  | Ok S' k => (k_tup (bonds S'), k_typ (bonds S'), k_tup (angles S')) = ([[0;1];[1;2]], [0;1], [[0;1;2]])
  | Overlap => False end.
Proof. split; [repeat split|vm_compute; reflexivity]. Qed.

(* the element hypothesis of C08_self_replacement_elements is satisfiable (N at 0, H at 1 in both S and P) and the conclusion is not trivial:
   the type ids of the matched atoms do change (0,1 -> 3,4) while their elements do not *)
Example C08_elements_nonvacuous :
  let S := mk_atoms [(5,0,0)%Z; (15,0,0)%Z; (90,9,9)%Z] [0;1;2] [1%Z;2%Z;3%Z] [0%Z;1%Z;2%Z] [[];[];[]] [] [7%Z;1%Z;54%Z] [14%Z;1%Z;131%Z] [7%Z;1%Z;54%Z] []
              empty_kind empty_kind empty_kind empty_kind None in
  let P := mk_atoms [(0,0,0)%Z; (10,0,0)%Z] [0;1] [0%Z;0%Z] [0%Z;0%Z] [[];[]] [] [7%Z;1%Z] [14%Z;1%Z] [7%Z;1%Z] [] empty_kind empty_kind empty_kind empty_kind None in
  map (element_of S) [0;1] = map (element_of P) [0;1] /\
  match replace_from S P P false false [mk_smatch [0;1] [(5,0,0)%Z; (15,0,0)%Z]] with
  | Ok S' k => a_typ S' = [3;4;2] /\ map (element_of S') [0;1;2] = map (element_of S) [0;1;2]
  | Overlap => False end.
Proof. vm_compute. repeat split. Qed.
