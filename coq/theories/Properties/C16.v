(* C16 -- CML molecules load faithfully.  Model: Model/Cml.v (document = atom entries + bond entries). *)
From Coq Require Import ZArith List Bool Arith.
From Mofun Require Import Model.Atoms Model.Cml Proofs.CmlProofs.
Import ListNotations.

Theorem C16_load : forall d l, load d = Some l ->
  l_elements l = map (fun a => snd (fst a)) (cml_atoms d) /\ l_positions l = map snd (cml_atoms d) /\
  length (l_bonds l) = length (cml_bonds d) /\
  forall j r1 r2, nth_error (cml_bonds d) j = Some (r1, r2) ->
    exists a b, nth_error (l_bonds l) j = Some (a, b) /\
                id_to_idx (map (fun a => fst (fst a)) (cml_atoms d)) r1 = Some a /\ id_to_idx (map (fun a => fst (fst a)) (cml_atoms d)) r2 = Some b.
Proof. exact load_spec. Qed.
Print Assumptions C16_load.

(* whatever the spelling or order of the ids, as long as they are distinct: the id of the k-th entry names atom k *)
Theorem C16_ids_name_their_atoms : forall ids k r, NoDup ids -> nth_error ids k = Some r -> id_to_idx ids r = Some k.
Proof. exact id_to_idx_nodup. Qed.
Print Assumptions C16_ids_name_their_atoms.

Theorem C16_no_bonds : forall atoms, load (mk_cml atoms []) = Some (mk_loaded (map (fun a => snd (fst a)) atoms) (map snd atoms) []).
Proof. exact load_no_bonds. Qed.
Print Assumptions C16_no_bonds.

Theorem C16_always_loads : forall d,
  (forall r1 r2, In (r1, r2) (cml_bonds d) -> In r1 (map (fun a => fst (fst a)) (cml_atoms d)) /\ In r2 (map (fun a => fst (fst a)) (cml_atoms d))) ->
  exists l, load d = Some l.
Proof. exact load_total. Qed.
Print Assumptions C16_always_loads.

Example C16_nonvacuous :
  load (mk_cml [(7%Z, 1%Z, (1, 2, 3)%Z); (5%Z, 2%Z, (4, 5, 6)%Z); (9%Z, 1%Z, (0, 0, 0)%Z)] [(9%Z, 7%Z); (5%Z, 9%Z)]) =
  Some (mk_loaded [1%Z; 2%Z; 1%Z] [(1, 2, 3)%Z; (4, 5, 6)%Z; (0, 0, 0)%Z] [(2, 0); (1, 2)]).
Proof. reflexivity. Qed.
