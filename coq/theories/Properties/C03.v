(* C03 -- Search results do not depend on how crystal or pattern are represented.
   Proved (all inputs): the list of reported atom groups does not depend on the random choice among symmetry-equivalent orderings
   (random.choice); numpy's generator enters only through the quaternion construction `rot`, and the set of groups depends on `rot`
   only through which candidate groups contain an accepted ordering.
   PARTIAL: invariance under shift+wrap, atom permutation, rigid motion of the pattern, hint triples and supercells is validated on
   every run (each representation is a correspondence case with the renamed planted ground truth); a proof would need the
   completeness statement that C02 leaves open. *)
From Coq Require Import ZArith List Bool Arith.
From Mofun Require Import Model.Atoms Model.Geom Model.Find Proofs.FindProofs.
Import ListNotations.
Open Scope Z_scope.

Theorem C03_rng_independent : forall rot pick pick' S cell P tol rtol hints,
  map okey (find rot pick S cell P tol rtol hints) = map okey (find rot pick' S cell P tol rtol hints).
Proof. exact find_pick_independent. Qed.
Print Assumptions C03_rng_independent.

(* two quaternion constructions that accept orderings in the same candidate groups report the same groups *)
Theorem C03_depends_on_rot_only_through_acceptance_partial : forall rot rot' pick pick' S cell P tol rtol hints,
  (forall kg, In kg (groups S cell P tol) -> has_good rot P tol rtol hints kg = has_good rot' P tol rtol hints kg) ->
  map okey (find rot pick S cell P tol rtol hints) = map okey (find rot' pick' S cell P tol rtol hints).
Proof.
  intros rot rot' pick pick' S cell P tol rtol hints H. rewrite !find_keys. f_equal.
  induction (groups S cell P tol) as [|kg gs IH]; [reflexivity|]. cbn [filter].
  rewrite (H kg (or_introl eq_refl)). rewrite IH by (intros kg' Hin; apply H; right; exact Hin). reflexivity.
Qed.
Print Assumptions C03_depends_on_rot_only_through_acceptance_partial.

(* non-vacuity: a symmetric pattern where the choice matters for the ordering but not for the group *)
Example C03_nonvacuous :
  let S := [(0%nat, (400, 400, 400)); (0%nat, (6544, 400, 400)); (0%nat, (6544, 6544, 400)); (0%nat, (400, 6544, 400))] in
  let cell := ((40960, 0, 0), (0, 40960, 0), (0, 0, 40960)) in
  let P := [(0%nat, (0, 0, 0)); (0%nat, (6144, 0, 0)); (0%nat, (6144, 6144, 0)); (0%nat, (0, 6144, 0))] in
  let tol := {| tn := 4096; td := 20 |} in
  let f pick := find (rot_model None (a1 P None) (a2 P None)) pick S cell P tol 100000 None in
  map (fun r => fst (fst r)) (f (fun _ => 0%nat)) <> map (fun r => fst (fst r)) (f (fun _ => 3%nat)) /\
  map okey (f (fun _ => 0%nat)) = map okey (f (fun _ => 3%nat)).
Proof. vm_compute. split; [discriminate|reflexivity]. Qed.
