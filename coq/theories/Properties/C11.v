(* C11 -- Extending a structure appends atoms and re-targets terms correctly.
   Model: Model/Atoms.v (extend_types, extend_with, extend), mirroring Atoms.extend_types / _extend_extra_fields / extend. *)
From Coq Require Import List Arith Bool ZArith.
From Mofun Require Import Lib.NP Model.Atoms Proofs.DelProofs Proofs.ExtProofs.
Import ListNotations.

(* other's atoms that are not declared identical are appended in order after the existing ones; declared-identical atoms
   are not duplicated; old positions/charges/groups untouched; mapped atoms adopt other's type (+ offset);
   type tables and the cell are not touched by extend_with; every kind goes through extend_kind with the same index map *)
Theorem C11_atoms : forall a o f m,
  let r := extend_with a o f m in let T := to_add_of o m in
  a_pos r = a_pos a ++ map (fun i => nth i (a_pos o) (0, 0, 0)%Z) T /\
  a_chg r = a_chg a ++ map (fun i => nth i (a_chg o) 0%Z) T /\
  a_grp r = a_grp a ++ map (fun i => nth i (a_grp o) 0%Z) T /\
  a_typ r = fold_set (fun k => nth k (a_typ o) 0 + o_atom f) m (a_typ a) ++ map (fun i => nth i (a_typ o) 0 + o_atom f) T /\
  a_xl r = merge_labels (a_xl a) (a_xl o) /\
  t_el r = t_el a /\ t_mass r = t_mass a /\ t_lab r = t_lab a /\ t_pair r = t_pair a /\ a_cell r = a_cell a /\
  bonds r = extend_kind (o_bond f) (phi_of a o m) (bonds a) (bonds o) /\
  angles r = extend_kind (o_angle f) (phi_of a o m) (angles a) (angles o) /\
  dihedrals r = extend_kind (o_dih f) (phi_of a o m) (dihedrals a) (dihedrals o) /\
  impropers r = extend_kind (o_imp f) (phi_of a o m) (impropers a) (impropers o).
Proof. exact extend_with_atoms. Qed.
Print Assumptions C11_atoms.

Theorem C11_mapped_atom_adopts_type : forall (o : atoms) (f : offsets) m k i l,
  NoDup (map snd m) -> In (k, i) m -> i < length l ->
  nth i (fold_set (fun k => nth k (a_typ o) 0 + o_atom f) m l) 0 = nth k (a_typ o) 0 + o_atom f.
Proof. intros o f m k i l H1 H2 H3. exact (fold_set_mapped _ m k i 0 H1 H2 l H3). Qed.
Print Assumptions C11_mapped_atom_adopts_type.

Theorem C11_unmapped_atom_keeps_type : forall (o : atoms) (f : offsets) m i l,
  (forall kv, In kv m -> snd kv <> i) ->
  nth i (fold_set (fun k => nth k (a_typ o) 0 + o_atom f) m l) 0 = nth i l 0.
Proof. intros o f m i l H. exact (fold_set_other _ m i 0 H l). Qed.
Print Assumptions C11_unmapped_atom_keeps_type.

(* the index map used for the terms: a non-mapped atom k of other is the appended atom at phi k; a mapped one is the existing atom *)
Theorem C11_phi_appended : forall a o f m k, k < natoms o -> mem_key k m = false ->
  nth (phi_of a o m k) (a_pos (extend_with a o f m)) (0, 0, 0)%Z = nth k (a_pos o) (0, 0, 0)%Z /\
  natoms a <= phi_of a o m k < natoms (extend_with a o f m).
Proof. exact phi_appended. Qed.
Print Assumptions C11_phi_appended.
Theorem C11_phi_mapped : forall a o m k i, assoc k m = Some i -> phi_of a o m k = i.
Proof. exact phi_mapped. Qed.
Print Assumptions C11_phi_mapped.

(* terms of one kind: every term of other appears once, at the end, between the corresponding atoms, type shifted by the offset,
   extra fields matched by label; an existing term on exactly the same atoms (forwards or reversed) is superseded; all other
   existing terms are untouched and keep their order; labels merged; coefficient table untouched *)
Theorem C11_terms : forall off phi k ko, kind_sized k -> kind_sized ko -> k_tup ko <> [] ->
  let new := map (map phi) (k_tup ko) in
  rows (extend_kind off phi k ko) =
    filter (fun r => negb (overridden new (fst r))) (combine (k_tup k) (combine (k_typ k) (xf_self k ko)))
    ++ combine new (combine (map (Nat.add off) (k_typ ko)) (xf_other k ko))
  /\ k_xl (extend_kind off phi k ko) = merge_labels (k_xl k) (k_xl ko)
  /\ k_coef (extend_kind off phi k ko) = k_coef k.
Proof. exact extend_kind_rows. Qed.
Print Assumptions C11_terms.

Theorem C11_kind_without_new_terms : forall off phi k ko, k_tup ko = [] ->
  k_tup (extend_kind off phi k ko) = k_tup k /\ k_typ (extend_kind off phi k ko) = k_typ k /\
  k_xf (extend_kind off phi k ko) = xf_self k ko /\ k_xl (extend_kind off phi k ko) = merge_labels (k_xl k) (k_xl ko) /\
  k_coef (extend_kind off phi k ko) = k_coef k.
Proof. exact extend_kind_empty. Qed.
Print Assumptions C11_kind_without_new_terms.

(* default type merging: with the offsets computed by extend_types, a new term's type resolves to other's own coefficient text,
   and an old term's type still resolves to its old text *)
Theorem C11_new_type_resolves_to_others_text : forall k ko t d, compat_kind k ->
  nth (num_types k + t) (k_coef k ++ k_coef ko) d = nth t (k_coef ko) d.
Proof. exact resolve_new. Qed.
Print Assumptions C11_new_type_resolves_to_others_text.
Theorem C11_old_type_keeps_its_text : forall (c1 c2 : list Z) t d, t < length c1 -> nth t (c1 ++ c2) d = nth t c1 d.
Proof. exact resolve_old. Qed.
Print Assumptions C11_old_type_keeps_its_text.

(* without the compatibility hypothesis the statement is false: a kind with terms but no coefficient table (ids up to max),
   extended by a kind with a table, resolves the new term to the wrong entry -- this is what the property's domain excludes *)
Example C11_compat_needed :
  let k := mk_kind [[0;1]] [1] [[]] [] [] in let ko := mk_kind [[0;1]] [0] [[]] [] [7%Z] in
  nth (num_types k + 0) (k_coef k ++ k_coef ko) 0%Z <> nth 0 (k_coef ko) 0%Z.
Proof. vm_compute. discriminate. Qed.

(* explicit zero offsets: ids are shared, nothing is shifted *)
Theorem C11_shared_ids : forall l, map (Nat.add 0) l = l.
Proof. exact add_zero_map. Qed.
Print Assumptions C11_shared_ids.

(* non-vacuity: an identity map, a superseded (reversed) bond and an untouched one *)
Example C11_nonvacuous :
  let k := mk_kind [[0;1];[1;2]] [0;1] [[];[]] [] [5%Z;6%Z] in
  let ko := mk_kind [[1;0]] [0] [[]] [] [9%Z] in
  let phi := fun i => match i with 0 => 0 | _ => 1 end in
  rows (extend_kind 2 phi k ko) = [([1;2], (1, [])); ([1;0], (2, []))].
Proof. vm_compute. reflexivity. Qed.
