From Coq Require Import ZArith List.
From Mofun Require Import Model.Atoms.
