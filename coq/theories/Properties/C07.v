(* C07 -- Overlapping replacements are refused, never silently corrupted.
   Purely discrete; the selected matches are a parameter (any list). *)
From Coq Require Import List Arith Bool ZArith.
From Mofun Require Import Lib.NP Model.Atoms Model.Geom Model.Replace Proofs.ReplaceProofs.
Import ListNotations.

(* the dedicated error is raised -- and no structure handed back -- exactly when the replacement is non-empty, the caller did not ask to
   ignore it, and some structure atom is in the removal sets of two selected matches (removal set = matched atoms not common to both
   patterns) *)
Theorem C07_refuses_iff : forall S search repl ra ig sel,
  replace_from S search repl ra ig sel = Overlap <->
  natoms repl <> 0 /\ ig = false /\ removed_twice [] (map (dels ra repl search) sel).
Proof. exact replace_overlap_iff. Qed.
Print Assumptions C07_refuses_iff.

(* empty replacement: never an error, each listed atom deleted once *)
Theorem C07_empty_replacement_never_refused : forall S search repl ra ig sel, natoms repl = 0 ->
  replace_from S search repl ra ig sel = Ok (delitem S (fold_left (fun acc m => union acc (m_idx m)) sel [])) (length sel)
  /\ NoDup (fold_left (fun acc m => union acc (m_idx m)) sel []).
Proof. exact replace_empty. Qed.
Print Assumptions C07_empty_replacement_never_refused.

(* whenever a structure is returned, every structure atom is removed at most once: the deletion list has no duplicates *)
Theorem C07_each_atom_removed_once : forall S search repl ra ig sel S' k, natoms repl <> 0 ->
  replace_from S search repl ra ig sel = Ok S' k ->
  exists del, NoDup del /\ (forall x, In x del <-> exists m, In m sel /\ In x (dels ra repl search m)).
Proof. exact replace_removed_once. Qed.
Print Assumptions C07_each_atom_removed_once.

(* non-vacuity: N-N-C found twice in C-N-N-C; replaced by F-F-C both matches remove both N: refused; replaced by N-N-F nothing is shared
   in the removal sets: accepted *)
Example C07_nonvacuous :
  let mk els pos := mk_atoms pos (map (fun e => match e with 6%Z => 0 | 7%Z => 1 | _ => 2 end) els) (map (fun _ => 0%Z) els) (map (fun _ => 0%Z) els)
                             (map (fun _ => []) els) [] [6%Z;7%Z;9%Z] [12%Z;14%Z;19%Z] [6%Z;7%Z;9%Z] [] empty_kind empty_kind empty_kind empty_kind None in
  let S := mk [6%Z;7%Z;7%Z;6%Z] [(0,0,0)%Z;(10,0,0)%Z;(20,0,0)%Z;(30,0,0)%Z] in
  let P := mk [7%Z;7%Z;6%Z] [(0,0,0)%Z;(10,0,0)%Z;(20,0,0)%Z] in
  let FFC := mk [9%Z;9%Z;6%Z] [(0,0,0)%Z;(10,0,0)%Z;(20,0,0)%Z] in
  let NNF := mk [7%Z;7%Z;9%Z] [(0,0,0)%Z;(10,0,0)%Z;(20,0,0)%Z] in
  let sel := [mk_smatch [1;2;3] [(10,0,0)%Z;(20,0,0)%Z;(30,0,0)%Z]; mk_smatch [2;1;0] [(20,0,0)%Z;(10,0,0)%Z;(0,0,0)%Z]] in
  replace_from S P FFC false false sel = Overlap /\
  match replace_from S P NNF false false sel with Ok S' k => (k, natoms S') = (2, 4) | Overlap => False end /\
  match replace_from S P FFC false true sel with Ok S' k => k = 2 | Overlap => False end.
Proof. vm_compute. repeat split. Qed.
