(* C19 -- Term enumeration is complete and term typing depends only on UFF types.
   Model: Model/Terms.v.  UFF type strings are replaced by their rank (order-preserving), so typekey's comparison is the same. *)
From Coq Require Import List Arith Bool.
From Mofun Require Import Model.Terms Proofs.TermsProofs Proofs.GraphProofs.
Import ListNotations.

(* typekey picks the sequence or its reversal, identically for both directions: same key <-> same sequence up to reversal *)
Theorem C19_typekey : forall t u, typekey t = typekey u <-> (t = u \/ t = rev u).
Proof. exact typekey_eq_iff. Qed.
Print Assumptions C19_typekey.
Theorem C19_typekey_direction_independent : forall t, typekey (rev t) = typekey t.
Proof. exact typekey_rev. Qed.
Print Assumptions C19_typekey_direction_independent.

(* the pair enumeration at the heart of calc_angles: the pairs produced are exactly the ordered positions a-before-b of the (deduplicated)
   neighbour list; nothing is produced twice; each unordered pair of distinct neighbours appears in exactly one orientation *)
Theorem C19_pairs_are_neighbour_pairs : forall l a b, In (a, b) (combinations2 l) <-> exists l1 l2 l3, l = l1 ++ a :: l2 ++ b :: l3.
Proof. exact in_combinations2. Qed.
Print Assumptions C19_pairs_are_neighbour_pairs.
Theorem C19_each_pair_once : forall l, NoDup l -> NoDup (combinations2 l).
Proof. exact combinations2_nodup. Qed.
Print Assumptions C19_each_pair_once.
Theorem C19_each_unordered_pair_exactly_once : forall l a b, NoDup l -> In a l -> In b l -> a <> b ->
  (In (a, b) (combinations2 l) /\ ~ In (b, a) (combinations2 l)) \/ (In (b, a) (combinations2 l) /\ ~ In (a, b) (combinations2 l)).
Proof. exact pair_exactly_once. Qed.
Print Assumptions C19_each_unordered_pair_exactly_once.

(* type assignment: two terms share a type id exactly when their keys are equal, and the unique-key entry at a term's type id is the
   term's own key, so the coefficient computed for that entry belongs to the term's type sequence.  (For dihedrals the key includes the
   number of torsions about the central bond.) *)
Theorem C19_same_type_iff_same_key : forall keys i j ki kj, nth_error keys i = Some ki -> nth_error keys j = Some kj ->
  (nth i (fst (assign keys)) 0 = nth j (fst (assign keys)) 0 <-> ki = kj) /\ nth (nth i (fst (assign keys)) 0) (snd (assign keys)) [] = ki.
Proof. exact assign_same_type_iff. Qed.
Print Assumptions C19_same_type_iff_same_key.

(* graph level, for EVERY bond list (duplicates, both written directions and self-loops allowed).  nbr b n y: y <> n and the bond
   n-y is listed in either direction.
   Angles: what is produced is i-n-j with i, j distinct atoms bonded to n; every such pair of bonds sharing an atom is produced in
   exactly one of its two directions; nothing is produced twice. *)
Theorem C19_angles_sound : forall b t, In t (calc_angles b) -> exists i n j, t = [i; n; j] /\ nbr b n i /\ nbr b n j /\ i <> j.
Proof. exact angles_sound. Qed.
Print Assumptions C19_angles_sound.
Theorem C19_angles_complete_once : forall b n i j, nbr b n i -> nbr b n j -> i <> j ->
  (In [i; n; j] (calc_angles b) /\ ~ In [j; n; i] (calc_angles b)) \/ (In [j; n; i] (calc_angles b) /\ ~ In [i; n; j] (calc_angles b)).
Proof. exact angles_complete. Qed.
Print Assumptions C19_angles_complete_once.
Theorem C19_angles_no_duplicates : forall b, NoDup (calc_angles b).
Proof. exact angles_NoDup. Qed.
Print Assumptions C19_angles_no_duplicates.
(* Dihedrals: what is produced is a chain i-j-k-l of bonded atoms with i <> k and l <> j; every such chain is produced in exactly one
   of its two directions (each bond serves as central bond in one direction only); nothing is produced twice. *)
Theorem C19_each_bond_central_once : forall b j k, nbr b j k ->
  (In (j, k) (edges b) /\ ~ In (k, j) (edges b)) \/ (In (k, j) (edges b) /\ ~ In (j, k) (edges b)).
Proof. exact edges_once. Qed.
Print Assumptions C19_each_bond_central_once.
Theorem C19_dihedrals_sound : forall b t, In t (calc_dihedrals b) ->
  exists i j k l, t = [i; j; k; l] /\ nbr b j i /\ nbr b j k /\ nbr b k l /\ i <> k /\ l <> j.
Proof. exact dihedrals_sound. Qed.
Print Assumptions C19_dihedrals_sound.
Theorem C19_dihedrals_complete_once : forall b i j k l, nbr b j i -> nbr b j k -> nbr b k l -> i <> k -> l <> j ->
  (In [i; j; k; l] (calc_dihedrals b) /\ ~ In [l; k; j; i] (calc_dihedrals b)) \/
  (In [l; k; j; i] (calc_dihedrals b) /\ ~ In [i; j; k; l] (calc_dihedrals b)).
Proof. exact dihedrals_complete. Qed.
Print Assumptions C19_dihedrals_complete_once.
Theorem C19_dihedrals_no_duplicates : forall b, NoDup (calc_dihedrals b).
Proof. exact dihedrals_NoDup. Qed.
Print Assumptions C19_dihedrals_no_duplicates.
(* the model's node and neighbour order (networkx insertion order) is tied to the implementation by the exhaustive correspondence run
   (all triangle-free graphs on <= 4 / <= 5 atoms, random larger ones); the theorems above do not depend on that order *)
Example C19_nonvacuous :
  calc_angles [(0, 1); (1, 2); (2, 1); (3, 1)] = [[0; 1; 2]; [0; 1; 3]; [2; 1; 3]] /\
  length (calc_dihedrals [(0, 1); (1, 2); (2, 3); (1, 4)]) = 2 /\
  fst (assign (bond_keys [5; 7; 5] [[0; 1]; [2; 1]; [1; 0]])) = [0; 0; 0].
Proof. vm_compute. repeat split. Qed.
