(* C17 -- Bond detection equals the minimum-image covalent-radius rule.
   Model: Model/Bonds.v (cutoff100 = max_bond_length x 100, detect), generic in the radius table; the instance for the
   repository's current COVALENT_RADII / NON_METALS is pertree/C17_tables.v (regenerated on every run). *)
From Coq Require Import ZArith List Bool String Arith Sorted.
From Mofun Require Import Model.Atoms Model.Geom Model.Bonds Proofs.BondsProofs.
Import ListNotations.
Open Scope Z_scope.

(* exactly the pairs i<j whose atoms are bonded *)
Theorem C17_spec : forall radii non_metals U cell atoms l, detect radii non_metals U cell atoms = Some l ->
  forall p q, In (p, q) l <-> (p < q)%nat /\ exists a b, nth_error atoms p = Some a /\ nth_error atoms q = Some b /\ bonded radii non_metals U cell a b = Some true.
Proof. exact detect_spec. Qed.
Print Assumptions C17_spec.

(* each pair is reported once, with the lower index first, in lexicographic order *)
Theorem C17_each_pair_once_in_order : forall radii non_metals U cell atoms l, detect radii non_metals U cell atoms = Some l ->
  StronglySorted pair_lt l /\ NoDup l.
Proof. exact detect_sorted. Qed.
Print Assumptions C17_each_pair_once_in_order.

(* minimum image: for atoms inside the cell and a criterion that only holds below every perpendicular cell width (the largest
   cutoff), "some lattice translate is within the cutoff" <-> "one of the 27 neighbour translates is" *)
Theorem C17_27_images_suffice : forall c x y (p : Z -> bool),
  0 < det3 c -> inside c x -> inside c y ->
  (forall d, p d = true -> d * n2 (dual0 c) < det3 c * det3 c /\ d * n2 (dual1 c) < det3 c * det3 c /\ d * n2 (dual2 c) < det3 c * det3 c) ->
  ((exists i j k : Z, p (d2 (vadd x (lattice c i j k)) y) = true) <-> existsb (fun o => p (d2 (vadd x o) y)) (offsets27 c) = true).
Proof. exact min_image_27. Qed.
Print Assumptions C17_27_images_suffice.

(* unchanged when the whole structure is shifted and atoms are moved by lattice vectors (wrapped back) *)
Theorem C17_shift_wrap_invariant : forall c x y t a1 a2 a3 b1 b2 b3 (p : Z -> bool),
  (exists i j k : Z, p (d2 (vadd (vadd (vadd x t) (lattice c a1 a2 a3)) (lattice c i j k)) (vadd (vadd y t) (lattice c b1 b2 b3))) = true) <->
  (exists i j k : Z, p (d2 (vadd x (lattice c i j k)) y) = true).
Proof. exact min_image_shift_invariant. Qed.
Print Assumptions C17_shift_wrap_invariant.

Theorem C17_cutoff_bounded : forall radii nm e1 e2 c, cutoff100 radii nm e1 e2 = Some c -> c <= 2 * max_radius radii + 45.
Proof. exact cutoff_le. Qed.
Print Assumptions C17_cutoff_bounded.

(* non-vacuity: C-C 1.96 A apart only through the corner image is bonded, Zn-Zn at 2.6 A is not *)
Example C17_nonvacuous :
  let radii := [("C", 76); ("Zn", 122)]%string in let nm := ["C"]%string in
  let cell := Some ((40960, 0, 0), (0, 40960, 0), (0, 0, 40960)) in
  detect radii nm 4096 cell [("C"%string, (100, 100, 100)); ("C"%string, (40960 - 4536, 40960 - 4536, 40960 - 4536)); ("Zn"%string, (20000, 20000, 20000)); ("Zn"%string, (20000 + 10650, 20000, 20000))]
  = Some [(0%nat, 1%nat)].
Proof. vm_compute. reflexivity. Qed.
