(* C15 -- P1 CIF files round-trip.
   Model: Model/Cif.v, the DISCRETE part: atom-site labels, terms written as label tuples and read back through list.index, torsions =
   dihedrals followed by impropers, the space-group guard.  The numerical part (cell lengths/angles via arccos and cellpar_to_cell,
   fractional coordinates via a matrix inverse, "%.4f", wrapping modulo 1) and the CIF text (PyCifRW) are NOT modelled: they are
   exercised on every run (write, read back, compare to the printed precision; three generations of text; agreement with ASE's reader;
   uncertainty parentheses; Cartesian files).  PARTIAL accordingly. *)
From Coq Require Import List Arith Bool String.
From Mofun Require Import Model.Cif Proofs.CifProofs.
Import ListNotations.
Open Scope string_scope.

(* for element symbols without digits the generated atom-site labels are pairwise distinct ... *)
Theorem C15_labels_distinct : forall els, Forall (fun e => digit_free e = true) els -> NoDup (labels els).
Proof. exact labels_nodup. Qed.
Print Assumptions C15_labels_distinct.
Theorem C15_label_injective : forall e1 e2 n1 n2, digit_free e1 = true -> digit_free e2 = true ->
  e1 ++ string_of_nat n1 = e2 ++ string_of_nat n2 -> e1 = e2 /\ n1 = n2.
Proof. exact label_injective. Qed.
Print Assumptions C15_label_injective.

(* ... hence every bond, angle and torsion written as labels is read back between the same atoms *)
Theorem C15_terms_roundtrip : forall labs terms, NoDup labs -> Forall (fun t => Forall (fun i => i < List.length labs) t) terms ->
  read_terms labs (write_terms labs terms) = Some terms.
Proof. exact read_write_terms. Qed.
Print Assumptions C15_terms_roundtrip.

(* the hypothesis is needed: element names that end in digits (e.g. LAMMPS type numbers used as elements) collide *)
Example C15_digit_elements_collide : "C1" ++ string_of_nat 1 = "C" ++ string_of_nat 11.
Proof. exact label_collision. Qed.

(* a non-P1 space group is rejected, P1 / P 1 / no tag accepted *)
Theorem C15_space_group_guard : forall tag, accepts_space_group tag = true <-> (tag = None \/ tag = Some "P1" \/ tag = Some "P 1").
Proof. exact guard_spec. Qed.
Print Assumptions C15_space_group_guard.

Example C15_nonvacuous :
  labels ["C"; "H"; "C"; "Zr"; "H"] = ["C1"; "H1"; "C2"; "Zr1"; "H2"] /\
  read_terms (labels ["C"; "H"; "C"]) (write_terms (labels ["C"; "H"; "C"]) [[0; 1]; [2; 1; 0]]) = Some [[0; 1]; [2; 1; 0]].
Proof. vm_compute. split; reflexivity. Qed.
