(* C02 -- Every occurrence is found exactly once, also across periodic boundaries.
   Proved (all inputs, all rot/pick): no atom group is reported twice; nothing outside the tolerance is reported (= C01_sound).
   Proved relative to the rotation check: the candidate enumeration is complete and every accepted candidate's group is reported.
   NOT proved (partial): that the rotation handed to the check is acceptable for every true copy.  It depends on the floating-point
   quaternion construction (arccos, half-angle sines, a random perpendicular axis in the antiparallel case), which enters the
   model only as the parameter `rot`; the check validates it on every run: every planted copy must come back from the real code
   and from the model with the integer construction rot_model. *)
From Coq Require Import ZArith List Bool Arith.
From Mofun Require Import Model.Atoms Model.Geom Model.Find Proofs.FindProofs Proofs.FindComplete.
Import ListNotations.
Open Scope Z_scope.

(* each distinct atom group at most once: the sorted index tuples of the outputs are pairwise different *)
Theorem C02_unique : forall rot pick S cell P tol rtol hints, NoDup (map okey (find rot pick S cell P tol rtol hints)).
Proof. exact find_unique. Qed.
Print Assumptions C02_unique.

(* the reported groups are exactly the candidate groups (grouped by sorted atom set) that contain an ordering accepted by the
   rotation check -- symmetry-equivalent orderings fall into one group and yield one match *)
Theorem C02_one_match_per_accepted_group_partial : forall rot pick S cell P tol rtol hints,
  map okey (find rot pick S cell P tol rtol hints) = map fst (filter (has_good rot P tol rtol hints) (groups S cell P tol)).
Proof. exact find_keys. Qed.
Print Assumptions C02_one_match_per_accepted_group_partial.

Theorem C02_no_spurious : forall rot pick S cell P tol rtol hints idx pos q,
  In (idx, pos, q) (find rot pick S cell P tol rtol hints) ->
  qn2 q <> 0 /\ Forall (fun px => atom_close q tol rtol (nth (a1 P hints) pos (0,0,0)) (fst px) (snd px)) (combine (Prel P hints) pos).
Proof. intros. pose proof (find_sound _ _ _ _ _ _ _ _ _ _ _ H) as [_ [_ [_ [_ [A B]]]]]. split; assumption. Qed.
Print Assumptions C02_no_spurious.

(* completeness relative to the rotation check.  (1) The candidate enumeration is complete: every tuple made of a home-cell first atom
   among the near images, further atoms among the images near it, with the pattern's elements position by position and every pairwise
   distance close to the pattern's, IS a candidate.  (2) Every candidate that the rotation check accepts has its atom group among the
   reported matches.  What remains outside the theorem is only that `rot` (the float quaternion construction) produces an acceptable
   rotation for a true occurrence, and that the near window contains the occurrence -- both validated on every planted copy. *)
Theorem C02_candidates_complete : forall S cell P tol p0 rest g0 x0 ext,
  P = p0 :: rest -> In (g0, (fst p0, x0)) (near S cell P tol) -> (g0 < length S)%nat ->
  Forall2 (member_of (nearby S cell P tol x0)) ext rest -> dist_ok P tol 1 ((g0, x0) :: ext) ->
  In ((g0, x0) :: ext) (cands S cell P tol).
Proof. exact cands_complete. Qed.
Print Assumptions C02_candidates_complete.
Theorem C02_accepted_candidates_are_reported : forall S cell P tol rot pick rtol hints c q,
  In c (cands S cell P tol) -> accept rot P tol rtol hints c = Some q -> In (key S c) (map okey (find rot pick S cell P tol rtol hints)).
Proof. exact find_complete. Qed.
Print Assumptions C02_accepted_candidates_are_reported.

(* non-vacuity: a symmetric square found once although 8 orderings are candidates *)
Example C02_nonvacuous :
  let S := [(0%nat, (400, 400, 400)); (0%nat, (6544, 400, 400)); (0%nat, (6544, 6544, 400)); (0%nat, (400, 6544, 400))] in
  let cell := ((40960, 0, 0), (0, 40960, 0), (0, 0, 40960)) in
  let P := [(0%nat, (0, 0, 0)); (0%nat, (6144, 0, 0)); (0%nat, (6144, 6144, 0)); (0%nat, (0, 6144, 0))] in
  let tol := {| tn := 4096; td := 20 |} in
  (length (cands S cell P tol), map okey (find (rot_model None (a1 P None) (a2 P None)) (fun _ => 0%nat) S cell P tol 100000 None)) =
  (8%nat, [[0%nat; 1%nat; 2%nat; 3%nat]]).
Proof. vm_compute. reflexivity. Qed.
