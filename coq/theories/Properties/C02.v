(* C02 -- Every occurrence is found exactly once, also across periodic boundaries.
   Proved (all inputs, all rot/pick): no atom group is reported twice; nothing outside the tolerance is reported (= C01_sound).
   NOT proved (partial): completeness -- that every rotated/translated copy IS reported.  It depends on the floating-point
   quaternion construction (arccos, half-angle sines, a random perpendicular axis in the antiparallel case), which enters the
   model only as the parameter `rot`; the check validates it on every run: every planted copy must come back from the real code
   and from the model with the integer construction rot_model. *)
From Coq Require Import ZArith List Bool Arith.
From Mofun Require Import Model.Atoms Model.Geom Model.Find Proofs.FindProofs.
Import ListNotations.
Open Scope Z_scope.

(* each distinct atom group at most once: the sorted index tuples of the outputs are pairwise different *)
Theorem C02_unique : forall rot pick S cell P tol rtol hints, NoDup (map okey (find rot pick S cell P tol rtol hints)).
Proof. exact find_unique. Qed.
Print Assumptions C02_unique.

(* the reported groups are exactly the candidate groups (grouped by sorted atom set) that contain an ordering accepted by the
   rotation check -- symmetry-equivalent orderings fall into one group and yield one match *)
Theorem C02_one_match_per_accepted_group_partial : forall rot pick S cell P tol rtol hints,
  map okey (find rot pick S cell P tol rtol hints) = map fst (filter (has_good rot P tol rtol hints) (groups S cell P tol)).
Proof. exact find_keys. Qed.
Print Assumptions C02_one_match_per_accepted_group_partial.

Theorem C02_no_spurious : forall rot pick S cell P tol rtol hints idx pos q,
  In (idx, pos, q) (find rot pick S cell P tol rtol hints) ->
  qn2 q <> 0 /\ Forall (fun px => atom_close q tol rtol (nth (a1 P hints) pos (0,0,0)) (fst px) (snd px)) (combine (Prel P hints) pos).
Proof. intros. pose proof (find_sound _ _ _ _ _ _ _ _ _ _ _ H) as [_ [_ [_ [_ [A B]]]]]. split; assumption. Qed.
Print Assumptions C02_no_spurious.

(* non-vacuity: a symmetric square found once although 8 orderings are candidates *)
Example C02_nonvacuous :
  let S := [(0%nat, (400, 400, 400)); (0%nat, (6544, 400, 400)); (0%nat, (6544, 6544, 400)); (0%nat, (400, 6544, 400))] in
  let cell := ((40960, 0, 0), (0, 40960, 0), (0, 0, 40960)) in
  let P := [(0%nat, (0, 0, 0)); (0%nat, (6144, 0, 0)); (0%nat, (6144, 6144, 0)); (0%nat, (0, 6144, 0))] in
  let tol := {| tn := 4096; td := 20 |} in
  (length (cands S cell P tol), map okey (find (rot_model None (a1 P None) (a2 P None)) (fun _ => 0%nat) S cell P tol 100000 None)) =
  (8%nat, [[0%nat; 1%nat; 2%nat; 3%nat]]).
Proof. vm_compute. reflexivity. Qed.
