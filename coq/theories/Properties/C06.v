(* C06 -- Force-field terms and coefficients of the replacement arrive intact.
   The replacement model is literally: extend_types once, then for every selected match one `extend` with those offsets and the
   match's identity map, then one `delitem`.  So, per match, C11_terms says which rows exist afterwards (pattern terms re-targeted, type +
   offset; same-atom old terms superseded forwards/backwards; all others untouched), C11_new_type_resolves_to_others_text /
   C09_new_atom_id_means_others_text say what the new ids resolve to, and C10_terms says what the final deletion keeps.
   PARTIAL: the composed statement over all matches ("exactly these terms, no others") is not proved as one theorem; it is evaluated on
   every run against the implementation's output (resolved coefficient text) and the model.
   KNOWN FINDING D10: for atom types the compatibility hypothesis fails in the documented CIF workflow -- witness below. *)
From Coq Require Import List Arith Bool ZArith.
From Mofun Require Import Lib.NP Model.Atoms Model.Geom Model.Replace Proofs.DelProofs Proofs.ExtProofs Proofs.WFProofs Proofs.ReplaceProofs.
Import ListNotations.

Theorem C06_new_term_type_resolves : forall k ko t d, compat_kind k ->
  nth (num_types k + t) (k_coef k ++ k_coef ko) d = nth t (k_coef ko) d.
Proof. exact resolve_new. Qed.
Print Assumptions C06_new_term_type_resolves.

Theorem C06_terms_per_match : forall off phi k ko, kind_sized k -> kind_sized ko -> k_tup ko <> [] ->
  let new := map (map phi) (k_tup ko) in
  rows (extend_kind off phi k ko) =
    filter (fun r => negb (overridden new (fst r))) (combine (k_tup k) (combine (k_typ k) (xf_self k ko)))
    ++ combine new (combine (map (Nat.add off) (k_typ ko)) (xf_other k ko))
  /\ k_xl (extend_kind off phi k ko) = merge_labels (k_xl k) (k_xl ko)
  /\ k_coef (extend_kind off phi k ko) = k_coef k.
Proof. exact extend_kind_rows. Qed.
Print Assumptions C06_terms_per_match.

Theorem C06_terms_touching_removed_atoms_disappear : forall ds k, NoDup ds -> kind_sized k ->
  rows (delitem_kind ds k) = map (fun r => (map (ren ds) (fst r), snd r)) (filter (fun r => negb (touches ds (fst r))) (rows k)).
Proof. exact delitem_kind_rows. Qed.
Print Assumptions C06_terms_touching_removed_atoms_disappear.

Theorem C06_atom_types_of_the_pattern : forall (t1 t2 : list Z) t d, nth (length t1 + t) (t1 ++ t2) d = nth t t2 d.
Proof. exact atom_table_resolve. Qed.
Print Assumptions C06_atom_types_of_the_pattern.

(* D10 (known finding): a structure with one atom type and NO pair table, a pattern with one type and a pair coefficient: the inserted
   atom gets type id 1, the merged pair table has a single entry at index 0, so the inserted atom resolves to no pair text at all and
   the entry that exists is attributed to the structure's own type *)
Example C06_refuted_pair_coeffs :
  let S := mk_atoms [(0,0,0)%Z] [0] [0%Z] [0%Z] [[]] [] [6%Z] [12%Z] [6%Z] [] empty_kind empty_kind empty_kind empty_kind None in
  let P := mk_atoms [(0,0,0)%Z] [0] [0%Z] [0%Z] [[]] [] [6%Z] [12%Z] [6%Z] [] empty_kind empty_kind empty_kind empty_kind None in
  let R := mk_atoms [(0,0,0)%Z] [0] [0%Z] [0%Z] [[]] [] [9%Z] [19%Z] [9%Z] [77%Z] empty_kind empty_kind empty_kind empty_kind None in
  match replace_from S P R false false [mk_smatch [0] [(0,0,0)%Z]] with
  | Ok S' _ => (pair_of S' 0, t_pair S', a_typ S') = (DOT, [77%Z], [1]) /\ pair_of R 0 = 77%Z
  | Overlap => False
  end.
Proof. vm_compute. split; reflexivity. Qed.
