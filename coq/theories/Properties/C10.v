(* C10 -- Deleting atoms removes exactly them and the terms that touch them.
   Model: Model/Atoms.v (delitem, pop), mirroring Atoms.__delitem__ / _delete_and_reindex_atom_index_array / pop. *)
From Coq Require Import List Arith Bool ZArith Permutation.
From Mofun Require Import Lib.NP Model.Atoms Proofs.DelProofs.
Import ListNotations.

(* exactly the listed atoms are removed; all other atoms keep their data and their relative order:
   every per-atom array is the original one read at the indices 0..n-1 that are not deleted, in increasing order;
   type-level tables, labels and the cell are untouched *)
Theorem C10_atoms : forall a ds, atoms_sized a ->
  let K := filter (fun i => negb (memb i ds)) (seq 0 (natoms a)) in
  a_pos (delitem a ds) = map (fun i => nth i (a_pos a) (0, 0, 0)%Z) K /\
  a_typ (delitem a ds) = map (fun i => nth i (a_typ a) 0) K /\
  a_chg (delitem a ds) = map (fun i => nth i (a_chg a) 0%Z) K /\
  a_grp (delitem a ds) = map (fun i => nth i (a_grp a) 0%Z) K /\
  a_xf (delitem a ds) = map (fun i => nth i (a_xf a) []) K /\
  a_xl (delitem a ds) = a_xl a /\ t_el (delitem a ds) = t_el a /\ t_mass (delitem a ds) = t_mass a /\
  t_lab (delitem a ds) = t_lab a /\ t_pair (delitem a ds) = t_pair a /\ a_cell (delitem a ds) = a_cell a.
Proof. exact delitem_atoms. Qed.
Print Assumptions C10_atoms.

(* a term survives iff none of its atoms was deleted; survivors keep their order, type and extra fields,
   and their atom indices are renamed by ren ds (v minus the number of deleted indices below v) *)
Theorem C10_terms : forall ds k, NoDup ds -> kind_sized k ->
  rows (delitem_kind ds k) =
  map (fun r => (map (ren ds) (fst r), snd r)) (filter (fun r => negb (touches ds (fst r))) (rows k))
  /\ k_xl (delitem_kind ds k) = k_xl k /\ k_coef (delitem_kind ds k) = k_coef k.
Proof. intros ds k H1 H2. split; [exact (delitem_kind_rows ds k H1 H2)|exact (delitem_kind_tables ds k)]. Qed.
Print Assumptions C10_terms.

(* delitem applies delitem_kind to each of the four kinds *)
Theorem C10_kinds : forall a ds,
  bonds (delitem a ds) = delitem_kind ds (bonds a) /\ angles (delitem a ds) = delitem_kind ds (angles a) /\
  dihedrals (delitem a ds) = delitem_kind ds (dihedrals a) /\ impropers (delitem a ds) = delitem_kind ds (impropers a).
Proof. intros. repeat split. Qed.
Print Assumptions C10_kinds.

(* the renamed index denotes the same physical atom: what was at v is at ren ds v afterwards *)
Theorem C10_same_physical_atom : forall a ds v, NoDup ds -> v < natoms a -> ~ In v ds ->
  nth (ren ds v) (a_pos (delitem a ds)) (0, 0, 0)%Z = nth v (a_pos a) (0, 0, 0)%Z.
Proof. intros a ds v H1 H2 H3. exact (nth_np_delete_ren (0, 0, 0)%Z (a_pos a) ds v H1 H2 H3). Qed.
Print Assumptions C10_same_physical_atom.

(* any order of listing *)
Theorem C10_listing_order : forall a ds ds', NoDup ds -> Permutation ds ds' -> delitem a ds = delitem a ds'.
Proof. exact delitem_perm. Qed.
Print Assumptions C10_listing_order.

(* pop removes the selected atom (negative positions from the end) *)
Theorem C10_pop : forall a pos, (- Z.of_nat (natoms a) <= pos < Z.of_nat (natoms a))%Z ->
  pop a pos = delitem a [Z.to_nat (pos mod Z.of_nat (natoms a))].
Proof. exact pop_spec. Qed.
Print Assumptions C10_pop.

(* the realistic mutant "re-index in ascending order" does not meet the specification *)
Example C10_ascending_is_wrong : reindex_asc [1;2] [[0;3]] <> map (map (ren [1;2])) [[0;3]].
Proof. exact ascending_is_wrong. Qed.

(* non-vacuity: interleaved survivors, unsorted index list *)
Example C10_nonvacuous :
  let k := mk_kind [[0;1];[1;2];[2;4];[4;5]] [0;1;0;1] [[7%Z];[8%Z];[9%Z];[10%Z]] [1%Z] [5%Z;6%Z] in
  NoDup [3;1] /\ kind_sized k /\ rows (delitem_kind [3;1] k) = [([1;2], (0, [9%Z])); ([2;3], (1, [10%Z]))].
Proof. cbv zeta. split; [repeat constructor; cbn; intuition discriminate|]. split; [split; reflexivity|]. vm_compute. reflexivity. Qed.
