(* C12 -- Replication describes the same crystal in a larger cell.
   Model: Model/Atoms.v (replicate = fold of extend over the multiplier triples, zero type offsets, empty identity map). *)
From Coq Require Import List Arith Bool ZArith.
From Mofun Require Import Lib.NP Model.Atoms Proofs.DelProofs Proofs.ExtProofs Proofs.ReplProofs Proofs.WFProofs Proofs.ReplTermsProofs.
Import ListNotations.

(* a*b*c*N atoms: the original atoms, translated by i*A + j*B + k*C, once per multiplier triple (0,0,0 first), each with identical
   type, charge and group; type tables unchanged; new cell rows a*A, b*B, c*C *)
Theorem C12_atoms_and_cell : forall a c r, a_cell a = Some c -> atoms_sized a ->
  exists R, replicate a r = Some R /\
  a_pos R = flat_map (fun m => map (fun p => vadd p (offs_vec c m)) (a_pos a)) (all_mults r) /\
  a_typ R = flat_map (fun _ => a_typ a) (all_mults r) /\
  a_chg R = flat_map (fun _ => a_chg a) (all_mults r) /\
  a_grp R = flat_map (fun _ => a_grp a) (all_mults r) /\
  t_el R = t_el a /\ t_mass R = t_mass a /\ t_lab R = t_lab a /\ t_pair R = t_pair a /\
  a_cell R = Some (scale_rows c r).
Proof. exact replicate_spec. Qed.
Print Assumptions C12_atoms_and_cell.

(* the multiplier triples are exactly 0<=i<a, 0<=j<b, 0<=k<c, each once *)
Theorem C12_every_offset_once : forall r i j k, 0 < fst (fst r) -> 0 < snd (fst r) -> 0 < snd r ->
  (In (i, j, k) (all_mults r) <-> (let '(ra, rb, rc) := r in i < ra /\ j < rb /\ k < rc)) /\ NoDup (all_mults r).
Proof. intros r i j k H1 H2 H3. split; [exact (in_all_mults r i j k H1 H2 H3)|exact (ucmults_nodup r)]. Qed.
Print Assumptions C12_every_offset_once.

(* the infinite crystal is unchanged: positions modulo the new lattice = positions modulo the old lattice, for any cell shape *)
Theorem C12_same_crystal : forall a c ra rb rc R, a_cell a = Some c -> atoms_sized a -> 0 < ra -> 0 < rb -> 0 < rc ->
  replicate a (ra, rb, rc) = Some R ->
  forall x, in_crystal (scale_rows c (ra, rb, rc)) (a_pos R) x <-> in_crystal c (a_pos a) x.
Proof. exact replicate_same_crystal. Qed.
Print Assumptions C12_same_crystal.

Theorem C12_identity : forall a c, a_cell a = Some c -> replicate a (1, 1, 1) = Some a.
Proof. exact replicate_111. Qed.
Print Assumptions C12_identity.

(* terms: a shifted copy never coincides with an existing tuple, so no term is superseded while replicating *)
Theorem C12_copies_supersede_nothing : forall n new t,
  t <> [] -> Forall (fun v => v < n) t -> Forall (fun u => Forall (fun v => n <= v) u) new -> overridden new t = false.
Proof. exact not_overridden_shift. Qed.
Print Assumptions C12_copies_supersede_nothing.

(* every bond, angle, dihedral and improper is copied within each image with its type: image number i (0 = the original, then the
   multiplier triples in order) carries the original's tuples shifted by i * N; types are repeated per image; coefficient tables
   are unchanged.  (Tuples are non-empty, as every real term is.) *)
Theorem C12_terms_copied_per_image : forall a c r R, a_cell a = Some c -> WF a ->
  nonempty_tuples (bonds a) -> nonempty_tuples (angles a) -> nonempty_tuples (dihedrals a) -> nonempty_tuples (impropers a) ->
  replicate a r = Some R ->
  let M := length (all_mults r) in let n := natoms a in
  let img (k : kind) := flat_map (fun i => shift_tups (i * n) (k_tup k)) (seq 0 M) in
  let typ (k : kind) := flat_map (fun _ => k_typ k) (seq 0 M) in
  (k_tup (bonds R) = img (bonds a) /\ k_typ (bonds R) = typ (bonds a) /\ k_coef (bonds R) = k_coef (bonds a)) /\
  (k_tup (angles R) = img (angles a) /\ k_typ (angles R) = typ (angles a) /\ k_coef (angles R) = k_coef (angles a)) /\
  (k_tup (dihedrals R) = img (dihedrals a) /\ k_typ (dihedrals R) = typ (dihedrals a) /\ k_coef (dihedrals R) = k_coef (dihedrals a)) /\
  (k_tup (impropers R) = img (impropers a) /\ k_typ (impropers R) = typ (impropers a) /\ k_coef (impropers R) = k_coef (impropers a)).
Proof. exact replicate_terms. Qed.
Print Assumptions C12_terms_copied_per_image.

(* consequently no term of the replicated structure joins atoms of two different images: each of its tuples is an original tuple moved
   into exactly one image i < M (every index has quotient i by N, and the remainders by N spell an original tuple), every original
   tuple appears in every image, and each kind has exactly M times as many terms as before *)
Theorem C12_terms_within_one_image : forall a c r R, a_cell a = Some c -> WF a ->
  nonempty_tuples (bonds a) -> nonempty_tuples (angles a) -> nonempty_tuples (dihedrals a) -> nonempty_tuples (impropers a) ->
  replicate a r = Some R ->
  let M := length (all_mults r) in let n := natoms a in
  per_image n M (bonds a) (bonds R) /\ per_image n M (angles a) (angles R) /\
  per_image n M (dihedrals a) (dihedrals R) /\ per_image n M (impropers a) (impropers R).
Proof. exact replicate_terms_within_images. Qed.
Print Assumptions C12_terms_within_one_image.

(* counts: a*b*c*N atoms and a*b*c times as many bonds, angles, dihedrals and impropers *)
Theorem C12_counts : forall a c ra rb rc R, a_cell a = Some c -> WF a ->
  nonempty_tuples (bonds a) -> nonempty_tuples (angles a) -> nonempty_tuples (dihedrals a) -> nonempty_tuples (impropers a) ->
  0 < ra -> 0 < rb -> 0 < rc -> replicate a (ra, rb, rc) = Some R ->
  let M := ra * rb * rc in
  natoms R = M * natoms a /\
  length (k_tup (bonds R)) = M * length (k_tup (bonds a)) /\ length (k_tup (angles R)) = M * length (k_tup (angles a)) /\
  length (k_tup (dihedrals R)) = M * length (k_tup (dihedrals a)) /\ length (k_tup (impropers R)) = M * length (k_tup (impropers a)).
Proof. exact replicate_counts. Qed.
Print Assumptions C12_counts.

(* pointwise: atom number q*N + v of the result (q-th multiplier triple, v-th original atom) is the original atom v translated by that
   triple's lattice vector, with the same type id, charge and group, and the type id resolves to the same element, mass, label and pair
   coefficients as in the original *)
Theorem C12_atom_by_atom : forall a c r, a_cell a = Some c -> atoms_sized a ->
  exists R, replicate a r = Some R /\
  forall q v, q < length (all_mults r) -> v < natoms a ->
    let i := q * natoms a + v in
    nth i (a_pos R) (0, 0, 0)%Z = vadd (nth v (a_pos a) (0, 0, 0)%Z) (offs_vec c (nth q (all_mults r) (0, 0, 0))) /\
    nth i (a_typ R) 0 = nth v (a_typ a) 0 /\ nth i (a_chg R) 0%Z = nth v (a_chg a) 0%Z /\ nth i (a_grp R) 0%Z = nth v (a_grp a) 0%Z /\
    element_of R i = element_of a v /\ mass_of R i = mass_of a v /\ label_of R i = label_of a v /\ pair_of R i = pair_of a v.
Proof. exact replicate_pointwise. Qed.
Print Assumptions C12_atom_by_atom.

(* before fix D3 the cell was scaled column-wise; the row-wise model differs from it on a tilted cell with unequal factors *)
Example C12_column_scaling_is_wrong :
  let c := ((10, 0, 0), (2, 9, 0), (1, 3, 8))%Z in
  scale_rows c (1, 2, 3) = ((10, 0, 0), (4, 18, 0), (3, 9, 24))%Z /\ scale_rows c (1, 2, 3) <> ((10, 0, 0), (2, 18, 0), (1, 6, 24))%Z.
Proof. split; [reflexivity|discriminate]. Qed.

Example C12_nonvacuous :
  let a := mk_atoms [(1,2,3)%Z; (4,5,6)%Z] [0;1] [0%Z;1%Z] [0%Z;0%Z] [[];[]] [] [1%Z;2%Z] [3%Z;4%Z] [5%Z;6%Z] []
             (mk_kind [[0;1]] [0] [[]] [] []) empty_kind empty_kind (mk_kind [[0;1;0;1]] [0] [[]] [] [])
             (Some ((10,0,0),(2,9,0),(1,3,8))%Z) in
  option_map (fun R => (length (a_pos R), k_tup (bonds R), k_tup (impropers R))) (replicate a (2, 1, 1)) =
  Some (4, [[0;1];[2;3]], [[0;1;0;1];[2;3;2;3]]).
Proof. vm_compute. reflexivity. Qed.
