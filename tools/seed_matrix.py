#!/usr/bin/env python3
"""Runs every seeded change against a set of checks, each in its own scratch worktree of /repo (VERIF_REPO) with evidence and
replays redirected (VERIF_OUT), several at a time; records the outcome in seeded/<id>/meta.json.  Not part of any registered check.

usage: seed_matrix.py [--jobs N] [--props own|Cxx,Cyy] [ids...]"""
import json
import os
import shutil
import subprocess
import sys
from concurrent.futures import ThreadPoolExecutor

VERIF = os.path.dirname(os.path.dirname(os.path.abspath(__file__)))
REPO = "/repo"
EXTRA = {  # other checks that are expected to notice the change as well
    "C02a": ["C03"], "C03b": ["C02"], "C05b": ["C01"], "C06a": ["C09", "C13"], "C06b": ["C11", "C08"], "C08a": ["C05", "C04"], "C08b": ["C06", "C11"],
    "C09a": ["C13", "C06"], "C09b": ["C11"], "C04a": ["C05"], "C13b": ["C09"], "C11a": ["C06"], "C09c": ["C11"],
}


def sh(cmd, **kw):
    return subprocess.run(cmd, stdout=subprocess.PIPE, stderr=subprocess.STDOUT, text=True, **kw)


def one(sid, props):
    d = os.path.join(VERIF, "seeded", sid)
    wt = "/tmp/seedmx-%s" % sid
    out = "/tmp/seedmx-out-%s" % sid
    sh(["git", "-C", REPO, "worktree", "remove", "--force", wt])
    shutil.rmtree(wt, ignore_errors=True)
    shutil.rmtree(out, ignore_errors=True)
    r = sh(["git", "-C", REPO, "worktree", "add", "--detach", wt, "HEAD"])
    res = {}
    try:
        r = sh(["git", "-C", wt, "apply", os.path.join(d, "patch.diff")])
        if r.returncode != 0:
            return sid, {"error": "patch does not apply: " + r.stdout[-200:]}
        for p in props:
            env = dict(os.environ, VERIF_REPO=wt, VERIF_OUT=out, PYTHONPATH=wt, VERIF_NPROC="4")
            r = sh([os.path.join(VERIF, "check"), p, "--tier", "quick"], cwd=VERIF, env=env)
            vio = [l for l in r.stdout.splitlines() if l.startswith("VIOLATION")]
            res[p] = {"detected": r.returncode == 1 and len(vio) > 0, "exit": r.returncode, "n_violation_lines": len(vio),
                      "with_failing_input": any("no-failing-input-found" not in l for l in vio), "first": (vio or [None])[0],
                      "seed": os.environ.get("VERIF_SEED", "default")}
    finally:
        sh(["git", "-C", REPO, "worktree", "remove", "--force", wt])
        shutil.rmtree(wt, ignore_errors=True)
        shutil.rmtree(out, ignore_errors=True)
    mp = os.path.join(d, "meta.json")
    meta = json.load(open(mp))
    det = meta.get("detected_by") or {}
    det.update(res)
    meta["detected_by"] = det
    meta["what_was_run"] = ("scratch worktree of /repo HEAD with patch.diff applied; VERIF_REPO=<worktree> ./check <id> --tier quick "
                            "(evidence and replays redirected with VERIF_OUT); worktree removed afterwards")
    json.dump(meta, open(mp, "w"), indent=1)
    return sid, res


def main():
    args = sys.argv[1:]
    jobs = 4
    props = "own"
    ids = []
    while args:
        a = args.pop(0)
        if a == "--jobs":
            jobs = int(args.pop(0))
        elif a == "--props":
            props = args.pop(0)
        else:
            ids.append(a)
    if not ids:
        ids = sorted(os.listdir(os.path.join(VERIF, "seeded")))
    work = []
    for sid in ids:
        if props == "own":
            ps = [sid[:3]] + EXTRA.get(sid, [])
        else:
            ps = props.split(",")
        work.append((sid, ps))
    with ThreadPoolExecutor(jobs) as ex:
        for sid, res in ex.map(lambda w: one(*w), work):
            print(sid, {p: (r.get("detected"), r.get("n_violation_lines"), "input" if r.get("with_failing_input") else "no-input") for p, r in res.items()} if "error" not in res else res, flush=True)


if __name__ == "__main__":
    main()
