#!/usr/bin/env python3
"""Rewrites the table of DESIGN.md section 9.6 (between the SEEDED-TABLE markers) from seeded/*/meta.json."""
import json
import os
import re

VERIF = os.path.dirname(os.path.dirname(os.path.abspath(__file__)))


def cell(s, n):
    s = re.sub(r"\s+", " ", s).replace("|", "/")
    return s[:n]


def main():
    rows = ["| id | what was changed | needs | caught by (quick tier; * = only as a broken correspondence, no failing input) |", "|----|------------------|-------|-----------|"]
    for sid in sorted(os.listdir(os.path.join(VERIF, "seeded"))):
        m = json.load(open(os.path.join(VERIF, "seeded", sid, "meta.json")))
        det = m.get("detected_by") or {}
        yes = [p + ("" if r.get("with_failing_input") else "*") for p, r in sorted(det.items()) if r.get("detected")]
        no = [p for p, r in sorted(det.items()) if not r.get("detected")]
        c = ", ".join(yes) or "-"
        if no:
            c += " ; not by " + ", ".join(no)
        rows.append("| %s | %s | %s | %s |" % (sid, cell(m["breaks"], 150), cell(m["needs_to_manifest"], 170), c))
    p = os.path.join(VERIF, "DESIGN.md")
    s = open(p).read()
    a, b = "<!-- SEEDED-TABLE-BEGIN -->", "<!-- SEEDED-TABLE-END -->"
    i, j = s.index(a) + len(a), s.index(b)
    s = s[:i] + "\n" + "\n".join(rows) + "\n" + s[j:]
    open(p, "w").write(s)
    print(len(rows) - 2, "rows")


if __name__ == "__main__":
    main()
