#!/usr/bin/env python3
"""Runs behaviour-preserving refactorings (benign/<id>/patch.diff) against the checks of the properties they could affect, each in its own
scratch worktree of /repo; a check that reports a violation on one of them is a false alarm to be investigated.  Not part of any registered check.

usage: benign_matrix.py [--jobs N] [--props Cxx,Cyy] [ids...]"""
import json
import os
import shutil
import subprocess
import sys
from concurrent.futures import ThreadPoolExecutor

VERIF = os.path.dirname(os.path.dirname(os.path.abspath(__file__)))
REPO = "/repo"
GROUPS = {
    "C01": ["C01", "C02", "C03", "C05"], "C02": ["C01", "C02", "C03", "C05"], "C03": ["C01", "C02", "C03", "C05"],
    "C04": ["C04", "C05", "C06", "C07", "C08"], "C05": ["C04", "C05", "C06", "C07", "C08"], "C06": ["C04", "C05", "C06", "C07", "C08", "C11"],
    "C07": ["C04", "C05", "C06", "C07", "C08"], "C08": ["C04", "C05", "C06", "C07", "C08"],
    "C09": ["C09", "C10", "C11", "C12", "C06", "C13"], "C10": ["C09", "C10", "C11", "C12", "C06"], "C11": ["C09", "C10", "C11", "C12", "C06"],
    "C12": ["C09", "C10", "C11", "C12", "C06"], "C13": ["C13", "C14", "C09", "C20"], "C14": ["C13", "C14", "C09"], "C15": ["C15", "C20"],
    "C16": ["C16", "C20"], "C17": ["C17"], "C18": ["C18", "C19"], "C19": ["C18", "C19"], "C20": ["C20"],
}
PYTEST = ["/venv/bin/python", "-m", "pytest", "-q", "-p", "no:cacheprovider", "--timeout=900", "-x"]


def sh(cmd, **kw):
    return subprocess.run(cmd, stdout=subprocess.PIPE, stderr=subprocess.STDOUT, text=True, **kw)


def one(bid, props):
    d = os.path.join(VERIF, "benign", bid)
    wt = "/tmp/benmx-%s" % bid
    out = "/tmp/benmx-out-%s" % bid
    sh(["git", "-C", REPO, "worktree", "remove", "--force", wt])
    shutil.rmtree(wt, ignore_errors=True)
    shutil.rmtree(out, ignore_errors=True)
    sh(["git", "-C", REPO, "worktree", "add", "--detach", wt, "HEAD"])
    res = {}
    try:
        r = sh(["git", "-C", wt, "apply", os.path.join(d, "patch.diff")])
        if r.returncode != 0:
            return bid, {"error": "patch does not apply: " + r.stdout[-200:]}
        env = dict(os.environ, PYTHONPATH=wt, PYTHONHASHSEED="0", PYTHONDONTWRITEBYTECODE="1")
        r = sh(PYTEST, cwd=wt, env=env)
        res["suite"] = {"passes": r.returncode == 0, "tail": (r.stdout.strip().splitlines() or [""])[-1]}
        for p in props:
            env = dict(os.environ, VERIF_REPO=wt, VERIF_OUT=out, PYTHONPATH=wt, VERIF_NPROC="4")
            r = sh([os.path.join(VERIF, "check"), p, "--tier", "quick"], cwd=VERIF, env=env)
            vio = [l for l in r.stdout.splitlines() if l.startswith("VIOLATION")]
            res[p] = {"alarm": r.returncode != 0 or len(vio) > 0, "exit": r.returncode, "n_violation_lines": len(vio), "first": (vio or [None])[0]}
            if res[p]["alarm"]:
                keep = os.path.join("/tmp", "benmx-keep-%s-%s" % (bid, p))
                shutil.rmtree(keep, ignore_errors=True)
                if os.path.isdir(os.path.join(out, "replays")):
                    shutil.copytree(os.path.join(out, "replays"), keep)
                open(keep + ".log", "w").write(r.stdout[-6000:])
    finally:
        sh(["git", "-C", REPO, "worktree", "remove", "--force", wt])
        shutil.rmtree(wt, ignore_errors=True)
        shutil.rmtree(out, ignore_errors=True)
    mp = os.path.join(d, "meta.json")
    meta = json.load(open(mp))
    got = meta.get("checked_by") or {}
    got.update(res)
    meta["checked_by"] = got
    json.dump(meta, open(mp, "w"), indent=1)
    return bid, res


def main():
    args = sys.argv[1:]
    jobs, props, ids = 3, None, []
    while args:
        a = args.pop(0)
        if a == "--jobs":
            jobs = int(args.pop(0))
        elif a == "--props":
            props = args.pop(0).split(",")
        else:
            ids.append(a)
    if not ids:
        ids = sorted(os.listdir(os.path.join(VERIF, "benign")))
    work = [(b, props or GROUPS[b[:3]]) for b in ids]
    with ThreadPoolExecutor(jobs) as ex:
        for bid, res in ex.map(lambda w: one(*w), work):
            print(bid, {p: ("ALARM" if r.get("alarm") else "quiet") if p != "suite" else r.get("tail") for p, r in res.items()} if "error" not in res else res, flush=True)


if __name__ == "__main__":
    main()
