#!/usr/bin/env python3
"""Helper for the seeded-change campaign (not part of any registered check).

  seedtest.py validate <dir with patch.diff + demo.py>      confirm in a scratch worktree: suite passes with the change,
                                                             demo fails with it and passes without it
  seedtest.py detect <dir> <Cxx> [<Cyy> ...]                 apply to /repo, run ./check for the properties, undo

Scratch worktrees live under /tmp/seedtest-wt and are removed afterwards."""
import json
import os
import shutil
import subprocess
import sys

REPO = "/repo"
VERIF = os.path.dirname(os.path.dirname(os.path.abspath(__file__)))
PYTEST = ["/venv/bin/python", "-m", "pytest", "-q", "-p", "no:cacheprovider", "--timeout=900", "-x"]


def sh(cmd, **kw):
    return subprocess.run(cmd, stdout=subprocess.PIPE, stderr=subprocess.STDOUT, text=True, **kw)


def validate(d):
    patch = os.path.abspath(os.path.join(d, "patch.diff"))
    demo = os.path.abspath(os.path.join(d, "demo.py"))
    wt = "/tmp/seedtest-wt-%d" % os.getpid()
    sh(["git", "-C", REPO, "worktree", "remove", "--force", wt])
    r = sh(["git", "-C", REPO, "worktree", "add", "--detach", wt, "HEAD"])
    assert r.returncode == 0, r.stdout
    res = {}
    try:
        env = dict(os.environ, PYTHONPATH=wt, PYTHONHASHSEED="0", PYTHONDONTWRITEBYTECODE="1")
        r = sh(["/venv/bin/python", demo], cwd=wt, env=env)
        res["demo_passes_without"] = r.returncode == 0
        r = sh(["git", "-C", wt, "apply", patch])
        res["applies"] = r.returncode == 0
        if res["applies"]:
            r = sh(PYTEST, cwd=wt, env=env)
            res["suite_passes_with"] = r.returncode == 0
            res["suite_tail"] = r.stdout.strip().splitlines()[-1] if r.stdout.strip() else ""
            r = sh(["/venv/bin/python", demo], cwd=wt, env=env)
            res["demo_fails_with"] = r.returncode != 0
            res["demo_output_with"] = r.stdout[-400:]
    finally:
        sh(["git", "-C", REPO, "worktree", "remove", "--force", wt])
        shutil.rmtree(wt, ignore_errors=True)
    res["valid"] = bool(res.get("demo_passes_without") and res.get("applies") and res.get("suite_passes_with") and res.get("demo_fails_with"))
    print(json.dumps(res, indent=1))
    return res


def detect(d, props, tier="quick"):
    patch = os.path.abspath(os.path.join(d, "patch.diff"))
    st = sh(["git", "-C", REPO, "status", "--porcelain", "--untracked-files=no"]).stdout.strip()
    assert st == "", "/repo has local modifications: " + st
    r = sh(["git", "-C", REPO, "apply", patch])
    assert r.returncode == 0, r.stdout
    out = {}
    saved = {}
    for p in props:
        ev = os.path.join(VERIF, "evidence", "%s.json" % p)
        saved[p] = open(ev).read() if os.path.exists(ev) else None
    try:
        for p in props:
            r = sh([os.path.join(VERIF, "check"), p, "--tier", tier], cwd=VERIF)
            vio = [l for l in r.stdout.splitlines() if l.startswith("VIOLATION")]
            out[p] = {"exit": r.returncode, "violations": vio[:5], "n_violations": len(vio),
                      "tail": r.stdout.strip().splitlines()[-1:]}
    finally:
        sh(["git", "-C", REPO, "checkout", "--", "."])
        # evidence and replays written while the seeded change was applied are not evidence about the real tree
        for p, txt in saved.items():
            ev = os.path.join(VERIF, "evidence", "%s.json" % p)
            if txt is not None:
                open(ev, "w").write(txt)
            elif os.path.exists(ev):
                os.remove(ev)
    print(json.dumps(out, indent=1))
    mp = os.path.join(d, "meta.json")
    if os.path.exists(mp):
        meta = json.load(open(mp))
        det = meta.get("detected_by") or {}
        for p, r in out.items():
            det[p] = {"detected": r["exit"] == 1 and r["n_violations"] > 0, "tier": tier,
                      "first_violation_line": (r["violations"] or [None])[0], "n_violation_lines": r["n_violations"]}
        meta["detected_by"] = det
        meta["what_was_run"] = "git -C /repo apply patch.diff; ./check <id> --tier %s; git -C /repo checkout -- ." % tier
        json.dump(meta, open(mp, "w"), indent=1)
    return out


if __name__ == "__main__":
    if sys.argv[1] == "validate":
        validate(sys.argv[2])
    elif sys.argv[1] == "detect":
        detect(sys.argv[2], sys.argv[3:])
