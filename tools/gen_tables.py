#!/usr/bin/env python3
"""Fail-closed translator: data tables of /repo/mofun -> Gallina (Tables.v).

Only literal tables are accepted: `NAME = {str: number | tuple of numbers}` or
`NAME = [str, ...]`.  Numbers are copied from their *source text* as exact decimals
(scaled integers), never through a float.  Anything else -> exit 2 (fail closed).

usage: gen_tables.py REPO OUTDIR        writes OUTDIR/Tables.v (Z tables) and OUTDIR/TablesR.v (R tables for C18)
"""
import ast
import sys
import os
from fractions import Fraction


class Closed(Exception):
    pass


def num_text(src, node):
    """exact decimal text of a numeric literal (with optional unary minus)"""
    neg = False
    if isinstance(node, ast.UnaryOp) and isinstance(node.op, ast.USub):
        neg = True
        node = node.operand
    if not (isinstance(node, ast.Constant) and isinstance(node.value, (int, float)) and not isinstance(node.value, bool)):
        raise Closed("not a numeric literal: %s" % ast.dump(node))
    txt = ast.get_source_segment(src, node)
    if txt is None:
        raise Closed("no source segment")
    txt = txt.strip().replace("_", "")
    try:
        fr = Fraction(txt)
    except Exception:
        raise Closed("unparsable numeric literal %r" % txt)
    if float(fr) != float(node.value):
        raise Closed("literal text %r does not denote %r" % (txt, node.value))
    return -fr if neg else fr


def str_of(node):
    if isinstance(node, ast.Constant) and isinstance(node.value, str):
        s = node.value
        if not s.isascii() or '"' in s:
            raise Closed("unsupported string %r" % s)
        return s
    raise Closed("not a string literal: %s" % ast.dump(node))


def find_assign(tree, name, path):
    hits = [n for n in tree.body if isinstance(n, ast.Assign) and len(n.targets) == 1
            and isinstance(n.targets[0], ast.Name) and n.targets[0].id == name]
    if len(hits) != 1:
        raise Closed("%s: expected exactly one top-level assignment of %s, found %d" % (path, name, len(hits)))
    # the name must not be mutated elsewhere at top level (augmented assignment, update calls ...)
    for n in ast.walk(tree):
        if isinstance(n, ast.AugAssign) and isinstance(n.target, ast.Name) and n.target.id == name:
            raise Closed("%s is augmented-assigned" % name)
        if isinstance(n, ast.Attribute) and isinstance(n.value, ast.Name) and n.value.id == name \
                and n.attr in ("update", "pop", "setdefault", "append", "extend", "remove", "insert", "clear", "popitem", "sort", "reverse"):
            raise Closed("%s.%s is called" % (name, n.attr))
        if isinstance(n, (ast.Assign, ast.Delete)):
            tg = n.targets
            for t in tg:
                if isinstance(t, ast.Subscript) and isinstance(t.value, ast.Name) and t.value.id == name:
                    raise Closed("%s[...] is assigned/deleted" % name)
    return hits[0].value


def load(repo, rel):
    path = os.path.join(repo, rel)
    src = open(path).read()
    return src, ast.parse(src), path


def dict_str_num(src, node):
    if not isinstance(node, ast.Dict):
        raise Closed("not a dict literal")
    out = []
    seen = set()
    for k, v in zip(node.keys, node.values):
        if k is None:
            raise Closed("dict unpacking")
        ks = str_of(k)
        if ks in seen:
            raise Closed("duplicate key %r" % ks)
        seen.add(ks)
        out.append((ks, num_text(src, v)))
    return out


def dict_str_tuple(src, node, width):
    if not isinstance(node, ast.Dict):
        raise Closed("not a dict literal")
    out = []
    seen = set()
    for k, v in zip(node.keys, node.values):
        if k is None:
            raise Closed("dict unpacking")
        ks = str_of(k)
        if ks in seen:
            raise Closed("duplicate key %r" % ks)
        seen.add(ks)
        if not isinstance(v, ast.Tuple) or len(v.elts) != width:
            raise Closed("value of %r is not a %d-tuple" % (ks, width))
        out.append((ks, [num_text(src, e) for e in v.elts]))
    return out


def list_str(node):
    if not isinstance(node, (ast.List, ast.Tuple)):
        raise Closed("not a list literal")
    return [str_of(e) for e in node.elts]


def scaled(fr, scale, what):
    v = fr * scale
    if v.denominator != 1:
        raise Closed("%s: %s has more decimals than the scale 1/%d" % (what, fr, scale))
    return int(v)


def zlit(z):
    return "(%d)" % z if z < 0 else "%d" % z


def rlit(fr):
    """exact real literal: n / d"""
    n, d = fr.numerator, fr.denominator
    s = "%d" % abs(n)
    if d != 1:
        s = "%s / %d" % (s, d)
    if n < 0:
        s = "- %s" % s
    return "(%s)" % s


MASS_SCALE = 10 ** 9
RADIUS_SCALE = 100
UFF_SCALE = 10 ** 6


def main():
    repo, outdir = sys.argv[1], sys.argv[2]
    src, tree, path = load(repo, "mofun/atomic_masses.py")
    masses = dict_str_num(src, find_assign(tree, "ATOMIC_MASSES", path))
    src, tree, path = load(repo, "mofun/detect_bonds.py")
    radii = dict_str_num(src, find_assign(tree, "COVALENT_RADII", path))
    nonmetals = list_str(find_assign(tree, "NON_METALS", path))
    src, tree, path = load(repo, "mofun/uff4mof.py")
    uff = dict_str_tuple(src, find_assign(tree, "UFF4MOF", path), 11)
    maingroup = list_str(find_assign(tree, "MAIN_GROUP_ELEMENTS", path))

    o = []
    o.append("(* GENERATED by tools/gen_tables.py from %s -- do not edit *)" % repo)
    o.append("From Coq Require Import ZArith List String.")
    o.append("Import ListNotations. Open Scope Z_scope. Open Scope string_scope.")
    o.append("Definition mass_scale : Z := %d." % MASS_SCALE)
    o.append("Definition atomic_masses : list (string * Z) := [")
    o.append(";\n".join('  ("%s", %s)' % (k, zlit(scaled(v, MASS_SCALE, "mass " + k))) for k, v in masses))
    o.append("].")
    o.append("Definition radius_scale : Z := %d." % RADIUS_SCALE)
    o.append("Definition covalent_radii : list (string * Z) := [")
    o.append(";\n".join('  ("%s", %s)' % (k, zlit(scaled(v, RADIUS_SCALE, "radius " + k))) for k, v in radii))
    o.append("].")
    o.append("Definition non_metals : list string := [%s]." % "; ".join('"%s"' % s for s in nonmetals))
    o.append("Definition main_group_elements : list string := [%s]." % "; ".join('"%s"' % s for s in maingroup))
    o.append("Definition uff_scale : Z := %d." % UFF_SCALE)
    o.append("(* r1, theta0, x1, D1, zeta, Z1, Vi, Uj, Xi, Hard, Radius -- each times uff_scale *)")
    o.append("Definition uff4mof : list (string * list Z) := [")
    o.append(";\n".join('  ("%s", [%s])' % (k, "; ".join(zlit(scaled(x, UFF_SCALE, "uff " + k)) for x in v)) for k, v in uff))
    o.append("].")
    os.makedirs(outdir, exist_ok=True)
    with open(os.path.join(outdir, "Tables.v"), "w") as f:
        f.write("\n".join(o) + "\n")

    r = []
    r.append("(* GENERATED by tools/gen_tables.py from %s -- do not edit *)" % repo)
    r.append("From Coq Require Import Reals List String.")
    r.append("Import ListNotations. Open Scope R_scope. Open Scope string_scope.")
    r.append("Definition uff4mofR : list (string * list R) := [")
    r.append(";\n".join('  ("%s", [%s])' % (k, "; ".join(rlit(x) for x in v)) for k, v in uff))
    r.append("].")
    r.append("Definition main_group_elementsR : list string := [%s]." % "; ".join('"%s"' % s for s in maingroup))
    with open(os.path.join(outdir, "TablesR.v"), "w") as f:
        f.write("\n".join(r) + "\n")
    print("tables: %d masses, %d radii, %d non-metals, %d uff types, %d main-group" %
          (len(masses), len(radii), len(nonmetals), len(uff), len(maingroup)))


if __name__ == "__main__":
    try:
        main()
    except Closed as e:
        print("gen_tables: FAIL-CLOSED: %s" % e, file=sys.stderr)
        sys.exit(2)
