#!/bin/bash
# run every claimed check's quick (or $1) tier on the current tree, sequentially; print one line per check
cd /verif
tier=${1:-quick}
for id in $(python3 -c "import json; print(' '.join(c['property_id'] for c in json.load(open('MANIFEST.json'))['checks']))"); do
  out=$(./check $id --tier $tier 2>&1); rc=$?
  echo "$id rc=$rc $(echo "$out" | grep -c '^VIOLATION') violation-lines | $(echo "$out" | grep -E 'KNOWN-FINDING' | head -2 | tr '\n' ' ') | $(echo "$out" | tail -1)"
done
