#!/usr/bin/env python3
"""Writes /verif/MANIFEST.json from the table below (so that it is always valid and current)."""
import json
import os

VERIF = os.path.dirname(os.path.dirname(os.path.abspath(__file__)))

NOTE_COMMON = ("Trusted: Coq 8.16.1 kernel and vm_compute; the hand-written Gallina model (coq/theories/Model) whose agreement with "
               "/repo is checked on every run by evaluating it on the inputs the implementation ran on (cases_*.v); the harness "
               "(generators, canonicalisation); float-vs-exact agreement away from thresholds. Print Assumptions output of every "
               "property theorem is copied into the evidence file on every run.")

CLAIMED = {
    "C14": dict(
        text="Theorems (all inputs, any table): the model of guess_elements_from_masses / load_lmpdat's fallback returns an element "
             "within tolerance that is nearest, returns none only when nothing is within tolerance, is all-or-nothing, and recovers "
             "every distinguishable element from its printed mass; the last is re-proved by reflection against the mass table "
             "regenerated from /repo on every run. Model tied to the code by an exhaustive boundary sweep (every element x both "
             "tolerances x both sides of every boundary) through both entry points.",
        design_ref="DESIGN.md section 5, C14",
        technique="Coq proof (induction over the table fold + reflection on the regenerated table) with exhaustive model/implementation correspondence under vm_compute",
        note=NOTE_COMMON + " Table translator tools/gen_tables.py (fail-closed)."),
    "C10": dict(
        text="Theorems (all structures, all NoDup index lists): per-atom arrays after deletion are the originals read at the surviving indices in "
             "increasing order; a term survives iff none of its atoms is deleted, keeping order, type and extra fields, with indices renamed by "
             "ren; ren maps each surviving atom to its new position (same physical atom); the result is independent of the listing order; pop = "
             "delete of the selected index. The literal descending re-index loop is what is modelled (ascending mutant refuted by a witness). "
             "Model tied to the code by exhaustive enumeration of every non-empty subset in two listing orders on small structures.",
        design_ref="DESIGN.md section 5, C10",
        technique="Coq proof (induction; literal re-index loop = rename by count of smaller deleted indices) with exhaustive model/implementation correspondence under vm_compute",
        note=NOTE_COMMON),
    "C09": dict(
        text="Theorems: the consistency invariant WF (one entry per atom in every per-atom array, every term row has its type and extra-field "
             "row, every term refers to existing atoms) is preserved by deletion (any NoDup index list) and by extension (default or explicit "
             "offsets, any identity map into existing atoms), hence by every history of such operations (induction over the operation list); "
             "type ids keep their meaning through extend_types (old ids resolve to old text, new ids to the other structure's text, also after "
             "a kind was emptied). 'Every type id in use has its type-level data' is the invariant Typed, preserved by delete, extend, replicate "
             "and subset; C09_full_history: WF and Typed hold after ANY history of delete / pop / extend / replicate / subset / copy whose steps "
             "meet their preconditions (a concrete six-step history shows they can be met); C09_replace: the replacement model keeps both for any "
             "selection of well-formed matches. The LAMMPS writability clause and the tie of the model to the code rest on the correspondence "
             "(model = implementation after every step of bounded-exhaustive and random histories) and on the invariant evaluated through "
             "ghost ids on the implementation's own states.",
        design_ref="DESIGN.md section 5, C09",
        technique="Coq proof (invariant preserved by each operation, induction over histories) with model/implementation correspondence after every step of generated operation histories",
        note=NOTE_COMMON + " Clauses resting on correspondence only: replicate/pop/subset preservation of WF, LAMMPS writability."),
    "C11": dict(
        text="Theorems (all structures, maps, offsets): other's non-identical atoms are appended in order, identical ones are not duplicated "
             "and adopt other's type; the index map sends each appended atom to its new position; for every kind the resulting rows are "
             "exactly [old rows not equal to a new tuple forwards or reversed] ++ [other's rows re-targeted, type + offset, extra fields "
             "matched by label]; labels merged; with extend_types' offsets new types resolve to other's coefficient text and old ones keep "
             "theirs (compatibility hypothesis shown necessary by a counterexample); zero offsets share ids. Tied to the code by exhaustive "
             "enumeration of all partial injective identity maps 3->4 x term configurations x offset modes.",
        design_ref="DESIGN.md section 5, C11",
        technique="Coq proof (np.delete/cdist override semantics characterised as filter ++ append) with exhaustive model/implementation correspondence under vm_compute",
        note=NOTE_COMMON),
    "C12": dict(
        text="Theorems (any cell shape, any factors): replicate yields, per multiplier triple (each 0<=i<a,0<=j<b,0<=k<c exactly once, NoDup), "
             "the original atoms translated by i*A+j*B+k*C with identical type/charge/group; type tables unchanged; new cell rows a*A,b*B,c*C; "
             "the set of positions modulo the new lattice equals that modulo the old lattice (infinite crystal unchanged); 1x1x1 is the "
             "identity; every bond, angle, dihedral and improper is copied into every image with its type (C12_terms_copied_per_image: tuples "
             "shifted by image number x N, types repeated, coefficient tables unchanged; C12_terms_within_one_image: every replicated tuple lies wholly "
             "inside one image, reduces modulo N to an original tuple, and each kind has exactly a*b*c times as many terms; C12_counts: a*b*c*N atoms; C12_atom_by_atom: atom q*N+v is original atom v translated by the q-th multiplier, same type id, charge, group, and same resolved element, mass, label, pair coefficients). Extra term columns per image and the purity of "
             "the original object rest on the correspondence and on the property evaluated directly on the implementation's output.",
        design_ref="DESIGN.md section 5, C12",
        technique="Coq proof (fold over multiplier triples; integer lattice arithmetic by ring/div-mod) with model/implementation correspondence on grid coordinates",
        note=NOTE_COMMON + " Clause resting on correspondence only: extra per-term columns; original object unmodified (Python mutation)."),
    "C01": dict(
        text="Theorem C01_sound (all structures, patterns, tolerances, hints, and EVERY quaternion construction and random choice): each "
             "reported match lists one stored atom per pattern atom with the pattern's element, at stored position + one of the 27 lattice "
             "offsets, with a non-zero quaternion whose rotation (orthogonal and orientation-preserving for any non-zero quaternion, by ring "
             "identities) carries the pattern onto the returned positions within the np.allclose bound. Theorem C01_distinct: on the property's domain "
             "(given as the computable test domain_b: pattern atoms farther apart than the tolerance, short lattice vectors longer than the pattern "
             "diameter plus the tolerance) no match lists an atom twice; an example shows the domain is needed. The agreement of the float "
             "acceptance test with the exact one is checked on every returned match in exact integer arithmetic inside Coq; the set of matched "
             "groups is compared with the model's; every fifth case runs on an Atoms object that was searched before in another state.",
        design_ref="DESIGN.md section 5, C01",
        technique="Coq proof (soundness of the search model for all rot/pick parameters; rotation identities by ring) with exact re-checking of every returned match and model/implementation correspondence on planted problems",
        note=NOTE_COMMON),
    "C02": dict(
        text="Theorems (all inputs, all rot/pick): no atom group is reported twice (keys of the first-seen grouping are NoDup and every "
             "ordering in a group has the group's key); the reported groups are exactly the candidate groups with an accepted ordering; "
             "nothing outside the tolerance is reported (C01_sound); the candidate enumeration is complete (C02_candidates_complete: every tuple "
             "that passes the element / pair-distance screen is a candidate) and every candidate accepted by the rotation check has its group "
             "reported (C02_accepted_candidates_are_reported). Completeness (every planted copy is found) remains PARTIAL in one point: that the "
             "floating-point quaternion construction, a parameter of the model, hands the check an acceptable rotation; that is validated on every run against planted ground "
             "truth (copies across faces, edges, all eight corners, axis-aligned and exactly antiparallel poses, both tilt signs) for both "
             "the implementation and the model's integer construction.",
        design_ref="DESIGN.md section 5, C02",
        technique="Coq proof (uniqueness and no-spurious for all parameters) plus planted-ground-truth correspondence for completeness (partial)",
        note=NOTE_COMMON + " Partial: completeness is validated by correspondence, not proved."),
    "C03": dict(
        text="Theorem (all inputs): the list of reported atom groups is independent of the random choice among symmetry-equivalent orderings, "
             "and depends on the quaternion construction only through which candidate groups contain an accepted ordering. PARTIAL: invariance "
             "under shift+wrap, atom permutation, rigid pattern motion, hint triples (incl. index 0), seeds and supercells (a*b*c times the "
             "count, every occurrence once per image) is validated on every run: each representation is a correspondence case whose expected "
             "groups are the planted ones after renaming, run on the implementation and on the Coq model; a proof would need C02's open "
             "completeness clause. Thorough tier adds implementation-vs-implementation runs on the repository's MOF files (a test).",
        design_ref="DESIGN.md section 5, C03",
        technique="Coq proof of independence from the random choice; metamorphic correspondence (implementation and model vs renamed planted ground truth) for the other representations (partial)",
        note=NOTE_COMMON + " Partial: only RNG independence is a theorem."),
    "C17": dict(
        text="Theorems: the model's output is exactly the pairs i<j whose atoms are bonded (C17_spec); for atoms inside the cell and a cutoff "
             "below every perpendicular width, 'some lattice translate is within the cutoff' <-> 'one of the 27 neighbour translates is' "
             "(Cramer + Cauchy-Schwarz via Lagrange's identity, for any cell shape); the minimum-image criterion is invariant under a common "
             "shift and per-atom lattice translations; the reported list is strictly increasing lexicographically, hence each pair once "
             "(C17_each_pair_once_in_order); every cutoff of the regenerated table is bounded (reflection on the current table). "
             "Tied to the code by element pairs either side of the cutoff directly and through face/edge/corner images, in tight strongly "
             "skewed cells, with the statement also evaluated over 125 images on the implementation's output.",
        design_ref="DESIGN.md section 5, C17",
        technique="Coq proof (27-image sufficiency by ring identities + lia; membership characterisation by induction) with model/implementation correspondence against the regenerated radius table",
        note=NOTE_COMMON + " Table translator tools/gen_tables.py (fail-closed). Not proved: the output list has no duplicates / is sorted (compared exactly against the implementation instead)."),
    "C04": dict(
        text="Theorems on the replacement model, for ANY list of selected matches: a successful replacement reports the number of selected "
             "matches, deletes exactly the union of the matched atoms not common to both patterns (each once), and positions / charges / groups "
             "are the original arrays followed by the not-common replacement atoms per match in order, minus the deleted ones; type tables "
             "are the originals followed by the pattern's; an empty replacement deletes exactly the matched atoms; atoms common to both patterns "
             "stay (self-replacement changes no position, charge or group); with M pairwise disjoint matches the atom count changes by exactly "
             "M x (replacement atoms - search atoms) (C04_count). The selection itself (nearest-integer fraction, only found "
             "matches), element/label/mass retention of bystanders and 'inputs unmodified' are evaluated on every run on the implementation's "
             "output; the full result state is compared with the model.",
        design_ref="DESIGN.md section 5, C04",
        technique="Coq proof about the bookkeeping model (matches as parameters) with model/implementation correspondence of the full result state; selected matches recovered through the public API by re-seeding",
        note=NOTE_COMMON + " Tested, not proved: inputs unmodified (Python mutation); rounding of fraction x matches is checked per run in Coq on the observed counts."),
    "C05": dict(
        text="Theorem C05_frame: the exact placement R(r - s0) + pos0 differs from the image of the replacement coordinate under the rigid motion "
             "certified by C01 by exactly the residual of the first matched atom, which C01 bounds by the tolerance; the rotation is linear and "
             "proper (ring identities). On every run, for every inserted atom, the implementation's coordinate is compared in exact integer "
             "arithmetic with the exact placement modulo the lattice (1.9e-6 A), the matched atoms are re-checked against the returned rotation, "
             "and the atom must lie inside the cell (orthorhombic, triclinic of either tilt sign, upper-triangular, rotated, monoclinic, exactly "
             "rotated orthorhombic); C05_wrap_inside / C05_inside_and_same_site_is_wrap prove that the point inside the cell congruent to a given "
             "point exists and is unique, so this per-run check determines the coordinate. Joint rigid "
             "motion of both patterns is validated per run for patterns with a unique pose (partial).",
        design_ref="DESIGN.md section 5, C05",
        technique="Coq proof (ring identities for the placement frame) plus exact per-atom placement/wrapping check of the implementation's output inside Coq",
        note=NOTE_COMMON + " Partial: wrapping into the cell and joint-motion invariance are checked per run, not proved."),
    "C06": dict(
        text="Theorems: per selected match the rows of every term kind are exactly [old rows not on the same atoms forwards/backwards] ++ "
             "[pattern rows re-targeted, type + offset, extra fields matched by label]; with extend_types' offsets new ids resolve to the "
             "pattern's coefficient text and atom type ids to the pattern's label/element/mass; the final deletion keeps exactly the terms "
             "touching no removed atom, re-indexed. PARTIAL: the composition over all matches is evaluated per run (resolved coefficient "
             "text against the statement, full state against the model), incl. repeated replacements. Known finding D10 (pair coefficients "
             "in the CIF workflow) is proved as a refutation witness and reported as KNOWN-FINDING.",
        design_ref="DESIGN.md section 5, C06",
        technique="Coq proof of the per-match term bookkeeping and type resolution; composed statement by model/implementation correspondence with resolved coefficient text (partial); refutation witness for the known finding",
        note=NOTE_COMMON + " Known finding D10 listed in known_findings.jsonl."),
    "C07": dict(
        text="Theorem C07_refuses_iff (any matches): the dedicated overlap error is the outcome exactly when the replacement is non-empty, the "
             "ignore flag is off and some structure atom lies in the removal sets of two selected matches (removal set = matched atoms not "
             "common to both patterns); an empty replacement never raises and deletes each listed atom once; whenever a structure is returned "
             "the deletion list has no duplicates. Tied to the code on clusters whose occurrences share atoms in every combination.",
        design_ref="DESIGN.md section 5, C07",
        technique="Coq proof (characterisation of the overlap error by induction over the selected matches) with model/implementation correspondence on overlapping clusters",
        note=NOTE_COMMON),
    "C08": dict(
        text="Theorem: replacing a pattern (no coincident same-element atoms) by itself with replace_all off deletes and inserts nothing and "
             "leaves position, charge and group of every atom unchanged, for any matches (the identity map is proved to be the identity; the "
             "hypothesis is shown necessary); C08_self_replacement_terms: when the pattern carries no terms of its own, every bond, angle, dihedral and "
             "improper tuple of the structure and its type are unchanged, in order; C08_self_replacement_elements: every atom resolves to the same "
             "element as before, for any number of matches, given that each matched atom has the element of its pattern atom (what C01_sound "
             "guarantees of the search); C08_self_replacement_never_refused: matches that share atoms are not an overlap error, since nothing is deleted. PARTIAL: the substitution "
             "round trip A->B->A and 'a second search finds none' depend on search completeness and are validated per run on single-site and "
             "multi-atom boundary-crossing patterns.",
        design_ref="DESIGN.md section 5, C08",
        technique="Coq proof of the self-replacement no-op on the bookkeeping model; round trips validated by metamorphic runs (partial)",
        note=NOTE_COMMON + " Partial: reversibility clause validated per run."),
    "C19": dict(
        text="Theorems: typekey gives two sequences the same key exactly when they agree up to reversal (lexicographic order proved total and "
             "antisymmetric); the pair enumeration used per node yields every unordered pair of distinct (deduplicated) neighbours in exactly one "
             "orientation exactly once; two terms receive the same type id exactly when their keys are equal, and the unique-key entry at a "
             "term's id is its own key. Graph level, for EVERY bond list (duplicates, both directions, self-loops): the angles produced are exactly "
             "the pairs of bonds sharing an atom, each in exactly one direction, none twice; every bond serves as central bond in one direction; "
             "the dihedrals produced are exactly the chains i-j-k-l with i<>k, l<>j, each in exactly one direction, none twice (C19_angles_* / "
             "C19_dihedrals_*). The model's node/neighbour order is tied to networkx by exhaustive correspondence over all triangle-free graphs "
             "on <= 4 (thorough <= 5) atoms plus random larger graphs, against the model and brute force; coefficients-per-term invariance under renaming, exclusion sets, "
             "dropped undefined torsions and retyping tables are evaluated on every run.",
        design_ref="DESIGN.md section 5, C19",
        technique="Coq proof (order/typekey, pair enumeration, type assignment) with exhaustive small-graph model/implementation correspondence",
        note=NOTE_COMMON + " Partial: graph-level enumeration completeness by exhaustive correspondence, not by theorem."),
    "C16": dict(
        text="Theorems on the parsed-document model (all documents): a successful load yields one atom per entry in document order with its "
             "element and coordinates and one bond per bond entry joining the atoms its references resolve to; with distinct ids the id of "
             "the k-th entry names atom k whatever its spelling; a molecule without bond entries loads with zero bonds; a molecule whose "
             "references all exist always loads. Tied to the code by generated documents (ids shuffled, arbitrary strings, case-only "
             "differences, empty bond lists, large/negative coordinates) loaded by path and by open file.",
        design_ref="DESIGN.md section 5, C16",
        technique="Coq proof about the parsed-document model with model/implementation correspondence on generated CML documents",
        note=NOTE_COMMON + " ElementTree and float() are trusted glue."),
    "C13": dict(
        text="Theorems on the file-content model (all consistent structures, both atom styles, cells absent / orthorhombic / LAMMPS-oriented): "
             "load(save a) is the structure with positions, masses, charges and cell rounded to six decimals -- same atom order, type ids, groups, "
             "labels, every term with its type, every coefficient entry (C13_roundtrip); the re-read structure is a fixed point of write-then-read "
             "(C13_idempotent); declared counts equal section lengths (C13_counts); every structure in the domain can be written. The text "
             "layer (formatting, blank-line section detection, split, float) is glue: on every run the implementation's text is tokenised by an "
             "independent reader and compared with the model writer, read back by the implementation and compared with the model reader, and "
             "second/third-generation texts are compared byte for byte.",
        design_ref="DESIGN.md section 5, C13",
        technique="Coq proof (round trip of the file-content model, rounding half-even to 1e-6) with model/implementation correspondence through an independent tokenizer",
        note=NOTE_COMMON + " Text layout glue is tested, not modelled; elements assigned on reading are C14's subject."),
    "C18": dict(
        text="Theorems over the reals (generic in the table, instantiated for the table regenerated on every run by a boolean sweep + reflection): "
             "bond-order guess, bond length/force constant, angle force constant, torsion case and barrier are identical under reversal of the "
             "type sequence (incl. undefined/unsupported); every table pair has bond length in [0.39 (ri+rj), ri+rj] and positive force constant "
             "for bond orders in [1,3]; every table triple has a positive angle force constant (obtuse centres by sign analysis, the acute H_b "
             "centre by a ratio bound); torsion barriers are non-negative; fourier coefficients are finite when sin(theta0) <> 0 (checked for the "
             "table). That the CODE computes these formulas is settled per combination: discrete outcomes compared exactly with the computable "
             "case analysis, magnitudes enclosed within 1e-11 relative by kernel-checked interval arithmetic (quick: stratified samples; "
             "thorough: all ordered pairs).",
        design_ref="DESIGN.md section 5, C18",
        technique="Coq proof over Reals (ring/nra/interval) with reflection on the regenerated table; code-vs-formula tie by per-combination kernel-checked interval enclosures and exact comparison of the case analysis",
        note=NOTE_COMMON + " Axioms (all from the standard library / Interval's dependencies): Reals (ClassicalDedekindReals.sig_forall_dec, sig_not_dec), Classical_Prop.classic, FunctionalExtensionality.functional_extensionality_dep, Uint63/PrimInt63 primitives used by Interval's software floats (i_prec given, so no PrimFloat axioms)."),
    "C15": dict(
        text="Theorems on the discrete part: for element symbols without digits the generated atom-site labels are pairwise distinct (a digit-free "
             "prefix followed by a decimal numeral splits uniquely; hypothesis shown necessary by 'C1'+'1' = 'C'+'11'), hence every bond, angle and "
             "torsion written as label tuples is read back through list.index between the same atoms; the space-group guard accepts exactly a "
             "missing tag, 'P1' and 'P 1'. PARTIAL: the numerical part (cell parameters via arccos/cellpar_to_cell, fractional coordinates via a "
             "matrix inverse, '%.4f', wrapping) and the CIF text (PyCifRW) are not modelled; on every run structures are written, read back and "
             "compared to the printed precision, three generations of text are compared, ASE's independent reader must agree, files with "
             "uncertainty parentheses and Cartesian coordinates are read, and a non-P1 file must be rejected.",
        design_ref="DESIGN.md section 5, C15",
        technique="Coq proof of the label/index bookkeeping and the guard; numerical round trip validated by write/read runs against the statement and an independent reader (partial)",
        note=NOTE_COMMON + " Partial: numbers and text layer are tested, not modelled. PyCifRW 5.0.1 and ASE are trusted glue."),
    "C20": dict(
        text="Small theorems on the plan model (all option records): the plan loads first and saves last, is ordered cell / positions / charges / "
             "replicate / minimum-image replication / pair potentials / find-or-replace / framework element / save, contains for every given "
             "option exactly the operation it names with the value given and nothing else, and with only a find pattern plans no replacement. The "
             "substance is the tie: for every generated option combination the plan is computed by Coq, executed call by call through the Python API "
             "with the same seeds, and the file written by the real entry point must be byte-identical (find-only: same matches). Known finding D11 "
             "(--framework-element) is reported as KNOWN-FINDING.",
        design_ref="DESIGN.md section 5, C20",
        technique="Coq proof about the option-to-call plan; differential run of the real command line against the plan executed through the API",
        note=NOTE_COMMON + " click's option parsing is trusted. Known finding D11 listed in known_findings.jsonl."),
}

PENDING_REASON = "no check registered yet: the Coq model and correspondence for this property are still being built (see DESIGN.md section 7 work order); nothing is claimed"


def main():
    props = [json.loads(l) for l in open(os.path.join(VERIF, "properties.jsonl"))]
    checks = []
    na = []
    for p in props:
        pid = p["id"]
        if pid in CLAIMED:
            c = CLAIMED[pid]
            checks.append({
                "property_id": pid,
                "quick_cmd": "./check %s --tier quick" % pid,
                "thorough_cmd": "./check %s --tier thorough" % pid,
                "evidence_file": "/verif/evidence/%s.json" % pid,
                "replay_cmd_template": "./check %s --replay {path}" % pid,
                "engine": "coq-model-correspondence",
                "level_claimed": {"category": "proof", "text": c["text"], "design_ref": c["design_ref"]},
                "level_note": c["note"],
                "technique": c["technique"],
            })
        else:
            na.append({"property_id": pid, "reason": PENDING_REASON})
    m = {
        "version": 1,
        "setup_cmd": "cd /verif/coq && coq_makefile -f _CoqProject -o Makefile && timeout 3000 make -j16",
        "hooks": {"guard": "MOFUN_VERIF", "enable": "no hooks: all checks drive the public API of /repo's working tree (PYTHONPATH=/repo)",
                  "baseline_off_cmd": "cd /repo && /venv/bin/python -m pytest -ra -q -p no:cacheprovider --timeout=900 --continue-on-collection-errors",
                  "source_commits": [], "add_only": True},
        "engines": [{"name": "coq-model-correspondence", "path": "/verif/check",
                     "serves_properties": sorted(CLAIMED),
                     "kind_free_text": "Coq 8.16 theorems about hand-written Gallina models; models evaluated by vm_compute on the inputs the implementation ran on; data tables regenerated from source by a fail-closed translator"}],
        "checks": checks,
        "not_applicable": na,
        "notes": "Entry point ./check <id> [--tier quick|thorough] [--replay FILE]; known findings in /verif/known_findings.jsonl; see DESIGN.md.",
    }
    with open(os.path.join(VERIF, "MANIFEST.json"), "w") as f:
        json.dump(m, f, indent=1)
    print("MANIFEST: %d checks, %d not claimed" % (len(checks), len(na)))


if __name__ == "__main__":
    main()
