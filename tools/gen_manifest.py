#!/usr/bin/env python3
"""Writes /verif/MANIFEST.json from the table below (so that it is always valid and current)."""
import json
import os

VERIF = os.path.dirname(os.path.dirname(os.path.abspath(__file__)))

NOTE_COMMON = ("Trusted: Coq 8.16.1 kernel and vm_compute; the hand-written Gallina model (coq/theories/Model) whose agreement with "
               "/repo is checked on every run by evaluating it on the inputs the implementation ran on (cases_*.v); the harness "
               "(generators, canonicalisation); float-vs-exact agreement away from thresholds. Print Assumptions output of every "
               "property theorem is copied into the evidence file on every run.")

CLAIMED = {
    "C14": dict(
        text="Theorems (all inputs, any table): the model of guess_elements_from_masses / load_lmpdat's fallback returns an element "
             "within tolerance that is nearest, returns none only when nothing is within tolerance, is all-or-nothing, and recovers "
             "every distinguishable element from its printed mass; the last is re-proved by reflection against the mass table "
             "regenerated from /repo on every run. Model tied to the code by an exhaustive boundary sweep (every element x both "
             "tolerances x both sides of every boundary) through both entry points.",
        design_ref="DESIGN.md section 5, C14",
        technique="Coq proof (induction over the table fold + reflection on the regenerated table) with exhaustive model/implementation correspondence under vm_compute",
        note=NOTE_COMMON + " Table translator tools/gen_tables.py (fail-closed)."),
    "C10": dict(
        text="Theorems (all structures, all NoDup index lists): per-atom arrays after deletion are the originals read at the surviving indices in "
             "increasing order; a term survives iff none of its atoms is deleted, keeping order, type and extra fields, with indices renamed by "
             "ren; ren maps each surviving atom to its new position (same physical atom); the result is independent of the listing order; pop = "
             "delete of the selected index. The literal descending re-index loop is what is modelled (ascending mutant refuted by a witness). "
             "Model tied to the code by exhaustive enumeration of every non-empty subset in two listing orders on small structures.",
        design_ref="DESIGN.md section 5, C10",
        technique="Coq proof (induction; literal re-index loop = rename by count of smaller deleted indices) with exhaustive model/implementation correspondence under vm_compute",
        note=NOTE_COMMON),
}

PENDING_REASON = "no check registered yet: the Coq model and correspondence for this property are still being built (see DESIGN.md section 7 work order); nothing is claimed"


def main():
    props = [json.loads(l) for l in open(os.path.join(VERIF, "properties.jsonl"))]
    checks = []
    na = []
    for p in props:
        pid = p["id"]
        if pid in CLAIMED:
            c = CLAIMED[pid]
            checks.append({
                "property_id": pid,
                "quick_cmd": "./check %s --tier quick" % pid,
                "thorough_cmd": "./check %s --tier thorough" % pid,
                "evidence_file": "/verif/evidence/%s.json" % pid,
                "replay_cmd_template": "./check %s --replay {path}" % pid,
                "engine": "coq-model-correspondence",
                "level_claimed": {"category": "proof", "text": c["text"], "design_ref": c["design_ref"]},
                "level_note": c["note"],
                "technique": c["technique"],
            })
        else:
            na.append({"property_id": pid, "reason": PENDING_REASON})
    m = {
        "version": 1,
        "setup_cmd": "cd /verif/coq && coq_makefile -f _CoqProject -o Makefile && timeout 3000 make -j16",
        "hooks": {"guard": "MOFUN_VERIF", "enable": "no hooks: all checks drive the public API of /repo's working tree (PYTHONPATH=/repo)",
                  "baseline_off_cmd": "cd /repo && /venv/bin/python -m pytest -ra -q -p no:cacheprovider --timeout=900 --continue-on-collection-errors",
                  "source_commits": [], "add_only": True},
        "engines": [{"name": "coq-model-correspondence", "path": "/verif/check",
                     "serves_properties": sorted(CLAIMED),
                     "kind_free_text": "Coq 8.16 theorems about hand-written Gallina models; models evaluated by vm_compute on the inputs the implementation ran on; data tables regenerated from source by a fail-closed translator"}],
        "checks": checks,
        "not_applicable": na,
        "notes": "Entry point ./check <id> [--tier quick|thorough] [--replay FILE]; known findings in /verif/known_findings.jsonl; see DESIGN.md.",
    }
    with open(os.path.join(VERIF, "MANIFEST.json"), "w") as f:
        json.dump(m, f, indent=1)
    print("MANIFEST: %d checks, %d not claimed" % (len(checks), len(na)))


if __name__ == "__main__":
    main()
